//! Independent decoder of the replication wire format (update / mutate / ack messages).
//!
//! Strict: every byte must be consumed and every id known, otherwise an error is returned and the
//! caller records a *tool error* (never a property violation).
use std::collections::{BTreeMap, HashMap};

use bevy::prelude::Entity;
use serde_json::{Value, json};

use crate::model::{COMPS, FNS_CHILD_OF};

pub struct Names<'a> {
    pub rev: &'a HashMap<Entity, String>,
    pub pre: Option<&'a BTreeMap<String, Entity>>,
    /// payload version decoding needs slot indices
    pub slot_idx: &'a dyn Fn(&str) -> Option<usize>,
    pub track: bool,
    pub rel: bool,
}

pub fn hex(b: &[u8]) -> String {
    b.iter().map(|x| format!("{x:02x}")).collect()
}

pub fn comp_name(fns: usize) -> String {
    if fns < COMPS.len() {
        COMPS[fns].to_string()
    } else if fns == FNS_CHILD_OF {
        "ChildOf".to_string()
    } else {
        format!("?fns{fns}")
    }
}

pub struct Cur<'a> {
    pub b: &'a [u8],
    pub p: usize,
}

impl<'a> Cur<'a> {
    pub fn new(b: &'a [u8]) -> Self {
        Self { b, p: 0 }
    }
    pub fn rem(&self) -> usize {
        self.b.len() - self.p
    }
    pub fn u8(&mut self) -> Result<u8, String> {
        let x = *self.b.get(self.p).ok_or("eof")?;
        self.p += 1;
        Ok(x)
    }
    pub fn varint(&mut self) -> Result<u64, String> {
        let mut out: u64 = 0;
        for i in 0..10 {
            let x = self.u8()?;
            out |= ((x & 0x7f) as u64) << (7 * i);
            if x & 0x80 == 0 {
                return Ok(out);
            }
        }
        Err("varint too long".into())
    }
    pub fn u16le(&mut self) -> Result<u16, String> {
        let a = self.u8()? as u16;
        let b = self.u8()? as u16;
        Ok(a | (b << 8))
    }
    pub fn entity_bits(&mut self) -> Result<u64, String> {
        let fi = self.varint()?;
        let generation = if fi & 1 == 1 { self.varint()? + 1 } else { 1 };
        Ok((generation << 32) | (fi >> 1))
    }
    pub fn skip(&mut self, n: usize) -> Result<(), String> {
        if self.rem() < n {
            return Err("eof in skip".into());
        }
        self.p += n;
        Ok(())
    }
}

fn ent_name(bits: u64, names: &Names) -> String {
    match Entity::try_from_bits(bits) {
        Ok(e) => names.rev.get(&e).cloned().unwrap_or_else(|| format!("?{bits}")),
        Err(_) => format!("?invalid{bits}"),
    }
}

fn pre_name(bits: u64, names: &Names) -> String {
    if let (Ok(e), Some(pre)) = (Entity::try_from_bits(bits), names.pre) {
        if let Some((n, _)) = pre.iter().find(|(_, x)| **x == e) {
            return n.clone();
        }
    }
    format!("?{bits}")
}

/// Decodes one component `(fns id, payload)`; returns `(name, value)`.
fn component(c: &mut Cur, ent: &str, names: &Names) -> Result<(String, Value), String> {
    let fns = c.varint()? as usize;
    if fns < COMPS.len() {
        let v = c.varint()? as u32;
        let padlen = c.varint()? as usize;
        c.skip(padlen)?;
        let val = match (names.slot_idx)(ent) {
            Some(idx) => crate::model::version_of(v, idx, fns),
            None => -1,
        };
        Ok((COMPS[fns].to_string(), json!(val)))
    } else if fns == FNS_CHILD_OF && names.rel {
        let bits = c.varint()?;
        Ok(("ChildOf".to_string(), json!(ent_name(bits, names))))
    } else {
        Err(format!("unknown fns id {fns}"))
    }
}

pub fn decode_update(b: &[u8], names: &Names) -> Result<Value, String> {
    let mut c = Cur::new(b);
    let flags = c.u8()?;
    if flags == 0 || flags > 15 {
        return Err(format!("bad flags {flags}"));
    }
    let tick = c.varint()?;
    let last = 1u8 << (7 - flags.leading_zeros());
    let mut maps = Vec::new();
    let mut desp = serde_json::Map::new();
    let mut rems = serde_json::Map::new();
    let mut chg = serde_json::Map::new();
    let mut order: Vec<String> = Vec::new();
    let mut rorder: Vec<String> = Vec::new();
    for flag in [1u8, 2, 4, 8] {
        if flags & flag == 0 {
            continue;
        }
        let n = if flag != last { Some(c.varint()? as usize) } else { None };
        let mut i = 0;
        loop {
            match n {
                Some(n) if i >= n => break,
                None if c.rem() == 0 => break,
                _ => {}
            }
            i += 1;
            match flag {
                1 => {
                    let s = c.entity_bits()?;
                    let p = c.entity_bits()?;
                    maps.push(json!([ent_name(s, names), pre_name(p, names)]));
                }
                2 => {
                    let e = ent_name(c.entity_bits()?, names);
                    let cnt = desp.get(&e).and_then(|v: &Value| v.as_u64()).unwrap_or(0);
                    desp.insert(e, json!(cnt + 1));
                }
                4 => {
                    let e = ent_name(c.entity_bits()?, names);
                    let len = c.varint()? as usize;
                    let mut ks = Vec::new();
                    for _ in 0..len {
                        ks.push(comp_name(c.varint()? as usize));
                    }
                    ks.sort();
                    rorder.push(e.clone());
                    if rems.insert(e.clone(), json!(ks)).is_some() {
                        return Err(format!("duplicate removal record for {e}"));
                    }
                }
                8 => {
                    let e = ent_name(c.entity_bits()?, names);
                    let len = c.varint()? as usize;
                    let mut comps = serde_json::Map::new();
                    for _ in 0..len {
                        let (k, v) = component(&mut c, &e, names)?;
                        if comps.insert(k.clone(), v).is_some() {
                            return Err(format!("duplicate component {k} for {e}"));
                        }
                    }
                    order.push(e.clone());
                    if chg.insert(e.clone(), Value::Object(comps)).is_some() {
                        return Err(format!("duplicate change record for {e}"));
                    }
                }
                _ => unreachable!(),
            }
        }
    }
    if c.rem() != 0 {
        return Err("trailing bytes".into());
    }
    Ok(json!({"tick": tick, "maps": maps, "desp": desp, "rems": rems, "chg": chg, "order": order, "rorder": rorder, "len": b.len()}))
}

/// Decodes the entity section of a mutate message: `(ents, sizes, order)`.
pub fn decode_mutate_body(c: &mut Cur, names: &Names) -> Result<(serde_json::Map<String, Value>, serde_json::Map<String, Value>, Vec<String>), String> {
    let mut ents = serde_json::Map::new();
    let mut sizes = serde_json::Map::new();
    let mut order = Vec::new();
    while c.rem() > 0 {
        let start = c.p;
        let e = ent_name(c.entity_bits()?, names);
        let size = c.varint()? as usize;
        let end = c.p + size;
        if end > c.b.len() {
            return Err("entity data exceeds message".into());
        }
        let mut comps = serde_json::Map::new();
        while c.p < end {
            let (k, v) = component(c, &e, names)?;
            if comps.insert(k.clone(), v).is_some() {
                return Err(format!("duplicate component {k} for {e}"));
            }
        }
        if c.p != end {
            return Err("component overran entity data".into());
        }
        sizes.insert(e.clone(), json!(c.p - start));
        order.push(e.clone());
        if ents.insert(e.clone(), Value::Object(comps)).is_some() {
            return Err(format!("duplicate entity {e} in mutate message"));
        }
    }
    Ok((ents, sizes, order))
}

pub fn decode_mutate(b: &[u8], names: &Names) -> Result<Value, String> {
    let mut c = Cur::new(b);
    let upd = c.varint()?;
    let tick = c.varint()?;
    let cnt: i64 = if names.track { c.varint()? as i64 } else { -1 };
    let idx = c.u16le()?;
    let hdr = c.p;
    let (ents, sizes, order) = decode_mutate_body(&mut c, names)?;
    Ok(json!({"upd": upd, "tick": tick, "cnt": cnt, "idx": idx, "ents": ents, "sizes": sizes, "order": order, "len": b.len(), "hdr": hdr}))
}

pub fn decode_acks(b: &[u8]) -> Result<Value, String> {
    let mut c = Cur::new(b);
    let mut out = Vec::new();
    while c.rem() > 0 {
        out.push(c.u16le()?);
    }
    Ok(json!(out))
}
