pub mod driver;
pub mod events;
pub mod model;
pub mod sim;
pub mod wire;
