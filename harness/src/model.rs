//! Test vocabulary shared by all harness binaries: components, events, app construction.
use std::time::Duration;

use bevy::{prelude::*, time::TimeUpdateStrategy};
use bevy_replicon::{prelude::*, shared::replication::track_mutate_messages::TrackAppExt};
use serde::{Deserialize, Serialize};

/// Names of the replicated test components, in registration order (`FnsId` = index).
pub const COMPS: [&str; 4] = ["A", "B", "P", "O"];
/// `FnsId` of the `ChildOf` rule when relations are enabled.
pub const FNS_CHILD_OF: usize = 4;

macro_rules! comp {
    ($name:ident) => {
        #[derive(Component, Serialize, Deserialize, Clone, Debug, PartialEq)]
        pub struct $name {
            pub v: u32,
            pub pad: Vec<u8>,
        }
    };
}
comp!(A);
comp!(B);
comp!(P);
comp!(O);

/// Payload encoding: `slot * 1_000_000 + comp * 10_000 + version`.
pub fn payload(slot: usize, comp: usize, ver: u32) -> u32 {
    (slot as u32) * 1_000_000 + (comp as u32) * 10_000 + ver
}

/// Inverse of [`payload`]: returns the version if slot and component match, `-1` otherwise.
pub fn version_of(p: u32, slot: usize, comp: usize) -> i64 {
    let s = (p / 1_000_000) as usize;
    let c = ((p / 10_000) % 100) as usize;
    if s == slot && c == comp {
        (p % 10_000) as i64
    } else {
        -1
    }
}

#[derive(Clone, Debug, Serialize, Deserialize)]
pub struct Cfg {
    pub ents: Vec<String>,
    pub clients: Vec<String>,
    /// "all" | "black" | "white"
    pub policy: String,
    pub track: bool,
    pub rel: bool,
    /// per client maximum message size
    pub max_size: Vec<usize>,
    /// "none" | "protocol" | "custom"
    pub auth: String,
    pub timeout_ms: u64,
    /// register the test events
    #[serde(default)]
    pub events: bool,
    /// `TickPolicy::EveryFrame` instead of `Manual`: the server increments its tick in every frame it runs
    #[serde(default)]
    pub every_frame: bool,
}

impl Default for Cfg {
    fn default() -> Self {
        Self {
            ents: vec!["e1".into(), "e2".into()],
            clients: vec!["c1".into()],
            policy: "all".into(),
            track: false,
            rel: false,
            max_size: vec![1200],
            auth: "none".into(),
            timeout_ms: 10_000,
            events: false,
            every_frame: false,
        }
    }
}

pub fn policy_of(s: &str) -> VisibilityPolicy {
    match s {
        "all" => VisibilityPolicy::All,
        "black" => VisibilityPolicy::Blacklist,
        "white" => VisibilityPolicy::Whitelist,
        _ => panic!("unknown policy {s}"),
    }
}

pub fn auth_of(s: &str) -> AuthMethod {
    match s {
        "none" => AuthMethod::None,
        "protocol" => AuthMethod::ProtocolCheck,
        "custom" => AuthMethod::Custom,
        _ => panic!("unknown auth {s}"),
    }
}

/// Ticks reported by `MutateTickReceived` (tracking on), as game logic sees them.
#[derive(Resource, Default)]
pub struct TickLog(pub Vec<u32>);

fn read_mutate_ticks(
    mut r: EventReader<bevy_replicon::client::server_mutate_ticks::MutateTickReceived>,
    mut log: ResMut<TickLog>,
) {
    for e in r.read() {
        log.0.push(e.tick.get());
    }
}

/// Builds one app (used for the server and for every client) with the full plugin set.
pub fn build_app(cfg: &Cfg, extra: &dyn Fn(&mut App)) -> App {
    let mut app = App::new();
    app.add_plugins((
        MinimalPlugins,
        RepliconPlugins
            .set(ServerPlugin {
                tick_policy: if cfg.every_frame { TickPolicy::EveryFrame } else { TickPolicy::Manual },
                visibility_policy: policy_of(&cfg.policy),
                mutations_timeout: Duration::from_millis(cfg.timeout_ms),
            })
            .set(RepliconSharedPlugin {
                auth_method: auth_of(&cfg.auth),
            }),
    ));
    app.insert_resource(TimeUpdateStrategy::ManualDuration(Duration::ZERO));
    // virtual time clamps a frame's delta to 250 ms by default; the drivers step time in larger units
    app.world_mut().resource_mut::<Time<Virtual>>().set_max_delta(Duration::from_secs(3600));
    app.replicate::<A>()
        .replicate::<B>()
        .replicate_periodic::<P>(2)
        .replicate_once::<O>();
    if cfg.rel {
        app.sync_related_entities::<ChildOf>().replicate::<ChildOf>();
    }
    app.init_resource::<TickLog>();
    if cfg.track {
        app.track_mutate_messages();
        app.add_systems(Update, read_mutate_ticks);
    }
    if cfg.events {
        crate::events::register(&mut app);
    }
    extra(&mut app);
    app.finish();
    app
}
