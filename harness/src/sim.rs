//! One real server `App`, n real client `App`s and a harness-owned network between them.
//!
//! Every harness step corresponds to one action of the TLA+ specification (`spec/Core.tla`);
//! [`Sim::project`] maps the real state into the specification's state record.
use std::{
    collections::{BTreeMap, HashMap, VecDeque},
    panic::{AssertUnwindSafe, catch_unwind},
    time::Duration,
};

use bevy::{ecs::component::Tick, prelude::*, time::TimeUpdateStrategy};
use bevy_replicon::{
    client::{BufferedMutations, ServerUpdateTick, confirm_history::ConfirmHistory},
    prelude::*,
    server::server_tick::ServerTick,
    shared::{replication::client_ticks::ClientTicks, server_entity_map::ServerEntityMap},
};
use bytes::Bytes;
use serde_json::{Value, json};

use crate::{
    model::*,
    wire::{self, Names},
};

pub const CH_UPD: usize = 0;
pub const CH_MUT: usize = 1;
pub const CH_ACK: usize = 0;

#[derive(Clone, Debug)]
pub struct Msg {
    pub id: u64,
    pub bytes: Bytes,
    pub dec: Value,
}

pub struct ClientSim {
    pub name: String,
    pub app: App,
    /// Entity of this client on the server, if connected.
    pub entity: Option<Entity>,
    pub max_size: usize,
    pub s2c: Vec<VecDeque<Msg>>,
    pub c2s: Vec<VecDeque<Msg>>,
    /// Delivered to `RepliconClient` but not yet processed by a client frame.
    pub rx: Vec<Vec<Msg>>,
    /// Delivered to `RepliconServer` but not yet processed by a server frame.
    pub srx: Vec<Vec<Msg>>,
    pub sess: u32,
    /// Client-side pre-spawned entities (C16): name -> client entity.
    pub prespawned: BTreeMap<String, Entity>,
    pub panicked: bool,
    /// last projection of this client's state (returned again once the app has panicked)
    pub last_proj: std::cell::RefCell<Value>,
    /// client emissions queued by the driver: (type, id, slot)
    pub pending_emits: Vec<(String, u32, Option<String>)>,
    /// pre-spawned entities already used in a mapping (one mapping each)
    pub used_pre: std::collections::BTreeSet<String>,
    /// MutateTickReceived notifications observed in the client's last frame
    pub last_notif: Vec<u32>,
}

#[derive(Default, Clone)]
pub struct Slot {
    pub idx: usize,
    pub server: Option<Entity>,
    pub ver: [u32; 4],
    pub pad: usize,
}

pub struct Sim {
    pub cfg: Cfg,
    pub server: App,
    pub clients: Vec<ClientSim>,
    pub slots: BTreeMap<String, Slot>,
    /// server entity bits -> slot name
    pub rev: HashMap<Entity, String>,
    /// `after[f]` = server world change tick after frame `f` (`after[0]` = tick after setup).
    pub after: Vec<u32>,
    pub frame: u32,
    pub last_run: u32,
    pub next_msg_id: u64,
    /// messages of the code under test that the harness's decoder rejected (data, reported by the validator)
    pub wire_errors: Vec<String>,
    pub last_srv_proj: std::cell::RefCell<Value>,
    pub server_panicked: bool,
    /// whether `send_replication` ran in the most recent server frame (cfg-guarded counter in /repo)
    pub last_ran: bool,
    /// messages sent in the last step (decoded), for `obs`
    pub last_sent: Vec<Value>,
    /// what game logic observed in the last frame (event deliveries)
    pub last_delivered: Vec<Value>,
    /// server emissions queued by the driver: (type, id, mode, to, entity slot)
    pub pending_semits: Vec<(String, u32, String, Option<String>, Option<String>)>,
    pub last_panic: Option<String>,
    /// decoder problems: the run is a tool error, not a verdict
    pub tool_errors: Vec<String>,
}

fn set_dt(app: &mut App, ms: u64) {
    app.insert_resource(TimeUpdateStrategy::ManualDuration(Duration::from_millis(ms)));
}

macro_rules! with_comp {
    ($k:expr, $C:ident, $body:block) => {
        match $k {
            0 => {
                type $C = A;
                $body
            }
            1 => {
                type $C = B;
                $body
            }
            2 => {
                type $C = P;
                $body
            }
            3 => {
                type $C = O;
                $body
            }
            _ => panic!("bad comp index"),
        }
    };
}

pub fn comp_idx(k: &str) -> usize {
    COMPS.iter().position(|c| *c == k).unwrap_or_else(|| panic!("unknown comp {k}"))
}

fn insert_comp(world: &mut World, e: Entity, k: usize, v: u32, pad: usize) {
    let pad = vec![0xEE; pad];
    match k {
        0 => world.entity_mut(e).insert(A { v, pad }),
        1 => world.entity_mut(e).insert(B { v, pad }),
        2 => world.entity_mut(e).insert(P { v, pad }),
        3 => world.entity_mut(e).insert(O { v, pad }),
        _ => panic!(),
    };
}

fn mutate_comp(world: &mut World, e: Entity, k: usize, v: u32) -> bool {
    match k {
        0 => world.get_mut::<A>(e).map(|mut c| c.v = v).is_some(),
        1 => world.get_mut::<B>(e).map(|mut c| c.v = v).is_some(),
        2 => world.get_mut::<P>(e).map(|mut c| c.v = v).is_some(),
        3 => world.get_mut::<O>(e).map(|mut c| c.v = v).is_some(),
        _ => panic!(),
    }
}

fn remove_comp(world: &mut World, e: Entity, k: usize) {
    match k {
        0 => world.entity_mut(e).remove::<A>(),
        1 => world.entity_mut(e).remove::<B>(),
        2 => world.entity_mut(e).remove::<P>(),
        3 => world.entity_mut(e).remove::<O>(),
        _ => panic!(),
    };
}

/// `(value, changed tick, added tick)` of component `k`.
fn read_comp(world: &World, e: Entity, k: usize) -> Option<(u32, Tick, Tick)> {
    let er = world.get_entity(e).ok()?;
    with_comp!(k, C, {
        let c = er.get::<C>()?;
        let t = er.get_change_ticks::<C>()?;
        Some((c.v, t.changed, t.added))
    })
}

impl Sim {
    pub fn new(cfg: Cfg) -> Self {
        Self::new_with(cfg, &|_| {})
    }

    pub fn new_with(cfg: Cfg, extra: &dyn Fn(&mut App)) -> Self {
        let mut server = build_app(&cfg, extra);
        server.world_mut().resource_mut::<RepliconServer>().set_running(true);
        let mut clients = Vec::new();
        for (i, name) in cfg.clients.iter().enumerate() {
            let app = build_app(&cfg, extra);
            let nch_s = app.world().resource::<RepliconChannels>().server_channels().len();
            let nch_c = app.world().resource::<RepliconChannels>().client_channels().len();
            clients.push(ClientSim {
                name: name.clone(),
                app,
                entity: None,
                max_size: cfg.max_size.get(i).copied().unwrap_or(1200),
                s2c: vec![VecDeque::new(); nch_s],
                c2s: vec![VecDeque::new(); nch_c],
                rx: vec![Vec::new(); nch_s],
                srx: vec![Vec::new(); nch_c],
                sess: 0,
                prespawned: BTreeMap::new(),
                panicked: false,
                last_proj: std::cell::RefCell::new(Value::Null),
                pending_emits: Vec::new(),
                used_pre: Default::default(),
                last_notif: Vec::new(),
            });
        }
        let mut slots = BTreeMap::new();
        for (i, e) in cfg.ents.iter().enumerate() {
            slots.insert(e.clone(), Slot { idx: i + 1, ..Default::default() });
        }
        let after0 = server.world().read_change_tick().get();
        Sim {
            cfg,
            server,
            clients,
            slots,
            rev: HashMap::new(),
            after: vec![after0],
            frame: 0,
            last_run: 0,
            next_msg_id: 1,
            wire_errors: Vec::new(),
            last_srv_proj: std::cell::RefCell::new(Value::Null),
            server_panicked: false,
            last_ran: false,
            last_sent: Vec::new(),
            last_delivered: Vec::new(),
            pending_semits: Vec::new(),
            last_panic: None,
            tool_errors: Vec::new(),
        }
    }

    pub fn ci(&self, c: &str) -> usize {
        self.clients.iter().position(|x| x.name == c).unwrap_or_else(|| panic!("unknown client {c}"))
    }

    /// Maps a server-world change tick to the frame window it belongs to.
    pub fn frame_of(&self, t: Tick) -> u32 {
        let t = t.get();
        for (f, &a) in self.after.iter().enumerate() {
            if t < a {
                return f as u32;
            }
        }
        self.after.len() as u32
    }

    // ------------------------------------------------------------------ server ops

    pub fn server_entity(&self, e: &str) -> Option<Entity> {
        self.slots.get(e).and_then(|s| s.server)
    }

    fn alive(&self, e: &str) -> Option<Entity> {
        self.server_entity(e).filter(|&se| self.server.world().get_entity(se).is_ok())
    }

    /// Enabledness of a server operation, mirrored by the spec's action guards.
    pub fn op_enabled(&self, ev: &str, a: &Value) -> bool {
        let e = a["e"].as_str().unwrap_or("");
        let has = |k: &str| self.alive(e).is_some_and(|se| read_comp(self.server.world(), se, comp_idx(k)).is_some());
        match ev {
            "Spawn" => self.slots.get(e).is_some_and(|s| s.server.is_none()),
            "Despawn" => self.alive(e).is_some(),
            "Mark" => self.alive(e).is_some_and(|se| !self.server.world().entity(se).contains::<Replicated>()),
            "Unmark" => self.alive(e).is_some_and(|se| self.server.world().entity(se).contains::<Replicated>()),
            "Insert" => self.alive(e).is_some() && !has(a["k"].as_str().unwrap()),
            "Remove" | "Mutate" => has(a["k"].as_str().unwrap()),
            "Relate" => {
                let p = a["p"].as_str().unwrap();
                let (Some(se), Some(sp)) = (self.alive(e), self.alive(p)) else { return false };
                // no cycles
                let mut cur = Some(sp);
                while let Some(x) = cur {
                    if x == se {
                        return false;
                    }
                    cur = self.server.world().get::<ChildOf>(x).map(|c| c.parent());
                }
                true
            }
            "Unrelate" => self.alive(e).is_some_and(|se| self.server.world().get::<ChildOf>(se).is_some()),
            _ => true,
        }
    }

    pub fn spawn(&mut self, e: &str, comps: &[&str], repl: bool) {
        let slot = self.slots.get_mut(e).expect("unknown slot");
        assert!(slot.server.is_none(), "slot {e} already used");
        let se = self.server.world_mut().spawn_empty().id();
        slot.server = Some(se);
        let (idx, pad) = (slot.idx, slot.pad);
        self.rev.insert(se, e.to_string());
        for k in comps {
            let k = comp_idx(k);
            let slot = self.slots.get_mut(e).unwrap();
            slot.ver[k] += 1;
            let v = payload(idx, k, slot.ver[k]);
            insert_comp(self.server.world_mut(), se, k, v, pad);
        }
        if repl {
            self.server.world_mut().entity_mut(se).insert(Replicated);
        }
    }

    pub fn despawn(&mut self, e: &str) {
        let se = self.alive(e).expect("despawn of dead entity");
        self.server.world_mut().entity_mut(se).despawn();
    }

    pub fn mark(&mut self, e: &str, on: bool) {
        let se = self.alive(e).expect("mark of dead entity");
        if on {
            self.server.world_mut().entity_mut(se).insert(Replicated);
        } else {
            self.server.world_mut().entity_mut(se).remove::<Replicated>();
        }
    }

    pub fn insert(&mut self, e: &str, k: &str) {
        let se = self.alive(e).expect("insert on dead entity");
        let k = comp_idx(k);
        let slot = self.slots.get_mut(e).unwrap();
        slot.ver[k] += 1;
        let v = payload(slot.idx, k, slot.ver[k]);
        let pad = slot.pad;
        insert_comp(self.server.world_mut(), se, k, v, pad);
    }

    pub fn mutate(&mut self, e: &str, k: &str) {
        let se = self.alive(e).expect("mutate on dead entity");
        let k = comp_idx(k);
        let slot = self.slots.get_mut(e).unwrap();
        slot.ver[k] += 1;
        let v = payload(slot.idx, k, slot.ver[k]);
        assert!(mutate_comp(self.server.world_mut(), se, k, v));
    }

    pub fn remove(&mut self, e: &str, k: &str) {
        let se = self.alive(e).expect("remove on dead entity");
        remove_comp(self.server.world_mut(), se, comp_idx(k));
    }

    pub fn relate(&mut self, e: &str, p: &str) {
        let se = self.alive(e).unwrap();
        let sp = self.alive(p).unwrap();
        self.server.world_mut().entity_mut(se).insert(ChildOf(sp));
    }

    pub fn unrelate(&mut self, e: &str) {
        let se = self.alive(e).unwrap();
        self.server.world_mut().entity_mut(se).remove::<ChildOf>();
    }

    pub fn set_vis(&mut self, c: &str, e: &str, v: bool) -> bool {
        let ci = self.ci(c);
        let (Some(ce), Some(se)) = (self.clients[ci].entity, self.server_entity(e)) else { return false };
        if let Some(mut vis) = self.server.world_mut().get_mut::<ClientVisibility>(ce) {
            vis.set_visibility(se, v);
            true
        } else {
            false
        }
    }

    /// What the server's visibility query reports for `e` and client `c` (None: no such client / entity).
    pub fn is_visible(&self, c: &str, e: &str) -> Option<bool> {
        let ci = self.ci(c);
        let (Some(ce), Some(se)) = (self.clients[ci].entity, self.server_entity(e)) else { return None };
        self.server.world().get::<ClientVisibility>(ce).map(|vis| vis.is_visible(se))
    }

    pub fn map_prespawned(&mut self, c: &str, e: &str, p: &str) -> bool {
        let ci = self.ci(c);
        let (Some(ce), Some(se)) = (self.clients[ci].entity, self.alive(e)) else { return false };
        let Some(&pe) = self.clients[ci].prespawned.get(p) else { return false };
        // one mapping per server entity and per pre-spawned entity
        if self.server.world().get::<ClientEntityMap>(ce).is_some_and(|m| m.iter().any(|&(s, c)| s == se || c == pe)) {
            return false;
        }
        if self.clients[ci].used_pre.contains(p) || self.clients[ci].used_pre.contains(e) {
            return false;
        }
        // C16's premise: the mapping is registered no later than the tick in which the entity first
        // becomes visible to the client, i.e. the server has not sent the entity to it yet
        if self.server.world().get::<ClientTicks>(ce).is_some_and(|t| t.verif_mutation_ticks().iter().any(|(e, _)| *e == se)) {
            return false;
        }
        if let Some(mut map) = self.server.world_mut().get_mut::<ClientEntityMap>(ce) {
            map.insert(se, pe);
            self.clients[ci].used_pre.insert(p.to_string());
            self.clients[ci].used_pre.insert(e.to_string());
            true
        } else {
            false
        }
    }

    pub fn prespawn(&mut self, c: &str, p: &str) {
        let ci = self.ci(c);
        let e = self.clients[ci].app.world_mut().spawn_empty().id();
        self.clients[ci].prespawned.insert(p.to_string(), e);
    }

    pub fn kill_prespawned(&mut self, c: &str, p: &str) {
        let ci = self.ci(c);
        if let Some(&e) = self.clients[ci].prespawned.get(p) {
            if let Ok(em) = self.clients[ci].app.world_mut().get_entity_mut(e) {
                em.despawn();
            }
        }
    }

    // ------------------------------------------------------------------ sessions

    pub fn connect(&mut self, c: &str) {
        let ci = self.ci(c);
        assert!(self.clients[ci].entity.is_none());
        let max_size = self.clients[ci].max_size;
        let ce = self.server.world_mut().spawn(ConnectedClient { max_size }).id();
        let cl = &mut self.clients[ci];
        cl.entity = Some(ce);
        cl.sess += 1;
        cl.app.world_mut().get_resource_mut::<RepliconClient>().map(|mut c| c.set_status(RepliconClientStatus::Connected));
    }

    /// Both ends drop the connection; everything in flight is lost with the transport.
    pub fn disconnect(&mut self, c: &str) {
        let ci = self.ci(c);
        if let Some(ce) = self.clients[ci].entity.take() {
            if let Ok(em) = self.server.world_mut().get_entity_mut(ce) {
                em.despawn();
            }
        }
        let cl = &mut self.clients[ci];
        cl.app.world_mut().get_resource_mut::<RepliconClient>().map(|mut c| c.set_status(RepliconClientStatus::Disconnected));
        for q in cl.s2c.iter_mut().chain(cl.c2s.iter_mut()) {
            q.clear();
        }
        for q in cl.rx.iter_mut().chain(cl.srx.iter_mut()) {
            q.clear();
        }
        // The game's business: forget the entities of the ended session.
        let w = cl.app.world_mut();
        let old: Vec<Entity> = w.query_filtered::<Entity, With<Replicated>>().iter(w).collect();
        for o in old {
            if let Ok(em) = w.get_entity_mut(o) {
                em.despawn();
            }
        }
        cl.prespawned.clear();
        cl.used_pre.clear();
    }

    /// The connection is lost while the backend already tries to reconnect (status Connecting).
    pub fn lose_to_connecting(&mut self, c: &str) {
        self.disconnect(c);
        let ci = self.ci(c);
        self.clients[ci].app.world_mut().get_resource_mut::<RepliconClient>().map(|mut c| c.set_status(RepliconClientStatus::Connecting));
    }

    pub fn give_up(&mut self, c: &str) -> bool {
        let ci = self.ci(c);
        let Some(mut client) = self.clients[ci].app.world_mut().get_resource_mut::<RepliconClient>() else { return false };
        if !client.is_connecting() {
            return false;
        }
        client.set_status(RepliconClientStatus::Disconnected);
        true
    }

    pub fn authorize(&mut self, c: &str) -> bool {
        let ci = self.ci(c);
        if let Some(ce) = self.clients[ci].entity {
            if self.server.world().entity(ce).contains::<AuthorizedClient>() {
                return false;
            }
            self.server.world_mut().entity_mut(ce).insert(AuthorizedClient);
            return true;
        }
        false
    }

    pub fn stop(&mut self) {
        self.server.world_mut().resource_mut::<RepliconServer>().set_running(false);
        for cl in &mut self.clients {
            cl.app.world_mut().get_resource_mut::<RepliconClient>().map(|mut c| c.set_status(RepliconClientStatus::Disconnected));
            for q in cl.s2c.iter_mut().chain(cl.c2s.iter_mut()) {
                q.clear();
            }
            for q in cl.rx.iter_mut().chain(cl.srx.iter_mut()) {
                q.clear();
            }
            let w = cl.app.world_mut();
            let old: Vec<Entity> = w.query_filtered::<Entity, With<Replicated>>().iter(w).collect();
            for o in old {
                if let Ok(em) = w.get_entity_mut(o) {
                    em.despawn();
                }
            }
            cl.prespawned.clear();
            cl.used_pre.clear();
            // the server's `reset` despawns the client entities on its next frame
        }
    }

    pub fn start(&mut self) {
        self.server.world_mut().resource_mut::<RepliconServer>().set_running(true);
        for cl in &mut self.clients {
            cl.entity = None;
        }
    }

    // ------------------------------------------------------------------ frames

    fn with_names<R>(&self, ci: Option<usize>, f: impl FnOnce(&Names) -> R) -> R {
        let slots = &self.slots;
        let g = |n: &str| slots.get(n).map(|s| s.idx);
        let names = Names {
            rev: &self.rev,
            pre: ci.map(|i| &self.clients[i].prespawned),
            slot_idx: &g,
            track: self.cfg.track,
            rel: self.cfg.rel,
        };
        f(&names)
    }

    /// Index of the first test-event channel (the protocol check registers one trigger per direction first).
    pub fn sev_ch(&self, t: &str) -> usize {
        self.ev_base().0 + crate::events::SEV.iter().position(|x| *x == t).expect("server event type")
    }

    pub fn cev_ch(&self, t: &str) -> usize {
        self.ev_base().1 + crate::events::CEV.iter().position(|x| *x == t).expect("client event type")
    }

    fn ev_base(&self) -> (usize, usize) {
        if self.cfg.auth == "protocol" { (3, 2) } else { (2, 1) }
    }

    fn decode_sev(&self, ch: usize, bytes: &Bytes) -> Result<Value, String> {
        let (sb, _) = self.ev_base();
        if !self.cfg.events || ch < sb || ch - sb >= crate::events::SEV.len() {
            return Ok(json!({"t": format!("ch{ch}"), "id": -1, "stamp": -1, "e": "none", "len": bytes.len(), "hex": wire::hex(bytes)}));
        }
        let t = crate::events::SEV[ch - sb];
        let mut c = wire::Cur::new(bytes);
        let stamp: i64 = if t == "SInd" { -1 } else { c.varint()? as i64 };
        let mut e = "none".to_string();
        let id;
        match t {
            "SOrd" | "SInd" | "SUnr" => id = c.varint()?,
            "SMap" => {
                id = c.varint()?;
                let bits = c.varint()?;
                e = Entity::try_from_bits(bits).ok().and_then(|x| self.rev.get(&x).cloned()).unwrap_or(format!("?{bits}"));
            }
            _ => {
                let n = c.varint()?;
                for _ in 0..n {
                    let bits = c.entity_bits()?;
                    e = Entity::try_from_bits(bits).ok().and_then(|x| self.rev.get(&x).cloned()).unwrap_or(format!("?{bits}"));
                }
                id = c.varint()?;
                if t == "SMTrig" {
                    // the payload entity (the same as the target, or the placeholder without a target)
                    let _payload = c.varint()?;
                }
            }
        }
        if c.rem() != 0 {
            return Err("trailing bytes in event".into());
        }
        Ok(json!({"t": t, "id": id, "stamp": stamp, "e": e}))
    }

    fn decode_cev(&self, ch: usize, bytes: &Bytes) -> Result<Value, String> {
        let (_, cb) = self.ev_base();
        if !self.cfg.events || ch < cb || ch - cb >= crate::events::CEV.len() {
            return Ok(json!({"t": format!("ch{ch}"), "id": -1, "e": "none", "len": bytes.len(), "hex": wire::hex(bytes)}));
        }
        let t = crate::events::CEV[ch - cb];
        let mut c = wire::Cur::new(bytes);
        let mut e = "none".to_string();
        let id;
        match t {
            "COrd" | "CUnr" => id = c.varint()?,
            "CMap" => {
                id = c.varint()?;
                let bits = c.varint()?;
                e = Entity::try_from_bits(bits).ok().and_then(|x| self.rev.get(&x).cloned()).unwrap_or(format!("?{bits}"));
            }
            _ => {
                let n = c.varint()?;
                for _ in 0..n {
                    let bits = c.entity_bits()?;
                    e = Entity::try_from_bits(bits).ok().and_then(|x| self.rev.get(&x).cloned()).unwrap_or(format!("?{bits}"));
                }
                id = c.varint()?;
            }
        }
        if c.rem() != 0 {
            return Err("trailing bytes in event".into());
        }
        Ok(json!({"t": t, "id": id, "e": e}))
    }

    fn decode_s2c(&mut self, ci: Option<usize>, ch: usize, bytes: &Bytes) -> Value {
        let r = match ch {
            CH_UPD => self.with_names(ci, |names| wire::decode_update(bytes, names)),
            CH_MUT => self.with_names(ci, |names| wire::decode_mutate(bytes, names)),
            _ => self.decode_sev(ch, bytes),
        };
        match r {
            Ok(v) => v,
            Err(e) => {
                // a message of the code under test that the independent decoder rejects is data, not a tool
                // problem: it is recorded as a placeholder the specification cannot have predicted
                self.wire_errors.push(format!("decode s2c ch{ch}: {e} bytes={}", wire::hex(bytes)));
                match ch {
                    CH_UPD => json!({"tick": -1, "maps": [], "desp": {}, "rems": {}, "chg": {}, "order": [], "rorder": [],
                                     "len": bytes.len(), "undecodable": e}),
                    CH_MUT => json!({"upd": -1, "tick": -1, "cnt": -1, "idx": -1, "ents": {}, "sizes": {}, "order": [],
                                     "len": bytes.len(), "hdr": 0, "undecodable": e}),
                    _ => {
                        let (sb, _) = self.ev_base();
                        let t = crate::events::SEV.get(ch.wrapping_sub(sb)).copied().unwrap_or("?");
                        json!({"t": t, "id": -1, "stamp": -1, "e": "none", "undecodable": e})
                    }
                }
            }
        }
    }

    pub fn server_frame(&mut self, tick: bool, dt_ms: u64) {
        self.last_sent.clear();
        self.last_panic = None;
        self.last_delivered.clear();
        if self.server_panicked {
            return;
        }
        self.flush_server_emits();
        set_dt(&mut self.server, dt_ms);
        let running = self.server.world().resource::<RepliconServer>().is_running();
        if tick && !self.cfg.every_frame {
            self.server.world_mut().resource_mut::<ServerTick>().increment();
        }
        let runs_before = bevy_replicon::server::verif::replication_runs();
        let r = catch_unwind(AssertUnwindSafe(|| self.server.update()));
        self.last_ran = bevy_replicon::server::verif::replication_runs() != runs_before;
        if let Err(p) = r {
            self.server_panicked = true;
            self.last_panic = Some(panic_msg(p));
        }
        self.frame += 1;
        self.after.push(self.server.world().read_change_tick().get());
        if tick && running {
            self.last_run = self.frame;
        }
        for cl in &mut self.clients {
            for q in &mut cl.srx {
                q.clear();
            }
        }
        if self.server_panicked {
            return;
        }
        // a stopped server despawns its client entities in `reset`
        for cl in &mut self.clients {
            if let Some(ce) = cl.entity {
                if self.server.world().get_entity(ce).is_err() {
                    cl.entity = None;
                }
            }
        }
        let sent: Vec<(Entity, usize, Bytes)> =
            self.server.world_mut().resource_mut::<RepliconServer>().drain_sent().collect();
        for (ce, ch, bytes) in sent {
            let ci = self.clients.iter().position(|c| c.entity == Some(ce));
            let dec = self.decode_s2c(ci, ch, &bytes);
            let id = self.next_msg_id;
            self.next_msg_id += 1;
            let Some(ci) = ci else {
                self.last_sent.push(json!({"c": "?", "ch": ch_name_s2c(ch), "id": id, "m": dec, "len": bytes.len()}));
                continue;
            };
            let mut o = json!({"c": self.clients[ci].name, "ch": ch_name_s2c(ch), "id": id, "m": dec.clone()});
            o["len"] = json!(bytes.len());
            self.last_sent.push(o);
            if ch >= self.clients[ci].s2c.len() {
                self.tool_errors.push(format!("server sent on unknown channel {ch}"));
                continue;
            }
            self.clients[ci].s2c[ch].push_back(Msg { id, bytes, dec });
        }
        self.collect_server_log();
    }

    pub fn client_frame(&mut self, c: &str, dt_ms: u64) {
        let ci = self.ci(c);
        self.last_sent.clear();
        self.last_panic = None;
        self.last_delivered.clear();
        if self.clients[ci].panicked {
            // a panicked app is not touched again (its world may have lost resources in the unwinding)
            for q in &mut self.clients[ci].rx {
                q.clear();
            }
            return;
        }
        self.flush_client_emits(ci);
        let sent: Vec<(usize, Bytes)> = {
            let cl = &mut self.clients[ci];
            set_dt(&mut cl.app, dt_ms);
            let r = catch_unwind(AssertUnwindSafe(|| cl.app.update()));
            if let Err(p) = r {
                cl.panicked = true;
                self.last_panic = Some(panic_msg(p));
            }
            for q in &mut cl.rx {
                q.clear();
            }
            if cl.panicked {
                return;
            }
            cl.app.world_mut().resource_mut::<RepliconClient>().drain_sent().collect()
        };
        for (ch, bytes) in sent {
            let id = self.next_msg_id;
            self.next_msg_id += 1;
            let dec = if ch == CH_ACK { wire::decode_acks(&bytes) } else { self.decode_cev(ch, &bytes) };
            let dec = match dec {
                Ok(v) => v,
                Err(e) => {
                    self.wire_errors.push(format!("decode c2s ch{ch}: {e}"));
                    if ch == CH_ACK {
                        json!([-1])
                    } else {
                        let (_, cb) = self.ev_base();
                        let t = crate::events::CEV.get(ch.wrapping_sub(cb)).copied().unwrap_or("?");
                        json!({"t": t, "id": -1, "e": "none", "undecodable": e})
                    }
                }
            };
            let cl = &mut self.clients[ci];
            self.last_sent.push(json!({"c": cl.name, "ch": ch_name_c2s(ch), "id": id, "m": dec.clone()}));
            if ch < cl.c2s.len() {
                cl.c2s[ch].push_back(Msg { id, bytes, dec });
            }
        }
        self.collect_client_log(ci);
        let notif: Vec<u32> = self.clients[ci]
            .app
            .world_mut()
            .get_resource_mut::<TickLog>()
            .map(|mut l| l.0.drain(..).collect())
            .unwrap_or_default();
        self.clients[ci].last_notif = notif;
    }

    // ------------------------------------------------------------------ events

    /// The client entity game logic would hold for `to` right now (a dead id if it is not connected).
    fn send_mode(&self, mode: &str, to: Option<&str>) -> SendMode {
        let ent = |c: &str| self.clients[self.ci(c)].entity.unwrap_or(Entity::from_raw(u32::MAX - 9));
        match (mode, to) {
            ("except", Some("server")) => SendMode::BroadcastExcept(SERVER),
            ("except", Some(c)) => SendMode::BroadcastExcept(ent(c)),
            ("direct", Some("server")) => SendMode::Direct(SERVER),
            ("direct", Some(c)) => SendMode::Direct(ent(c)),
            _ => SendMode::Broadcast,
        }
    }

    /// Queues a server event; the server app emits it inside the `Update` of its next frame, addressing
    /// the client entities that exist then.
    pub fn emit_s(&mut self, t: &str, id: u32, mode: &str, to: Option<&str>, e: Option<&str>) -> bool {
        if let Some(n) = e {
            if self.server_entity(n).is_none() {
                return false;
            }
        }
        if self.server.world().get_resource::<crate::events::PendingEmits>().is_none() {
            return false;
        }
        self.pending_semits.push((t.to_string(), id, mode.to_string(), to.map(str::to_string), e.map(str::to_string)));
        true
    }

    fn flush_server_emits(&mut self) {
        let pend: Vec<_> = self.pending_semits.drain(..).collect();
        for (t, id, mode, to, e) in pend {
            let mode = self.send_mode(&mode, to.as_deref());
            let e = e.and_then(|n| self.server_entity(&n));
            // the payload entity of a mapped trigger is always slot e1 (an id nobody maps while e1 is unused)
            let payload = self.server_entity("e1").unwrap_or(Entity::from_raw(u32::MAX - 11));
            if let Some(mut p) = self.server.world_mut().get_resource_mut::<crate::events::PendingEmits>() {
                p.0.push(crate::events::Emit::S { t, id, mode, e, payload });
            }
        }
    }

    /// Queues a client event. An entity reference is the client's own entity for the slot; if the
    /// client does not hold the slot a client-local entity is referenced (which cannot be translated).
    pub fn emit_c(&mut self, c: &str, t: &str, id: u32, e: Option<&str>) -> bool {
        let ci = self.ci(c);
        if self.clients[ci].app.world().get_resource::<crate::events::PendingEmits>().is_none() {
            return false;
        }
        self.clients[ci].pending_emits.push((t.to_string(), id, e.map(str::to_string)));
        true
    }

    /// Hands the queued client emissions to the app; the slot is resolved now, the client's own
    /// entity for it when the emission happens (inside the frame, after receiving).
    fn flush_client_emits(&mut self, ci: usize) {
        let pend: Vec<_> = self.clients[ci].pending_emits.drain(..).collect();
        for (t, id, e) in pend {
            // a slot that does not exist on the server cannot be held by the client: reference a dead id
            let se = e.map(|n| self.server_entity(&n).unwrap_or(Entity::from_raw(u32::MAX - 7)));
            if let Some(mut p) = self.clients[ci].app.world_mut().get_resource_mut::<crate::events::PendingEmits>() {
                p.0.push(crate::events::Emit::C { t, id, e: se });
            }
        }
    }

    fn collect_client_log(&mut self, ci: usize) {
        let name = self.clients[ci].name.clone();
        let Some(mut log) = self.clients[ci].app.world_mut().get_resource_mut::<crate::events::EvLog>() else { return };
        let entries: Vec<Value> = log.0.drain(..).collect();
        let map = self.clients[ci].app.world().resource::<ServerEntityMap>();
        for mut d in entries {
            // local re-emission of client events on a disconnected client is C13's business
            if !crate::events::SEV.contains(&d["t"].as_str().unwrap_or("")) {
                continue;
            }
            let bits = d.get("ebits").or(d.get("tbits")).and_then(|b| b.as_u64());
            let e = match bits {
                Some(b) => Entity::try_from_bits(b)
                    .ok()
                    .and_then(|ce| map.to_server().get(&ce).copied())
                    .map(|se| self.slot_name(se))
                    .unwrap_or(format!("?{b}")),
                None => "none".to_string(),
            };
            d["e"] = json!(e);
            d["at"] = json!(name);
            if let Some(o) = d.as_object_mut() {
                o.remove("ebits");
                o.remove("tbits");
            }
            self.last_delivered.push(d);
        }
    }

    fn collect_server_log(&mut self) {
        let Some(mut log) = self.server.world_mut().get_resource_mut::<crate::events::EvLog>() else { return };
        let entries: Vec<Value> = log.0.drain(..).collect();
        for mut d in entries {
            // server events the local server also receives are C13's business
            if !crate::events::CEV.contains(&d["t"].as_str().unwrap_or("")) {
                continue;
            }
            let from = d.get("from").and_then(|b| b.as_u64()).map(|b| {
                if b == SERVER.to_bits() {
                    "server".to_string()
                } else {
                    self.clients
                        .iter()
                        .find(|c| c.entity.map(|e| e.to_bits()) == Some(b))
                        .map(|c| c.name.clone())
                        .unwrap_or(format!("?{b}"))
                }
            });
            let bits = d.get("ebits").or(d.get("tbits")).and_then(|b| b.as_u64());
            let e = match bits {
                Some(b) => Entity::try_from_bits(b).ok().map(|se| self.slot_name(se)).unwrap_or(format!("?{b}")),
                None => "none".to_string(),
            };
            d["e"] = json!(e);
            d["at"] = json!("server");
            if let Some(f) = from {
                d["from"] = json!(f);
            }
            if let Some(o) = d.as_object_mut() {
                o.remove("ebits");
                o.remove("tbits");
            }
            self.last_delivered.push(d);
        }
    }

    pub fn project_events(&self) -> Value {
        let mut net = serde_json::Map::new();
        let (sb, cb) = self.ev_base();
        for c in &self.clients {
            let mut sev = serde_json::Map::new();
            let mut rx_sev = serde_json::Map::new();
            let mut cev = serde_json::Map::new();
            let mut srx_cev = serde_json::Map::new();
            for (i, t) in crate::events::SEV.iter().enumerate() {
                let ch = sb + i;
                let (q, r): (Vec<Value>, Vec<Value>) = if self.cfg.events && ch < c.s2c.len() {
                    (c.s2c[ch].iter().map(|m| m.dec.clone()).collect(), c.rx[ch].iter().map(|m| m.dec.clone()).collect())
                } else {
                    (vec![], vec![])
                };
                sev.insert(t.to_string(), json!(q));
                rx_sev.insert(t.to_string(), json!(r));
            }
            for (i, t) in crate::events::CEV.iter().enumerate() {
                let ch = cb + i;
                let (q, r): (Vec<Value>, Vec<Value>) = if self.cfg.events && ch < c.c2s.len() {
                    (c.c2s[ch].iter().map(|m| m.dec.clone()).collect(), c.srx[ch].iter().map(|m| m.dec.clone()).collect())
                } else {
                    (vec![], vec![])
                };
                cev.insert(t.to_string(), json!(q));
                srx_cev.insert(t.to_string(), json!(r));
            }
            net.insert(c.name.clone(), json!({"sev": sev, "rxSev": rx_sev, "cev": cev, "srxCev": srx_cev}));
        }
        json!({"net": net})
    }

    // ------------------------------------------------------------------ network

    /// Delivers the message at position `pos` of a server->client channel.
    pub fn deliver_s2c(&mut self, c: &str, ch: usize, pos: usize) -> bool {
        let ci = self.ci(c);
        let cl = &mut self.clients[ci];
        let Some(m) = cl.s2c[ch].remove(pos) else { return false };
        if cl.panicked {
            return true;
        }
        cl.app.world_mut().resource_mut::<RepliconClient>().insert_received(ch, m.bytes.clone());
        cl.rx[ch].push(m);
        true
    }

    pub fn drop_s2c(&mut self, c: &str, ch: usize, pos: usize) -> bool {
        let ci = self.ci(c);
        self.clients[ci].s2c[ch].remove(pos).is_some()
    }

    pub fn drop_c2s(&mut self, c: &str, ch: usize, pos: usize) -> bool {
        let ci = self.ci(c);
        self.clients[ci].c2s[ch].remove(pos).is_some()
    }

    pub fn deliver_c2s(&mut self, c: &str, ch: usize, pos: usize) -> bool {
        let ci = self.ci(c);
        let cl = &mut self.clients[ci];
        let Some(ce) = cl.entity else { return false };
        let Some(m) = cl.c2s[ch].remove(pos) else { return false };
        if self.server_panicked {
            return true;
        }
        self.server.world_mut().resource_mut::<RepliconServer>().insert_received(ce, ch, m.bytes.clone());
        cl.srx[ch].push(m);
        true
    }

    /// Puts raw bytes into the server's receive queue as if client `c` had sent them.
    pub fn junk_c2s(&mut self, c: &str, ch: usize, bytes: Vec<u8>) -> bool {
        let ci = self.ci(c);
        let Some(ce) = self.clients[ci].entity else { return false };
        self.server.world_mut().resource_mut::<RepliconServer>().insert_received(ce, ch, bytes);
        true
    }

    // ------------------------------------------------------------------ projection

    fn slot_name(&self, e: Entity) -> String {
        self.rev.get(&e).cloned().unwrap_or_else(|| format!("?{}", e.to_bits()))
    }

    pub fn project_server(&self) -> Value {
        if self.server_panicked {
            return self.last_srv_proj.borrow().clone();
        }
        let v = self.project_server_live();
        *self.last_srv_proj.borrow_mut() = v.clone();
        v
    }

    fn project_server_live(&self) -> Value {
        let w = self.server.world();
        let mut world = serde_json::Map::new();
        for (name, slot) in &self.slots {
            let mut comps = serde_json::Map::new();
            let mut alive = false;
            let mut repl = false;
            let mut marker_add = 0;
            let mut parent = "none".to_string();
            if let Some(se) = slot.server {
                if let Ok(er) = w.get_entity(se) {
                    alive = true;
                    repl = er.contains::<Replicated>();
                    if let Some(t) = er.get_change_ticks::<Replicated>() {
                        marker_add = self.frame_of(t.added);
                    }
                    for (k, kn) in COMPS.iter().enumerate() {
                        if let Some((v, chg, add)) = read_comp(w, se, k) {
                            comps.insert(
                                kn.to_string(),
                                json!({"val": version_of(v, slot.idx, k), "chg": self.frame_of(chg), "add": self.frame_of(add)}),
                            );
                        }
                    }
                    if let Some(p) = er.get::<ChildOf>() {
                        parent = self.slot_name(p.parent());
                        if let Some(t) = er.get_change_ticks::<ChildOf>() {
                            comps.insert(
                                "ChildOf".to_string(),
                                json!({"val": parent, "chg": self.frame_of(t.changed), "add": self.frame_of(t.added)}),
                            );
                        }
                    }
                }
            }
            world.insert(
                name.clone(),
                json!({"alive": alive, "repl": repl, "markerAdd": marker_add, "comps": comps, "parent": parent,
                       "used": slot.server.is_some(),
                       "ver": {"A": slot.ver[0], "B": slot.ver[1], "P": slot.ver[2], "O": slot.ver[3]}}),
            );
        }
        let mut despawn_buf = serde_json::Map::new();
        for e in bevy_replicon::server::verif::despawn_buffer(w) {
            let n = self.slot_name(e);
            let cnt = despawn_buf.get(&n).and_then(|v: &Value| v.as_u64()).unwrap_or(0);
            despawn_buf.insert(n, json!(cnt + 1));
        }
        let mut removal_buf = serde_json::Map::new();
        for (e, ids) in bevy_replicon::server::verif::removal_buffer(w) {
            let mut ks: Vec<String> = ids.iter().map(|&i| wire::comp_name(i)).collect();
            ks.sort();
            removal_buf.insert(self.slot_name(e), json!(ks));
        }
        let mut cl = serde_json::Map::new();
        for c in &self.clients {
            let mut o = json!({"conn": false, "auth": false, "updTick": 0, "mutTick": {}, "inflight": [], "nextIdx": 0,
                               "vis": {"kind": "all", "list": {}, "added": [], "removed": []}, "pendingMap": []});
            if let Some(ce) = c.entity {
                if let Ok(er) = w.get_entity(ce) {
                    o["conn"] = json!(true);
                    o["auth"] = json!(er.contains::<AuthorizedClient>());
                    if let Some(t) = er.get::<ClientTicks>() {
                        o["updTick"] = json!(t.update_tick().get());
                        let mut mt = serde_json::Map::new();
                        for (e, tick) in t.verif_mutation_ticks() {
                            mt.insert(self.slot_name(e), json!(self.frame_of(tick)));
                        }
                        o["mutTick"] = Value::Object(mt);
                        let mut inf: Vec<(u16, Value)> = t
                            .verif_mutations()
                            .into_iter()
                            .map(|(idx, tick, ts, ents)| {
                                let mut ents: Vec<String> = ents.iter().map(|&e| self.slot_name(e)).collect();
                                ents.sort();
                                (idx, json!({"idx": idx, "f": self.frame_of(tick), "ents": ents, "ts": ts.as_millis() as u64}))
                            })
                            .collect();
                        inf.sort_by_key(|x| x.0);
                        o["inflight"] = json!(inf.into_iter().map(|x| x.1).collect::<Vec<_>>());
                        o["nextIdx"] = json!(t.verif_next_index());
                    }
                    if let Some(v) = er.get::<ClientVisibility>() {
                        let (white, list, added, removed) = v.verif_snapshot();
                        let mut l = serde_json::Map::new();
                        for (e, code) in list {
                            l.insert(self.slot_name(e), json!(code));
                        }
                        let mut added: Vec<String> = added.into_iter().map(|e| self.slot_name(e)).collect();
                        let mut removed: Vec<String> = removed.into_iter().map(|e| self.slot_name(e)).collect();
                        added.sort();
                        removed.sort();
                        o["vis"] = json!({"kind": if white { "white" } else { "black" }, "list": l, "added": added, "removed": removed});
                    }
                    if let Some(m) = er.get::<ClientEntityMap>() {
                        let pm: Vec<Value> = m
                            .iter()
                            .map(|&(se, pe)| {
                                let pn = c.prespawned.iter().find(|(_, x)| **x == pe).map(|(n, _)| n.clone()).unwrap_or("?".into());
                                json!([self.slot_name(se), pn])
                            })
                            .collect();
                        o["pendingMap"] = json!(pm);
                    }
                }
            }
            cl.insert(c.name.clone(), o);
        }
        json!({
            "tick": w.resource::<ServerTick>().get(),
            "frame": self.frame,
            "lastRun": self.last_run,
            "ran": self.last_ran,
            "running": w.resource::<RepliconServer>().is_running(),
            "now": w.resource::<Time>().elapsed().as_millis() as u64,
            "world": world,
            "despawnBuf": despawn_buf,
            "removalBuf": removal_buf,
            "cl": cl,
        })
    }

    pub fn project_net(&self) -> Value {
        let mut net = serde_json::Map::new();
        for c in &self.clients {
            let decs = |q: &VecDeque<Msg>| q.iter().map(|m| m.dec.clone()).collect::<Vec<_>>();
            let decv = |q: &Vec<Msg>| q.iter().map(|m| m.dec.clone()).collect::<Vec<_>>();
            net.insert(
                c.name.clone(),
                json!({
                    "upd": decs(&c.s2c[CH_UPD]), "mut": decs(&c.s2c[CH_MUT]), "ack": decs(&c.c2s[CH_ACK]),
                    "rxUpd": decv(&c.rx[CH_UPD]), "rxMut": decv(&c.rx[CH_MUT]), "srxAck": decv(&c.srx[CH_ACK]),
                }),
            );
        }
        Value::Object(net)
    }

    pub fn project_client(&self, ci: usize) -> Value {
        if self.clients[ci].panicked {
            let mut v = self.clients[ci].last_proj.borrow().clone();
            v["panicked"] = json!(true);
            return v;
        }
        let v = self.project_client_live(ci);
        *self.clients[ci].last_proj.borrow_mut() = v.clone();
        v
    }

    fn project_client_live(&self, ci: usize) -> Value {
        let c = &self.clients[ci];
        let w = c.app.world();
        let status = match w.resource::<RepliconClient>().status() {
            RepliconClientStatus::Disconnected => "Disconnected",
            RepliconClientStatus::Connecting => "Connecting",
            RepliconClientStatus::Connected => "Connected",
        };
        let map = w.resource::<ServerEntityMap>();
        let mut ents = serde_json::Map::new();
        let mut bij = true;
        let mut mapped_clients: Vec<Entity> = Vec::new();
        for (&se, &ce) in map.to_client().iter() {
            if map.to_server().get(&ce) != Some(&se) {
                bij = false;
            }
            mapped_clients.push(ce);
            let name = self.slot_name(se);
            let slot = self.slots.get(&name);
            let mut o = json!({"alive": false, "marker": false, "comps": {}, "hist": -1, "mask": "0", "parent": "none", "pre": "none"});
            if let Some((pn, _)) = c.prespawned.iter().find(|(_, x)| **x == ce) {
                o["pre"] = json!(pn);
            }
            if let Ok(er) = w.get_entity(ce) {
                o["alive"] = json!(true);
                o["marker"] = json!(er.contains::<Replicated>());
                let mut comps = serde_json::Map::new();
                if let Some(slot) = slot {
                    for (k, kn) in COMPS.iter().enumerate() {
                        if let Some((v, _, _)) = read_comp(w, ce, k) {
                            comps.insert(kn.to_string(), json!(version_of(v, slot.idx, k)));
                        }
                    }
                }
                if let Some(p) = er.get::<ChildOf>() {
                    let pn = map.to_server().get(&p.parent()).map(|&s| self.slot_name(s)).unwrap_or("?".into());
                    comps.insert("ChildOf".to_string(), json!(pn));
                }
                o["comps"] = Value::Object(comps);
                if let Some(h) = er.get::<ConfirmHistory>() {
                    o["hist"] = json!(h.last_tick().get());
                    o["mask"] = json!(format!("{:x}", h.mask()));
                }
                if let Some(p) = er.get::<ChildOf>() {
                    let pn = map.to_server().get(&p.parent()).map(|&s| self.slot_name(s)).unwrap_or("?".into());
                    o["parent"] = json!(pn);
                }
            }
            ents.insert(name, o);
        }
        if map.to_client().len() != map.to_server().len() {
            bij = false;
        }
        // replicated client entities that are not in the map
        let mut extra = 0;
        for er in w.iter_entities() {
            if er.contains::<Replicated>() && !mapped_clients.contains(&er.id()) {
                extra += 1;
            }
        }
        let buf: Vec<Value> = w
            .resource::<BufferedMutations>()
            .verif_snapshot()
            .into_iter()
            .map(|(u, t, n, idx, body)| {
                let dec = self.with_names(Some(ci), |names| {
                    wire::decode_mutate_body(&mut wire::Cur::new(&body), names).map(|x| (Value::Object(x.0), x.2))
                });
                let (ents, order) = dec.unwrap_or_else(|e| (json!({"?": e}), Vec::new()));
                json!({"upd": u.get(), "tick": t.get(), "idx": idx, "cnt": if self.cfg.track { n as i64 } else { -1 },
                       "ents": ents, "order": order})
            })
            .collect();
        let mut pre = serde_json::Map::new();
        for (n, &pe) in &c.prespawned {
            pre.insert(n.clone(), json!(w.get_entity(pe).is_ok()));
        }
        json!({
            "notif": c.last_notif,
            "pre": pre,
            "status": status,
            "updTick": w.resource::<ServerUpdateTick>().get(),
            "ents": ents,
            "extra": extra,
            "bij": bij,
            "buf": buf,
            "sess": c.sess,
            "panicked": c.panicked,
        })
    }

    pub fn project(&self) -> Value {
        let mut cli = serde_json::Map::new();
        for (i, c) in self.clients.iter().enumerate() {
            cli.insert(c.name.clone(), self.project_client(i));
        }
        json!({"srv": self.project_server(), "net": self.project_net(), "cli": cli, "ev": self.project_events()})
    }

    pub fn channel_len(&self, c: &str, dir: &str, ch: usize) -> usize {
        let ci = self.ci(c);
        if dir == "s2c" { self.clients[ci].s2c[ch].len() } else { self.clients[ci].c2s[ch].len() }
    }
}

pub fn ch_name_s2c(ch: usize) -> String {
    match ch {
        CH_UPD => "upd".into(),
        CH_MUT => "mut".into(),
        n => format!("sev{}", n - 2),
    }
}

pub fn ch_name_c2s(ch: usize) -> String {
    match ch {
        CH_ACK => "ack".into(),
        n => format!("cev{}", n - 1),
    }
}

pub fn panic_msg(p: Box<dyn std::any::Any + Send>) -> String {
    if let Some(s) = p.downcast_ref::<&str>() {
        s.to_string()
    } else if let Some(s) = p.downcast_ref::<String>() {
        s.clone()
    } else {
        "panic".into()
    }
}
