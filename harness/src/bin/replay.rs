//! Re-executes recorded or TLC-generated action sequences on the real apps and records a fresh trace.
//!
//! usage: replay trace <in.ndjson> <out.ndjson>
//!          re-runs the (ev, args) of every run of a recorded trace
//!        replay behaviours <cfg.json> <behaviours.ndjson> <out.ndjson>
//!          runs behaviours exported by TLC (one JSON array of {ev,args} per line; the initial
//!          warm-up frame and connects are implicit; "Settle" expands to the perfect-link rounds)
use std::{
    fs::File,
    io::{BufRead, BufReader, BufWriter},
};

use serde_json::{Value, json};
use verif_harness::{driver::*, model::Cfg, sim::Sim};

fn main() {
    let args: Vec<String> = std::env::args().collect();
    let mode = args.get(1).map(String::as_str).unwrap_or("");
    let mut not_enabled = 0u64;
    let mut runs = 0u64;
    let mut tool_errors: Vec<String> = Vec::new();
    match mode {
        "trace" => {
            let input = BufReader::new(File::open(&args[2]).expect("open input"));
            let mut tr = Trace::new(BufWriter::new(File::create(&args[3]).expect("create output")));
            let mut sim: Option<Sim> = None;
            for line in input.lines() {
                let line = line.unwrap();
                if line.trim().is_empty() {
                    continue;
                }
                let d: Value = serde_json::from_str(&line).expect("json");
                let ev = d["ev"].as_str().unwrap();
                if ev == "Init" {
                    if let Some(s) = sim.take() {
                        tool_errors.extend(s.tool_errors);
                    }
                    let mut a = d["args"].clone();
                    let extra = a["extra"].take();
                    let cfg: Cfg = serde_json::from_value(a).expect("cfg");
                    let s = Sim::new(cfg);
                    tr.start_run(&s, d["run"].as_u64().unwrap_or(runs), extra);
                    sim = Some(s);
                    runs += 1;
                    continue;
                }
                let s = sim.as_mut().expect("Init first");
                if ev == "Quiesce" {
                    // the recorded schedule settled the tree it was recorded on; on the current tree more (or
                    // other) messages may be in flight: the quiescence claim is only made after fresh rounds
                    tr.rounds(s, 3);
                }
                if !tr.step(s, ev, d["args"].clone()) {
                    not_enabled += 1;
                    tr.write(s, "NotEnabled", &json!({"ev": ev, "args": d["args"]}));
                }
            }
            if let Some(s) = sim.take() {
                tool_errors.extend(s.tool_errors);
            }
        }
        "behaviours" => {
            let cfg: Cfg = serde_json::from_reader(File::open(&args[2]).expect("cfg")).expect("cfg json");
            let input = BufReader::new(File::open(&args[3]).expect("open input"));
            let mut tr = Trace::new(BufWriter::new(File::create(&args[4]).expect("create output")));
            for line in input.lines() {
                let line = line.unwrap();
                if line.trim().is_empty() {
                    continue;
                }
                let beh: Value = serde_json::from_str(&line).expect("json");
                let mut sim = Sim::new(cfg.clone());
                tr.start_run(&sim, runs, json!({"source": "tlc"}));
                runs += 1;
                tr.step(&mut sim, "SrvFrame", json!({"tick": false, "dt": 0}));
                for c in cfg.clients.clone() {
                    tr.step(&mut sim, "Connect", json!({"c": c}));
                }
                for st in beh.as_array().cloned().unwrap_or_default() {
                    let ev = st["ev"].as_str().unwrap();
                    if ev == "Settle" {
                        tr.settle(&mut sim, st["args"]["rounds"].as_u64().unwrap_or(3) as usize);
                        continue;
                    }
                    // ToJson prints an empty set / function as []
                    let mut a = st["args"].clone();
                    if a.get("comps").is_some_and(|c| c.is_object()) {
                        a["comps"] = json!([]);
                    }
                    if !tr.step(&mut sim, ev, a.clone()) {
                        not_enabled += 1;
                        tr.write(&sim, "NotEnabled", &json!({"ev": ev, "args": a}));
                    }
                }
                tool_errors.extend(sim.tool_errors);
            }
        }
        _ => {
            eprintln!("usage: replay trace|behaviours ...");
            std::process::exit(2);
        }
    }
    println!("{}", json!({"runs": runs, "lines": 0, "not_enabled": not_enabled, "tool_errors": tool_errors.len()}));
    for e in tool_errors.iter().take(5) {
        eprintln!("TOOL-ERROR {e}");
    }
    if !tool_errors.is_empty() {
        std::process::exit(2);
    }
}
