//! C14 replayer: protocol hash and the default authorisation handshake on REAL apps.
//!
//! usage: c14_replay <cases.ndjson> [--hashes-out <file>] [--threads <n>]
//!
//! Every input line is one JSON object produced from the TLC run of `spec/ProtocolHash.tla`:
//!
//! * `{"t":"pairs","id":n,"s1":[[kind,type,prio]..],"edits":[{"op","s2","eq","out":{auth,disc,notified},"hs"?}..]}`
//!   for every edit a server app is built from `s1` and a client app from `s2`
//!   (`MinimalPlugins + RepliconPlugins`, registrations in sequence order, `finish()`), their
//!   `ProtocolHash` resources are compared and `hash equal <=> eq` is checked. If `hs` is true the
//!   canonical handshake is run between the two apps and its outcome compared with `out`.
//! * `{"t":"hs","id":n,"s1","s2","eq","steps":[{"a","auth","disc","notified","c2s","s2c"}..]}`
//!   the schedule is executed step by step (messages are moved by hand between the apps) and the
//!   observables are compared with the spec's after every step.
//! * `{"t":"free","id":n,"a":[..],"b":[..]}` no oracle: reports whether the hashes are equal.
//!
//! kind: 0 single 1 bundle 2 custom-priority 3 client event 4 server event 5 client trigger
//! 6 server trigger 7 independent event 8 independent trigger (9 once 10 periodic(prio): free cases only).
//!
//! Output: one JSON summary line on stdout. Exit 0 = ran to completion, 2 = tool error.
use std::{
    collections::{BTreeMap, BTreeSet, VecDeque},
    fs,
    io::Write,
    panic::{AssertUnwindSafe, catch_unwind},
    sync::Mutex,
};

use bevy::prelude::*;
use bevy_replicon::prelude::*;
use bytes::Bytes;
use serde::{Deserialize, Serialize};
use serde_json::{Value, json};

// ---------------------------------------------------------------------------------------------
// Type pool
// ---------------------------------------------------------------------------------------------

#[derive(Component, Serialize, Deserialize, Clone)]
struct C0(u8);
#[derive(Component, Serialize, Deserialize, Clone)]
struct C1(u8);
#[derive(Component, Serialize, Deserialize, Clone)]
struct C2(u8);

#[derive(Event, Serialize, Deserialize, Clone)]
struct E0(u8);
#[derive(Event, Serialize, Deserialize, Clone)]
struct E1(u8);
#[derive(Event, Serialize, Deserialize, Clone)]
struct E2(u8);

type Reg = (u8, u8, usize);

macro_rules! by_type {
    ($t:expr, [$a:ty, $b:ty, $c:ty], $x:ident => $body:expr) => {
        match $t {
            0 => {
                type $x = $a;
                $body;
            }
            1 => {
                type $x = $b;
                $body;
            }
            2 => {
                type $x = $c;
                $body;
            }
            t => panic!("TOOL: type index {t} outside the pool"),
        }
    };
}

fn register(app: &mut App, (k, t, p): Reg) {
    match k {
        0 => by_type!(t, [C0, C1, C2], T => app.replicate::<T>()),
        1 => by_type!(t, [C0, C1, C2], T => app.replicate_bundle::<(T,)>()),
        2 => by_type!(t, [C0, C1, C2], T => app.replicate_with_priority(p, RuleFns::<T>::default())),
        3 => by_type!(t, [E0, E1, E2], T => app.add_client_event::<T>(Channel::Ordered)),
        4 => by_type!(t, [E0, E1, E2], T => app.add_server_event::<T>(Channel::Ordered)),
        5 => by_type!(t, [E0, E1, E2], T => app.add_client_trigger::<T>(Channel::Ordered)),
        6 => by_type!(t, [E0, E1, E2], T => app.add_server_trigger::<T>(Channel::Ordered)),
        7 => by_type!(t, [E0, E1, E2], T => app.make_event_independent::<T>()),
        8 => by_type!(t, [E0, E1, E2], T => app.make_trigger_independent::<T>()),
        9 => by_type!(t, [C0, C1, C2], T => app.replicate_once::<T>()),
        10 => by_type!(t, [C0, C1, C2], T => app.replicate_periodic::<T>(p as u32)),
        k => panic!("TOOL: unknown registration kind {k}"),
    }
}

// ---------------------------------------------------------------------------------------------
// Apps
// ---------------------------------------------------------------------------------------------

#[derive(Resource, Default)]
struct DiscRequests(Vec<Entity>);

#[derive(Resource, Default)]
struct Notified(u32);

fn count_disconnect_requests(mut events: EventReader<DisconnectRequest>, mut seen: ResMut<DiscRequests>) {
    for e in events.read() {
        seen.0.push(e.client);
    }
}

#[derive(Resource, Default)]
struct UnrelatedRes(#[allow(dead_code)] u64);
#[derive(Component)]
struct UnrelatedComp;
#[derive(Event)]
struct UnrelatedEvent;

/// Apps are built in pairs (server, client).  Every second app also contains things that have nothing to do
/// with the protocol (another plugin's resource, component and event), registered BEFORE the protocol
/// registrations: "the same sequence of replication-rule and remote-event registrations" must hash alike
/// whatever else the two builds contain (world-local ids such as `ComponentId` differ between them).
static APPS_BUILT: std::sync::atomic::AtomicUsize = std::sync::atomic::AtomicUsize::new(0);

fn build_app(seq: &[Reg]) -> App {
    let mut app = App::new();
    if APPS_BUILT.fetch_add(1, std::sync::atomic::Ordering::Relaxed) % 2 == 1 {
        app.init_resource::<UnrelatedRes>().add_event::<UnrelatedEvent>();
        app.world_mut().register_component::<UnrelatedComp>();
    }
    app.add_plugins((
        MinimalPlugins,
        RepliconPlugins.set(ServerPlugin {
            tick_policy: TickPolicy::EveryFrame,
            ..Default::default()
        }),
    ));
    // Observation only; none of this is a protocol registration.
    app.init_resource::<DiscRequests>()
        .init_resource::<Notified>()
        .add_systems(Last, count_disconnect_requests)
        .add_observer(|_: Trigger<ProtocolMismatch>, mut n: ResMut<Notified>| n.0 += 1);
    for r in seq {
        register(&mut app, *r);
    }
    app.finish();
    app
}

fn hash_of(app: &App) -> u64 {
    let h = app
        .world()
        .get_resource::<ProtocolHash>()
        .expect("TOOL: ProtocolHash resource missing after finish()");
    serde_json::to_value(h)
        .ok()
        .and_then(|v| v.as_u64())
        .expect("TOOL: ProtocolHash does not serialize as u64")
}

/// Client channel of the `ProtocolHash` trigger / server channel of `ProtocolMismatch`
/// (registered by `RepliconSharedPlugin::build` before any user registration).
const HASH_CHANNEL: usize = 1;
const MISMATCH_CHANNEL: usize = 2;

struct Link {
    server: App,
    client: App,
    entity: Option<Entity>,
    c2s: VecDeque<(usize, Bytes)>,
    s2c: VecDeque<(usize, Bytes)>,
    other_traffic: u32,
}

#[derive(Debug, PartialEq, Eq, Clone, Copy, Serialize)]
struct Obs {
    auth: u32,
    disc: u32,
    notified: u32,
    c2s: u32,
    s2c: u32,
}

impl Link {
    fn new(s1: &[Reg], s2: &[Reg]) -> Self {
        Self::from_apps(build_app(s1), build_app(s2))
    }

    fn from_apps(server: App, client: App) -> Self {
        Link { server, client, entity: None, c2s: default(), s2c: default(), other_traffic: 0 }
    }

    fn step(&mut self, a: &str) {
        match a {
            "connect" => {
                self.server.world_mut().resource_mut::<RepliconServer>().set_running(true);
                let e = self.server.world_mut().spawn(ConnectedClient { max_size: 1200 }).id();
                self.entity = Some(e);
                self.client
                    .world_mut()
                    .resource_mut::<RepliconClient>()
                    .set_status(RepliconClientStatus::Connected);
            }
            "cf" => {
                self.client.update();
                let mut client = self.client.world_mut().resource_mut::<RepliconClient>();
                for (ch, msg) in client.drain_sent() {
                    if ch != HASH_CHANNEL {
                        self.other_traffic += 1;
                    }
                    self.c2s.push_back((ch, msg));
                }
            }
            "sf" => {
                self.server.update();
                let mut server = self.server.world_mut().resource_mut::<RepliconServer>();
                for (e, ch, msg) in server.drain_sent() {
                    if Some(e) != self.entity {
                        panic!("TOOL: message for an unknown client entity {e}");
                    }
                    if ch != MISMATCH_CHANNEL {
                        self.other_traffic += 1;
                    }
                    self.s2c.push_back((ch, msg));
                }
            }
            "c2s" => {
                let e = self.entity.expect("TOOL: delivery before connect");
                let mut server = self.server.world_mut().resource_mut::<RepliconServer>();
                for (ch, msg) in self.c2s.drain(..) {
                    server.insert_received(e, ch, msg);
                }
            }
            "s2c" => {
                let mut client = self.client.world_mut().resource_mut::<RepliconClient>();
                for (ch, msg) in self.s2c.drain(..) {
                    client.insert_received(ch, msg);
                }
            }
            a => panic!("TOOL: unknown action {a}"),
        }
    }

    fn observe(&mut self) -> Obs {
        let world = self.server.world_mut();
        let mut q = world.query_filtered::<Entity, With<AuthorizedClient>>();
        let authorized: Vec<Entity> = q.iter(world).collect();
        for e in &authorized {
            if Some(*e) != self.entity {
                panic!("TOOL: AuthorizedClient on an entity the harness did not spawn");
            }
        }
        let disc = world
            .resource::<DiscRequests>()
            .0
            .iter()
            .filter(|e| Some(**e) == self.entity)
            .count() as u32;
        if disc as usize != world.resource::<DiscRequests>().0.len() {
            panic!("TOOL: DisconnectRequest for an entity the harness did not spawn");
        }
        Obs {
            auth: authorized.len() as u32,
            disc,
            notified: self.client.world().resource::<Notified>().0,
            c2s: self.c2s.iter().filter(|(ch, _)| *ch == HASH_CHANNEL).count() as u32,
            s2c: self.s2c.iter().filter(|(ch, _)| *ch == MISMATCH_CHANNEL).count() as u32,
        }
    }
}

// ---------------------------------------------------------------------------------------------
// Cases
// ---------------------------------------------------------------------------------------------

#[derive(Deserialize)]
struct Outcome {
    auth: u32,
    disc: u32,
    notified: u32,
}

#[derive(Deserialize)]
struct Edit {
    op: String,
    s2: Vec<Reg>,
    eq: bool,
    out: Outcome,
    #[serde(default)]
    hs: bool,
}

#[derive(Deserialize)]
struct StepExp {
    a: String,
    auth: u32,
    disc: u32,
    notified: u32,
    c2s: u32,
    s2c: u32,
}

#[derive(Deserialize)]
#[serde(tag = "t", rename_all = "lowercase")]
enum Case {
    Pairs { id: u64, s1: Vec<Reg>, edits: Vec<Edit> },
    Hs { id: u64, s1: Vec<Reg>, s2: Vec<Reg>, eq: bool, steps: Vec<StepExp> },
    Free { id: u64, a: Vec<Reg>, b: Vec<Reg> },
}

fn key(s: &[Reg]) -> String {
    s.iter().map(|(k, t, p)| format!("{k}.{t}.{p}")).collect::<Vec<_>>().join(",")
}

#[derive(Default)]
struct Report {
    cases: u64,
    pair_cases: u64,
    pair_hs_cases: u64,
    hs_cases: u64,
    hs_steps: u64,
    apps_built: u64,
    other_traffic: u64,
    mismatches: Vec<Value>,
    mismatch_count: u64,
    panics: Vec<Value>,
    panic_count: u64,
    free: Vec<Value>,
    failed_ids: BTreeSet<u64>,
    hashes: BTreeMap<String, u64>,
    tool_errors: Vec<String>,
}

impl Report {
    fn mismatch(&mut self, v: Value) {
        if let Some(id) = v.get("id").and_then(Value::as_u64) {
            self.failed_ids.insert(id);
        }
        self.mismatch_count += 1;
        if self.mismatches.len() < 20 {
            self.mismatches.push(v);
        }
    }

    fn panic(&mut self, v: Value) {
        if let Some(id) = v.get("case").and_then(|c| c.get("id")).and_then(Value::as_u64) {
            self.failed_ids.insert(id);
        }
        self.panic_count += 1;
        if self.panics.len() < 20 {
            self.panics.push(v);
        }
    }

    fn record_hash(&mut self, id: u64, s: &[Reg], h: u64) {
        let k = key(s);
        match self.hashes.get(&k) {
            Some(old) if *old != h => {
                let (old, new) = (old.to_string(), h.to_string());
                self.mismatch(json!({"id": id, "what": "hash of one sequence differs between two apps of one process",
                                     "seq": k, "h_a": old, "h_b": new}));
            }
            Some(_) => {}
            None => {
                self.hashes.insert(k, h);
            }
        }
    }

    fn merge(&mut self, o: Report) {
        self.cases += o.cases;
        self.pair_cases += o.pair_cases;
        self.pair_hs_cases += o.pair_hs_cases;
        self.hs_cases += o.hs_cases;
        self.hs_steps += o.hs_steps;
        self.apps_built += o.apps_built;
        self.other_traffic += o.other_traffic;
        self.mismatch_count += o.mismatch_count;
        self.panic_count += o.panic_count;
        for m in o.mismatches {
            if self.mismatches.len() < 20 {
                self.mismatches.push(m);
            }
        }
        for m in o.panics {
            if self.panics.len() < 20 {
                self.panics.push(m);
            }
        }
        self.free.extend(o.free);
        self.failed_ids.extend(o.failed_ids);
        self.tool_errors.extend(o.tool_errors);
        for (k, h) in o.hashes {
            match self.hashes.get(&k) {
                Some(old) if *old != h => {
                    let (old, new) = (old.to_string(), h.to_string());
                    self.mismatch(json!({"what": "hash of one sequence differs between two apps of one process",
                                         "seq": k, "h_a": old, "h_b": new}));
                }
                Some(_) => {}
                None => {
                    self.hashes.insert(k, h);
                }
            }
        }
    }
}

fn panic_text(e: Box<dyn std::any::Any + Send>) -> String {
    if let Some(s) = e.downcast_ref::<&str>() {
        s.to_string()
    } else if let Some(s) = e.downcast_ref::<String>() {
        s.clone()
    } else {
        "non-string panic".into()
    }
}

/// Runs `f`; a panic whose message starts with `TOOL:` is a tool error, any other one is data.
fn guarded<T>(rep: &mut Report, ctx: Value, f: impl FnOnce() -> T) -> Option<T> {
    match catch_unwind(AssertUnwindSafe(f)) {
        Ok(v) => Some(v),
        Err(e) => {
            let text = panic_text(e);
            if text.starts_with("TOOL:") {
                rep.tool_errors.push(format!("{text} in {ctx}"));
            } else {
                rep.panic(json!({"case": ctx, "panic": text}));
            }
            None
        }
    }
}

const CANON_HEAD: [&str; 4] = ["connect", "cf", "c2s", "sf"];

fn run_case(case: Case, rep: &mut Report) {
    match case {
        Case::Pairs { id, s1, edits } => {
            for e in edits {
                rep.cases += 1;
                rep.pair_cases += 1;
                let ctx = json!({"id": id, "t": "pairs", "op": e.op, "s1": s1, "s2": e.s2});
                let Some((server, client, h1, h2)) = guarded(rep, ctx.clone(), || {
                    let server = build_app(&s1);
                    let client = build_app(&e.s2);
                    let (h1, h2) = (hash_of(&server), hash_of(&client));
                    (server, client, h1, h2)
                }) else {
                    continue;
                };
                rep.apps_built += 2;
                rep.record_hash(id, &s1, h1);
                rep.record_hash(id, &e.s2, h2);
                if (h1 == h2) != e.eq {
                    rep.mismatch(json!({"id": id, "t": "pairs", "what": "hash equality differs from the spec",
                        "op": e.op, "s1": s1, "s2": e.s2, "expected_equal": e.eq, "got_equal": h1 == h2,
                        "h1": h1.to_string(), "h2": h2.to_string()}));
                }
                if e.hs {
                    rep.pair_hs_cases += 1;
                    let got = guarded(rep, ctx.clone(), || {
                        let mut link = Link::from_apps(server, client);
                        for a in CANON_HEAD {
                            link.step(a);
                        }
                        link.step("s2c");
                        link.step("cf");
                        link.step("sf");
                        (link.observe(), link.other_traffic)
                    });
                    if let Some((o, other)) = got {
                        rep.other_traffic += other as u64;
                        if (o.auth, o.disc, o.notified) != (e.out.auth, e.out.disc, e.out.notified) {
                            rep.mismatch(json!({"id": id, "t": "pairs", "what": "handshake outcome differs from the spec",
                                "op": e.op, "s1": s1, "s2": e.s2, "expected_equal": e.eq,
                                "expected": {"auth": e.out.auth, "disc": e.out.disc, "notified": e.out.notified},
                                "got": o}));
                        }
                    }
                }
            }
        }
        Case::Hs { id, s1, s2, eq, steps } => {
            rep.cases += 1;
            rep.hs_cases += 1;
            let ctx = json!({"id": id, "t": "hs", "s1": s1, "s2": s2,
                             "sched": steps.iter().map(|s| s.a.clone()).collect::<Vec<_>>()});
            let res = guarded(rep, ctx.clone(), || {
                let mut link = Link::new(&s1, &s2);
                let mut diff = None;
                let mut done = 0u64;
                for (i, st) in steps.iter().enumerate() {
                    link.step(&st.a);
                    let got = link.observe();
                    done += 1;
                    let exp = Obs { auth: st.auth, disc: st.disc, notified: st.notified, c2s: st.c2s, s2c: st.s2c };
                    if got != exp {
                        diff = Some((i, exp, got));
                        break;
                    }
                }
                (diff, done, link.other_traffic)
            });
            if let Some((diff, done, other)) = res {
                rep.apps_built += 2;
                rep.hs_steps += done;
                rep.other_traffic += other as u64;
                if let Some((i, exp, got)) = diff {
                    rep.mismatch(json!({"id": id, "t": "hs", "what": "handshake step differs from the spec",
                        "s1": s1, "s2": s2, "expected_equal": eq, "step": i,
                        "sched": steps.iter().map(|s| s.a.clone()).collect::<Vec<_>>(),
                        "expected": exp, "got": got}));
                }
            }
        }
        Case::Free { id, a, b } => {
            rep.cases += 1;
            let ctx = json!({"id": id, "t": "free", "a": a, "b": b});
            if let Some((h1, h2)) = guarded(rep, ctx, || (hash_of(&build_app(&a)), hash_of(&build_app(&b)))) {
                rep.apps_built += 2;
                rep.free.push(json!({"id": id, "a": a, "b": b, "equal": h1 == h2}));
            }
        }
    }
}

fn main() {
    let args: Vec<String> = std::env::args().collect();
    let mut path = None;
    let mut hashes_out = None;
    let mut threads = 1usize;
    let mut i = 1;
    while i < args.len() {
        match args[i].as_str() {
            "--hashes-out" => {
                hashes_out = args.get(i + 1).cloned();
                i += 2;
            }
            "--threads" => {
                threads = args.get(i + 1).and_then(|s| s.parse().ok()).unwrap_or(1).max(1);
                i += 2;
            }
            a => {
                path = Some(a.to_string());
                i += 1;
            }
        }
    }
    let Some(path) = path else {
        eprintln!("usage: c14_replay <cases.ndjson> [--hashes-out <file>] [--threads <n>]");
        std::process::exit(2);
    };
    let text = match fs::read_to_string(&path) {
        Ok(t) => t,
        Err(e) => {
            eprintln!("cannot read {path}: {e}");
            std::process::exit(2);
        }
    };
    let mut cases = Vec::new();
    for (n, line) in text.lines().enumerate() {
        if line.trim().is_empty() {
            continue;
        }
        match serde_json::from_str::<Case>(line) {
            Ok(c) => cases.push(c),
            Err(e) => {
                eprintln!("{path}:{}: {e}", n + 1);
                std::process::exit(2);
            }
        }
    }
    // Panics are data; keep stderr quiet.
    std::panic::set_hook(Box::new(|_| {}));

    let queue = Mutex::new(cases.into_iter().collect::<VecDeque<_>>());
    let total = Mutex::new(Report::default());
    std::thread::scope(|s| {
        for _ in 0..threads {
            s.spawn(|| {
                let mut rep = Report::default();
                loop {
                    let case = queue.lock().unwrap().pop_front();
                    match case {
                        Some(c) => run_case(c, &mut rep),
                        None => break,
                    }
                }
                total.lock().unwrap().merge(rep);
            });
        }
    });
    let rep = total.into_inner().unwrap();

    if let Some(p) = hashes_out {
        let mut out = String::new();
        for (k, h) in &rep.hashes {
            out.push_str(&format!("{k}\t{h}\n"));
        }
        if let Err(e) = fs::File::create(&p).and_then(|mut f| f.write_all(out.as_bytes())) {
            eprintln!("cannot write {p}: {e}");
            std::process::exit(2);
        }
    }
    let summary = json!({
        "cases": rep.cases,
        "pair_cases": rep.pair_cases,
        "pair_hs_cases": rep.pair_hs_cases,
        "hs_cases": rep.hs_cases,
        "hs_steps": rep.hs_steps,
        "apps_built": rep.apps_built,
        "distinct_sequences": rep.hashes.len(),
        "other_traffic": rep.other_traffic,
        "mismatch_count": rep.mismatch_count,
        "mismatches": rep.mismatches,
        "panic_count": rep.panic_count,
        "panics": rep.panics,
        "free": rep.free,
        "failed_ids": rep.failed_ids.iter().take(200).collect::<Vec<_>>(),
        "tool_errors": rep.tool_errors,
    });
    println!("{summary}");
    if !rep.tool_errors.is_empty() {
        eprintln!("tool errors: {:?}", &rep.tool_errors[..rep.tool_errors.len().min(5)]);
        std::process::exit(2);
    }
}
