//! C06 junk driver: puts byte strings on the client -> server channels of a real server `App`
//! (harness-owned network, `AuthMethod::ProtocolCheck`) and compares what the server did with what
//! spec/WireShapes.tla says must happen.
//!
//! usage: c06_junk --mode spec   --cases <ndjson> [--from i] [--to j]
//!        c06_junk --mode corpus
//!        c06_junk --mode sweep  [--from i] [--to j] [--batch n]
//!        c06_junk --mode random --n <n> --seed <s> [--from i] [--to j] [--batch n]
//!        c06_junk --mode describe-sweep | describe-random [--seed s] --from i --to j   (prints the inputs)
//!        common: [--journal <path>] [--single] [--max-mismatches n (default 200: the rest is not run)]
//!
//! Client channels (registration order): 0 ack, 1 protocol-hash trigger, 2 E1 {a: u32},
//! 3 mapped E2 {e: Entity, v: Vec<u8>}, 4 trigger T1 {x: u16}, 5 mapped trigger T2 {e: Entity}.
//! Clients: c1 well-behaved (authorised by its own hash message), c2 attacker, authorised,
//! c3 attacker, connected but not authorised.
//!
//! A spec case (one JSON object per line; numbers are little-endian byte arrays):
//!   id, ch, auth (sender state), phase ("pre" = before the first tick after the sender connected,
//!   "post"), bytes, hashAt [start(1-based), len] (bytes to be replaced by the real protocol hash),
//!   pre {inflight}, must {st: "exact" | "free", v {acked, targets, vals}, post {auth, inflight, disc, delivered}},
//!   model {st: "deliver" | "discard" | "panic", v, post}
//!
//! Per case: session state arranged, bytes queued with `RepliconServer::insert_received`, one server
//! frame under catch_unwind + allocation recording + watchdog, then
//!   * always: no panic, largest single allocation request <= K * (len + C), the other client's
//!     server-side state and the world untouched, nothing delivered under another sender or channel;
//!   * must.st = "exact": exactly that value received (observers / event readers installed in the
//!     server app), sender state as in must.post;
//!   * must.st = "free": discarded, or one well-formed message's worth of effects;
//!   * model disagreement that the property permits is a divergence (reported, never a mismatch);
//!   * afterwards the well-behaved client must still converge (mutation + client event round trip).
//! sweep / random: many messages per frame (attribution by re-running the batch one by one).
//!
//! stdout: one JSON summary line. Exit 0 = ran to completion, 2 = tool error, 3 = a frame did not
//! return within 10 s (journal tells which), death by signal = abort inside a frame (same).
use std::{
    alloc::{GlobalAlloc, Layout, System},
    collections::{BTreeMap, BTreeSet},
    fs::File,
    io::{BufRead, BufReader, Write},
    panic,
    sync::{
        Mutex,
        atomic::{AtomicBool, AtomicU64, AtomicUsize, Ordering::Relaxed},
    },
    time::{Duration, Instant},
};

use bevy::{ecs::entity::MapEntities, prelude::*};
use bevy_replicon::{prelude::*, shared::replication::client_ticks::ClientTicks};
use serde::{Deserialize, Serialize};
use serde_json::{Value, json};
use verif_harness::{model::Cfg, sim::Sim};

// ------------------------------------------------------------------ recording allocator

const ALLOC_K: usize = 64;
const ALLOC_C: usize = 1 << 16;
/// While recording, a single request above this is refused (the caller aborts or panics): far
/// beyond K * (len + C) for any message this driver sends.
const HARD_CAP: usize = 1 << 30;

struct RecAlloc;
static RECORDING: AtomicBool = AtomicBool::new(false);
static MAX_REQ: AtomicUsize = AtomicUsize::new(0);

#[inline]
fn note(size: usize) -> bool {
    if RECORDING.load(Relaxed) {
        MAX_REQ.fetch_max(size, Relaxed);
        size > HARD_CAP
    } else {
        false
    }
}

unsafe impl GlobalAlloc for RecAlloc {
    unsafe fn alloc(&self, l: Layout) -> *mut u8 {
        if note(l.size()) {
            return std::ptr::null_mut();
        }
        unsafe { System.alloc(l) }
    }
    unsafe fn alloc_zeroed(&self, l: Layout) -> *mut u8 {
        if note(l.size()) {
            return std::ptr::null_mut();
        }
        unsafe { System.alloc_zeroed(l) }
    }
    unsafe fn realloc(&self, p: *mut u8, l: Layout, new_size: usize) -> *mut u8 {
        if note(new_size) {
            return std::ptr::null_mut();
        }
        unsafe { System.realloc(p, l, new_size) }
    }
    unsafe fn dealloc(&self, p: *mut u8, l: Layout) {
        unsafe { System.dealloc(p, l) }
    }
}

#[global_allocator]
static GLOBAL: RecAlloc = RecAlloc;

// ------------------------------------------------------------------ watchdog, journal, panics

static FRAME_DEADLINE_MS: AtomicU64 = AtomicU64::new(0);
static JOURNAL: Mutex<Option<File>> = Mutex::new(None);
static PANIC_MSG: Mutex<String> = Mutex::new(String::new());
static CUR_RANGE: Mutex<(u64, u64)> = Mutex::new((0, 0));
const HANG_MS: u64 = 10_000;
/// A fresh server / client set after this many frames.
const REBUILD_EVERY: u64 = 20_000;

fn journal(v: &Value) {
    if let Ok(mut g) = JOURNAL.lock() {
        if let Some(f) = g.as_mut() {
            let mut s = v.to_string();
            s.push('\n');
            let _ = f.write_all(s.as_bytes());
        }
    }
}

fn tool_error(msg: &str) -> ! {
    eprintln!("c06_junk: {msg}");
    journal(&json!({"t": "tool_error", "msg": msg}));
    std::process::exit(2);
}

fn start_watchdog(t0: Instant) {
    std::thread::spawn(move || {
        loop {
            std::thread::sleep(Duration::from_millis(100));
            let d = FRAME_DEADLINE_MS.load(Relaxed);
            if d != 0 && t0.elapsed().as_millis() as u64 > d {
                let (a, b) = *CUR_RANGE.lock().unwrap();
                journal(&json!({"t": "hang", "from": a, "to": b}));
                eprintln!("c06_junk: a server frame did not return within {HANG_MS} ms (cases {a}..={b})");
                std::process::exit(3);
            }
        }
    });
}

// ------------------------------------------------------------------ test vocabulary

#[derive(Event, Serialize, Deserialize, Clone, Debug)]
struct E1 {
    a: u32,
}
#[derive(Event, Serialize, Deserialize, Clone, Debug)]
struct E2 {
    e: Entity,
    v: Vec<u8>,
}
impl MapEntities for E2 {
    fn map_entities<M: EntityMapper>(&mut self, m: &mut M) {
        self.e = m.get_mapped(self.e);
    }
}
#[derive(Event, Serialize, Deserialize, Clone, Debug)]
struct T1 {
    x: u16,
}
#[derive(Event, Serialize, Deserialize, Clone, Debug)]
struct T2 {
    e: Entity,
}
impl MapEntities for T2 {
    fn map_entities<M: EntityMapper>(&mut self, m: &mut M) {
        self.e = m.get_mapped(self.e);
    }
}

const CH_ACK: usize = 0;
const CH_HASH: usize = 1;
const CH_E1: usize = 2;
const CH_E2: usize = 3;
const CH_T1: usize = 4;
const CH_T2: usize = 5;
const N_CH: usize = 6;
const CH_NAMES: [&str; N_CH] = ["ack", "hash", "e1", "e2", "t1", "t2"];

fn is_trigger(ch: usize) -> bool {
    matches!(ch, CH_HASH | CH_T1 | CH_T2)
}

/// What server-side game logic received: one entry per event / per observer invocation.
#[derive(Clone, Debug, PartialEq)]
struct Entry {
    ch: usize,
    client: Entity,
    /// trigger target (`Entity::PLACEHOLDER` when the trigger had none); `None` for buffered events
    target: Option<Entity>,
    /// payload fields, numbers little-endian
    vals: Vec<Vec<u8>>,
}

impl Entry {
    fn json(&self) -> Value {
        json!({"ch": self.ch, "client": self.client.to_bits(), "target": self.target.map(|t| t.to_bits()), "vals": self.vals})
    }
}

#[derive(Resource, Default)]
struct JunkLog {
    entries: Vec<Entry>,
    disc: Vec<Entity>,
}

fn hash_value(h: &ProtocolHash) -> u64 {
    serde_json::to_value(h).ok().and_then(|v| v.as_u64()).unwrap_or_else(|| tool_error("cannot read ProtocolHash"))
}

fn read_e1(mut r: EventReader<FromClient<E1>>, mut log: ResMut<JunkLog>) {
    for e in r.read() {
        log.entries.push(Entry { ch: CH_E1, client: e.client, target: None, vals: vec![e.event.a.to_le_bytes().to_vec()] });
    }
}
fn read_e2(mut r: EventReader<FromClient<E2>>, mut log: ResMut<JunkLog>) {
    for e in r.read() {
        log.entries.push(Entry {
            ch: CH_E2,
            client: e.client,
            target: None,
            vals: vec![e.event.e.to_bits().to_le_bytes().to_vec(), e.event.v.clone()],
        });
    }
}
fn read_disc(mut r: EventReader<DisconnectRequest>, mut log: ResMut<JunkLog>) {
    for e in r.read() {
        log.disc.push(e.client);
    }
}
fn on_t1(t: Trigger<FromClient<T1>>, mut log: ResMut<JunkLog>) {
    log.entries.push(Entry { ch: CH_T1, client: t.client, target: Some(t.target()), vals: vec![t.event.x.to_le_bytes().to_vec()] });
}
fn on_t2(t: Trigger<FromClient<T2>>, mut log: ResMut<JunkLog>) {
    log.entries.push(Entry { ch: CH_T2, client: t.client, target: Some(t.target()), vals: vec![t.event.e.to_bits().to_le_bytes().to_vec()] });
}
fn on_hash(t: Trigger<FromClient<ProtocolHash>>, mut log: ResMut<JunkLog>) {
    log.entries.push(Entry { ch: CH_HASH, client: t.client, target: Some(t.target()), vals: vec![hash_value(&t.event).to_le_bytes().to_vec()] });
}

fn register(app: &mut App) {
    app.add_client_event::<E1>(Channel::Ordered)
        .add_mapped_client_event::<E2>(Channel::Ordered)
        .add_client_trigger::<T1>(Channel::Ordered)
        .add_mapped_client_trigger::<T2>(Channel::Ordered);
    app.init_resource::<JunkLog>();
    app.add_systems(Update, (read_e1, read_e2, read_disc));
    app.add_observer(on_t1).add_observer(on_t2).add_observer(on_hash);
}

// ------------------------------------------------------------------ cases

#[derive(Clone, Copy, PartialEq, Debug)]
enum Phase {
    Pre,
    Post,
    Any,
}

#[derive(Clone, Debug, Default)]
struct Val {
    acked: Vec<u16>,
    targets: Vec<u64>,
    vals: Vec<Vec<u8>>,
}

#[derive(Clone, Debug, Default)]
struct Post {
    auth: bool,
    inflight: Vec<u16>,
    disc: bool,
    delivered: u64,
}

#[derive(Clone, Debug)]
struct Expect {
    st: String,
    v: Val,
    post: Post,
}

#[derive(Clone, Debug)]
struct Case {
    id: Value,
    ch: usize,
    auth: bool,
    phase: Phase,
    bytes: Vec<u8>,
    hash_at: Option<(usize, usize)>,
    pre_inflight: Option<Vec<u16>>,
    must: Option<Expect>,
    model: Option<Expect>,
    origin: String,
}

fn byte_vec(v: &Value, what: &str) -> Vec<u8> {
    v.as_array()
        .unwrap_or_else(|| tool_error(&format!("{what}: not an array")))
        .iter()
        .map(|x| x.as_u64().filter(|b| *b < 256).unwrap_or_else(|| tool_error(&format!("{what}: not a byte"))) as u8)
        .collect()
}

fn u16_vec(v: &Value, what: &str) -> Vec<u16> {
    v.as_array()
        .unwrap_or_else(|| tool_error(&format!("{what}: not an array")))
        .iter()
        .map(|x| x.as_u64().filter(|b| *b < 65536).unwrap_or_else(|| tool_error(&format!("{what}: not a u16"))) as u16)
        .collect()
}

fn parse_val(v: &Value) -> Val {
    if v.is_null() {
        return Val::default();
    }
    let targets = v["targets"]
        .as_array()
        .map(|a| {
            a.iter()
                .map(|t| {
                    let b = byte_vec(t, "target");
                    if b.len() != 8 {
                        tool_error("target: expected 8 little-endian bytes");
                    }
                    u64::from_le_bytes(b.try_into().unwrap())
                })
                .collect()
        })
        .unwrap_or_default();
    let vals = v["vals"].as_array().map(|a| a.iter().map(|x| byte_vec(x, "val")).collect()).unwrap_or_default();
    let acked = if v["acked"].is_array() { u16_vec(&v["acked"], "acked") } else { Vec::new() };
    Val { acked, targets, vals }
}

fn parse_post(v: &Value) -> Post {
    let mut inflight = if v["inflight"].is_array() { u16_vec(&v["inflight"], "inflight") } else { Vec::new() };
    inflight.sort();
    Post {
        auth: v["auth"].as_bool().unwrap_or(false),
        inflight,
        disc: v["disc"].as_bool().unwrap_or(false),
        delivered: v["delivered"].as_u64().unwrap_or(0),
    }
}

fn parse_expect(v: &Value) -> Option<Expect> {
    let st = v["st"].as_str()?.to_string();
    Some(Expect { st, v: parse_val(&v["v"]), post: parse_post(&v["post"]) })
}

fn parse_case(v: &Value) -> Case {
    let ch = v["ch"].as_u64().filter(|c| (*c as usize) < N_CH).unwrap_or_else(|| tool_error("case without ch")) as usize;
    let phase = match v["phase"].as_str() {
        Some("pre") => Phase::Pre,
        Some("post") => Phase::Post,
        _ => Phase::Any,
    };
    let hash_at = v["hashAt"].as_array().and_then(|a| {
        let s = a.first()?.as_u64()? as usize;
        let l = a.get(1)?.as_u64()? as usize;
        if s == 0 { None } else { Some((s, l)) }
    });
    let pre_inflight = v["pre"]["inflight"].is_array().then(|| {
        let mut x = u16_vec(&v["pre"]["inflight"], "pre.inflight");
        x.sort();
        x
    });
    Case {
        id: v["id"].clone(),
        ch,
        auth: v["auth"].as_bool().unwrap_or_else(|| tool_error("case without auth")),
        phase,
        bytes: byte_vec(&v["bytes"], "bytes"),
        hash_at,
        pre_inflight,
        must: parse_expect(&v["must"]),
        model: parse_expect(&v["model"]),
        origin: v["origin"].as_str().unwrap_or("spec").to_string(),
    }
}

fn raw_case(id: Value, origin: &str, ch: usize, auth: bool, phase: Phase, bytes: Vec<u8>) -> Case {
    Case { id, ch, auth, phase, bytes, hash_at: None, pre_inflight: None, must: None, model: None, origin: origin.to_string() }
}

impl Case {
    /// A replayable description (accepted by `--mode spec`).
    fn json(&self) -> Value {
        json!({"id": self.id, "origin": self.origin, "ch": self.ch, "chn": CH_NAMES[self.ch], "auth": self.auth,
               "phase": match self.phase { Phase::Pre => "pre", Phase::Post => "post", Phase::Any => "any" },
               "bytes": self.bytes, "hashAt": self.hash_at.map(|(a, b)| vec![a, b]).unwrap_or(vec![0, 0]),
               "must": {"st": "free"}})
    }
}

// ------------------------------------------------------------------ the rig

const GOOD: &str = "c1";

fn att_name(auth: bool) -> &'static str {
    if auth { "c2" } else { "c3" }
}
fn att_idx(auth: bool) -> usize {
    if auth { 1 } else { 2 }
}

#[derive(Clone, Debug, PartialEq, Default)]
struct AttState {
    conn: bool,
    auth: bool,
    inflight: Vec<u16>,
}

#[derive(Default)]
struct Stats {
    counts: BTreeMap<String, u64>,
    max_alloc: usize,
    max_alloc_id: Value,
}

impl Stats {
    fn inc(&mut self, k: &str) {
        *self.counts.entry(k.to_string()).or_default() += 1;
    }
    fn add(&mut self, k: &str, n: u64) {
        *self.counts.entry(k.to_string()).or_default() += n;
    }
}

struct Corpus {
    /// valid messages recorded from the real client library: (channel, bytes, value)
    items: Vec<(usize, Vec<u8>, Val)>,
}

struct Rig {
    sim: Sim,
    t0: Instant,
    ctr: u32,
    hash: u64,
    fresh: [bool; 3],
    frames: u64,
    corpus: Corpus,
}

struct FrameObs {
    panic: Option<String>,
    max_alloc: usize,
    log: JunkLog,
    others_changed: Option<String>,
    before: [AttState; 2],
    after: [AttState; 2],
    entities: [Entity; 2],
}

fn enc_varint(mut v: u64, out: &mut Vec<u8>) {
    loop {
        let b = (v & 0x7f) as u8;
        v >>= 7;
        if v == 0 {
            out.push(b);
            return;
        }
        out.push(b | 0x80);
    }
}

impl Rig {
    fn new(t0: Instant) -> Rig {
        let cfg = Cfg {
            ents: vec!["e1".into(), "e2".into(), "e3".into()],
            clients: vec!["c1".into(), "c2".into(), "c3".into()],
            policy: "all".into(),
            track: false,
            rel: false,
            max_size: vec![1200; 3],
            auth: "protocol".into(),
            timeout_ms: 10_000,
            events: false,
            ..Default::default()
        };
        let sim = Sim::new_with(cfg, &register);
        let nch = sim.server.world().resource::<RepliconChannels>().client_channels().len();
        if nch != N_CH {
            tool_error(&format!("expected {N_CH} client channels, the app has {nch}"));
        }
        let hash = hash_value(sim.server.world().resource::<ProtocolHash>());
        let mut rig = Rig { sim, t0, ctr: 0, hash, fresh: [true; 3], frames: 0, corpus: Corpus { items: Vec::new() } };
        // the harness's own per-frame bookkeeping must not grow inside a recorded frame
        rig.sim.after.reserve(4 * REBUILD_EVERY as usize);
        rig.setup();
        rig
    }

    fn frame(&mut self, tick: bool) {
        self.frame_dt(tick, 0);
    }

    fn frame_dt(&mut self, tick: bool, dt_ms: u64) {
        FRAME_DEADLINE_MS.store(self.t0.elapsed().as_millis() as u64 + HANG_MS, Relaxed);
        self.sim.server_frame(tick, dt_ms);
        FRAME_DEADLINE_MS.store(0, Relaxed);
        self.frames += 1;
        if tick {
            self.fresh = [false; 3];
        }
        for i in 1..3 {
            for q in &mut self.sim.clients[i].s2c {
                q.clear();
            }
        }
    }

    fn deliver_all_c2s(&mut self, c: &str) {
        for ch in 0..N_CH {
            while self.sim.deliver_c2s(c, ch, 0) {}
        }
    }

    fn deliver_all_s2c(&mut self, c: &str) {
        let n = self.sim.clients[self.sim.ci(c)].s2c.len();
        for ch in 0..n {
            while self.sim.deliver_s2c(c, ch, 0) {}
        }
    }

    fn take_log(&mut self) -> JunkLog {
        std::mem::take(&mut *self.sim.server.world_mut().resource_mut::<JunkLog>())
    }

    fn entity_of(&self, c: &str) -> Entity {
        self.sim.clients[self.sim.ci(c)].entity.unwrap_or_else(|| tool_error(&format!("{c} is not connected")))
    }

    fn att_state(&self, auth: bool) -> AttState {
        let Some(e) = self.sim.clients[att_idx(auth)].entity else { return AttState::default() };
        let w = self.sim.server.world();
        let Ok(er) = w.get_entity(e) else { return AttState::default() };
        let mut inflight: Vec<u16> =
            er.get::<ClientTicks>().map(|t| t.verif_mutations().into_iter().map(|m| m.0).collect()).unwrap_or_default();
        inflight.sort();
        AttState { conn: true, auth: er.contains::<AuthorizedClient>(), inflight }
    }

    /// Server-side state no attacker message may touch.
    fn others(&self) -> Value {
        let p = self.sim.project_server();
        json!({"world": p["world"], "good": p["cl"][GOOD], "despawnBuf": p["despawnBuf"], "removalBuf": p["removalBuf"],
               "running": p["running"]})
    }

    fn reset_att(&mut self, auth: bool) {
        let name = att_name(auth);
        self.sim.disconnect(name);
        self.sim.connect(name);
        if auth {
            self.sim.authorize(name);
        }
        self.fresh[att_idx(auth)] = true;
    }

    fn setup(&mut self) {
        self.frame(false);
        self.sim.connect(GOOD);
        // the well-behaved client authorises itself with its own hash message
        self.sim.client_frame(GOOD, 0);
        let hash_msg: Vec<u8> = self.sim.clients[0].c2s[CH_HASH].front().map(|m| m.bytes.to_vec()).unwrap_or_else(|| tool_error("the client sent no protocol hash"));
        self.deliver_all_c2s(GOOD);
        self.take_log();
        self.frame(false);
        let ge = self.entity_of(GOOD);
        if !self.sim.server.world().entity(ge).contains::<AuthorizedClient>() {
            tool_error("the well-behaved client was not authorised by its hash message");
        }
        let log = self.take_log();
        let want = Entry { ch: CH_HASH, client: ge, target: Some(Entity::PLACEHOLDER), vals: vec![self.hash.to_le_bytes().to_vec()] };
        if log.entries != vec![want] {
            tool_error(&format!("observer binding: hash message logged as {:?}", log.entries));
        }
        self.sim.spawn("e1", &["A", "B"], true);
        self.sim.spawn("e2", &["A"], true);
        if let Err(e) = self.check_good() {
            tool_error(&format!("setup: {e}"));
        }
        self.sim.connect("c2");
        self.sim.authorize("c2");
        self.sim.connect("c3");
        self.fresh = [false, true, true];
        self.record_corpus(hash_msg);
    }

    /// Valid messages produced by the real client library (and a check that each is received as sent).
    fn record_corpus(&mut self, hash_msg: Vec<u8>) {
        let ge = self.entity_of(GOOD);
        let (s1, s2) = (self.sim.server_entity("e1").unwrap(), self.sim.server_entity("e2").unwrap());
        let map = self.sim.clients[0].app.world().resource::<bevy_replicon::shared::server_entity_map::ServerEntityMap>();
        let (c1, c2) = match (map.to_client().get(&s1), map.to_client().get(&s2)) {
            (Some(a), Some(b)) => (*a, *b),
            _ => tool_error("setup: the well-behaved client has no mapping for e1 / e2"),
        };
        let mut items: Vec<(usize, Vec<u8>, Val)> = Vec::new();
        items.push((CH_HASH, hash_msg, Val { acked: vec![], targets: vec![], vals: vec![self.hash.to_le_bytes().to_vec()] }));
        let le = |x: u64, n: usize| x.to_le_bytes()[..n].to_vec();
        let mut sent: Vec<(usize, Val)> = Vec::new();
        {
            let w = self.sim.clients[0].app.world_mut();
            for a in [0u32, 1, 127, 128, 300, 70_000, u32::MAX] {
                w.send_event(E1 { a });
                sent.push((CH_E1, Val { vals: vec![le(a as u64, 4)], ..Default::default() }));
            }
            for (e, se, v) in [(c1, s1, vec![]), (c2, s2, vec![7u8]), (c1, s1, vec![1, 2, 3, 255, 128, 0]), (c2, s2, vec![9; 200])] {
                w.send_event(E2 { e, v: v.clone() });
                sent.push((CH_E2, Val { vals: vec![le(se.to_bits(), 8), v], ..Default::default() }));
            }
            for (x, t, st) in [(0u16, vec![], vec![]), (300, vec![c1], vec![s1]), (65535, vec![c1, c2], vec![s1, s2]), (128, vec![c2, c2, c1], vec![s2, s2, s1])] {
                w.client_trigger_targets(T1 { x }, t);
                sent.push((CH_T1, Val { targets: st.iter().map(|e| e.to_bits()).collect(), vals: vec![le(x as u64, 2)], ..Default::default() }));
            }
            for (e, se, t, st) in [(c1, s1, vec![], vec![]), (c2, s2, vec![c1], vec![s1])] {
                w.client_trigger_targets(T2 { e }, t);
                sent.push((CH_T2, Val { targets: st.iter().map(|e| e.to_bits()).collect(), vals: vec![le(se.to_bits(), 8)], ..Default::default() }));
            }
        }
        self.sim.client_frame(GOOD, 0);
        let mut want: Vec<Entry> = Vec::new();
        let mut per_ch: BTreeMap<usize, Vec<Val>> = BTreeMap::new();
        for (ch, v) in &sent {
            per_ch.entry(*ch).or_default().push(v.clone());
        }
        for (ch, vals) in &per_ch {
            let q = &self.sim.clients[0].c2s[*ch];
            if q.len() != vals.len() {
                tool_error(&format!("corpus: channel {ch}: {} messages sent for {} events", q.len(), vals.len()));
            }
            for (m, v) in q.iter().zip(vals) {
                items.push((*ch, m.bytes.to_vec(), v.clone()));
            }
        }
        // delivery order on the server: events per channel in registration order, triggers afterwards
        for ch in [CH_E1, CH_E2, CH_T1, CH_T2] {
            for v in per_ch.get(&ch).into_iter().flatten() {
                want.extend(expected_entries(ch, ge, v));
            }
        }
        self.deliver_all_c2s(GOOD);
        self.take_log();
        self.frame(false);
        let log = self.take_log();
        let key = |e: &Entry| (e.ch, e.vals.clone(), e.target.map(|t| t.to_bits()));
        let (mut got, mut exp) = (log.entries.clone(), want.clone());
        got.sort_by_key(key);
        exp.sort_by_key(key);
        if got != exp {
            tool_error(&format!("corpus: valid client messages were not received as sent: got {:?} expected {:?}", log.entries, want));
        }
        // acknowledgement messages as the client writes them
        for l in [vec![0u16], vec![0, 1], vec![5, 6, 7]] {
            let mut b = Vec::new();
            for i in &l {
                b.extend_from_slice(&i.to_le_bytes());
            }
            items.push((CH_ACK, b, Val { acked: l, ..Default::default() }));
        }
        self.corpus = Corpus { items };
    }

    /// The well-behaved client must still be served: replication converges, its event arrives.
    fn check_good(&mut self) -> Result<(), String> {
        self.ctr += 1;
        let ctr = self.ctr;
        self.sim.mutate("e1", "A");
        if ctr % 2 == 0 {
            self.sim.mutate("e2", "A");
        }
        if ctr % 3 == 0 {
            self.sim.mutate("e1", "B");
        }
        // one structural change every few rounds: component insertion / removal, spawn / despawn
        match ctr % 8 {
            2 => {
                if self.sim.op_enabled("Insert", &json!({"e": "e2", "k": "B"})) {
                    self.sim.insert("e2", "B");
                } else if self.sim.op_enabled("Remove", &json!({"e": "e2", "k": "B"})) {
                    self.sim.remove("e2", "B");
                }
            }
            6 => {
                if self.sim.op_enabled("Despawn", &json!({"e": "e3"})) {
                    self.sim.despawn("e3");
                } else {
                    if let Some(slot) = self.sim.slots.get_mut("e3") {
                        slot.server = None;
                    }
                    self.sim.spawn("e3", &["A", "B"], true);
                }
            }
            _ => {}
        }
        self.sim.clients[0].app.world_mut().send_event(E1 { a: ctr });
        self.sim.client_frame(GOOD, 0);
        self.deliver_all_c2s(GOOD);
        self.take_log();
        self.frame(true);
        if self.sim.server_panicked {
            return Err(format!("server panicked while serving the well-behaved client: {}", PANIC_MSG.lock().unwrap()));
        }
        self.deliver_all_s2c(GOOD);
        self.sim.client_frame(GOOD, 0);
        if self.sim.clients[0].panicked {
            return Err(format!("well-behaved client panicked: {}", PANIC_MSG.lock().unwrap()));
        }
        self.deliver_all_c2s(GOOD);
        // virtual time passes here only: mutate messages nobody acknowledged expire (cleanup_acks)
        self.frame_dt(false, 4000);
        if self.sim.server_panicked {
            return Err(format!("server panicked while serving the well-behaved client: {}", PANIC_MSG.lock().unwrap()));
        }
        let log = self.take_log();
        let ge = self.entity_of(GOOD);
        let mine: Vec<&Entry> = log.entries.iter().filter(|e| e.client == ge).collect();
        if mine.len() != 1 || mine[0].ch != CH_E1 || mine[0].vals != vec![ctr.to_le_bytes().to_vec()] {
            return Err(format!("event E1 {{a: {ctr}}} of the well-behaved client was not received exactly once: {:?}", log.entries));
        }
        let srv = self.sim.project_server();
        let cli = self.sim.project_client(0);
        if !srv["cl"][GOOD]["auth"].as_bool().unwrap_or(false) {
            return Err("the well-behaved client is no longer authorised".into());
        }
        for (name, e) in srv["world"].as_object().unwrap() {
            let ce = &cli["ents"][name];
            let on_client = ce["alive"].as_bool().unwrap_or(false);
            if !(e["alive"].as_bool().unwrap_or(false) && e["repl"].as_bool().unwrap_or(false)) {
                if on_client {
                    return Err(format!("entity {name} is gone on the server but alive on the well-behaved client"));
                }
                continue;
            }
            if !on_client {
                return Err(format!("entity {name} is missing on the well-behaved client"));
            }
            let sc = e["comps"].as_object().unwrap();
            for (k, c) in sc {
                if ce["comps"][k] != c["val"] {
                    return Err(format!("{name}.{k}: server {} client {}", c["val"], ce["comps"][k]));
                }
            }
            if let Some(extra) = ce["comps"].as_object().and_then(|cc| cc.keys().find(|k| !sc.contains_key(*k))) {
                return Err(format!("{name}.{extra} was removed on the server but is present on the well-behaved client"));
            }
        }
        if cli["extra"].as_u64().unwrap_or(0) != 0 || !cli["bij"].as_bool().unwrap_or(false) {
            return Err(format!("entity map of the well-behaved client: extra {} bijective {}", cli["extra"], cli["bij"]));
        }
        // (older mutate messages that the client discarded as outdated legitimately stay unacknowledged)
        Ok(())
    }

    /// Arranges the sender's session state for a spec case.
    fn prepare(&mut self, case: &Case, stats: &mut Stats) {
        let i = att_idx(case.auth);
        match case.phase {
            Phase::Pre => {
                self.reset_att(case.auth);
                stats.inc("arranged:pre");
            }
            Phase::Post => {
                if self.fresh[i] {
                    self.frame(true);
                }
                stats.inc("arranged:post");
            }
            Phase::Any => {}
        }
        if case.ch == CH_ACK && case.auth {
            if let Some(want) = &case.pre_inflight {
                if &self.att_state(true).inflight != want {
                    if case.phase == Phase::Pre {
                        tool_error("a freshly connected client has mutate messages in flight");
                    }
                    self.reset_att(true);
                    self.frame(true);
                    for _ in 0..want.len() {
                        self.sim.mutate("e1", "A");
                        self.frame(true);
                    }
                    stats.inc("arranged:inflight");
                    let got = self.att_state(true).inflight;
                    if &got != want {
                        tool_error(&format!("cannot arrange in-flight mutate indices {want:?}: got {got:?}"));
                    }
                }
            }
        }
    }

    fn splice(&self, case: &Case) -> Vec<u8> {
        match case.hash_at {
            None => case.bytes.clone(),
            Some((start, len)) => {
                let s = start - 1;
                if s + len > case.bytes.len() {
                    tool_error("hashAt outside the message");
                }
                let mut out = case.bytes[..s].to_vec();
                enc_varint(self.hash, &mut out);
                out.extend_from_slice(&case.bytes[s + len..]);
                out
            }
        }
    }

    /// One server frame with the given messages queued: the step the property talks about.
    fn junk_frame(&mut self, inputs: &[(usize, bool, Vec<u8>)]) -> FrameObs {
        let before = [self.att_state(true), self.att_state(false)];
        let entities = [self.entity_of("c2"), self.entity_of("c3")];
        let others_before = self.others();
        self.take_log();
        // room for the log outside the recording window, so that the driver's own bookkeeping does not
        // show up as the frame's largest allocation
        let room = if inputs.len() > 1 { 1 << 16 } else { 256 };
        self.sim.server.world_mut().resource_mut::<JunkLog>().entries.reserve(room);
        for (ch, auth, bytes) in inputs {
            if !self.sim.junk_c2s(att_name(*auth), *ch, bytes.clone()) {
                tool_error("attacker is not connected");
            }
        }
        PANIC_MSG.lock().unwrap().clear();
        FRAME_DEADLINE_MS.store(self.t0.elapsed().as_millis() as u64 + HANG_MS, Relaxed);
        MAX_REQ.store(0, Relaxed);
        RECORDING.store(true, Relaxed);
        // no tick: an authorised sender that never acknowledges gets its mutations re-sent on every
        // tick, which would change its in-flight set independently of the message under test; the
        // send path runs on the following tick frame (check_good)
        self.sim.server_frame(false, 0);
        RECORDING.store(false, Relaxed);
        FRAME_DEADLINE_MS.store(0, Relaxed);
        let max_alloc = MAX_REQ.load(Relaxed);
        self.frames += 1;
        for i in 1..3 {
            for q in &mut self.sim.clients[i].s2c {
                q.clear();
            }
        }
        let panic = self.sim.server_panicked.then(|| {
            let m = PANIC_MSG.lock().unwrap().clone();
            if m.is_empty() { self.sim.last_panic.clone().unwrap_or_default() } else { m }
        });
        let log = self.take_log();
        let (after, others_changed) = if panic.is_some() {
            (before.clone(), None)
        } else {
            let oa = self.others();
            let ch = (oa != others_before).then(|| format!("before {others_before} after {oa}"));
            ([self.att_state(true), self.att_state(false)], ch)
        };
        FrameObs { panic, max_alloc, log, others_changed, before, after, entities }
    }

    /// The backend's part after a frame: carry out disconnect requests; keep the attackers' state small.
    fn cleanup(&mut self, obs: &FrameObs) {
        for (k, auth) in [(0usize, true), (1, false)] {
            let e = obs.entities[k];
            let st = &obs.after[k];
            if obs.log.disc.contains(&e) || (!auth && st.auth) || st.inflight.len() > 48 || !st.conn {
                self.reset_att(auth);
            }
        }
    }
}

fn expected_entries(ch: usize, sender: Entity, v: &Val) -> Vec<Entry> {
    if ch == CH_ACK {
        return Vec::new();
    }
    if !is_trigger(ch) {
        return vec![Entry { ch, client: sender, target: None, vals: v.vals.clone() }];
    }
    if v.targets.is_empty() {
        return vec![Entry { ch, client: sender, target: Some(Entity::PLACEHOLDER), vals: v.vals.clone() }];
    }
    v.targets
        .iter()
        .map(|&t| {
            let e = Entity::try_from_bits(t).unwrap_or_else(|_| tool_error(&format!("expected target {t:#x} is not a valid identifier")));
            Entry { ch, client: sender, target: Some(e), vals: v.vals.clone() }
        })
        .collect()
}

// ------------------------------------------------------------------ judging

#[derive(Default)]
struct Report {
    cases: u64,
    mismatches: Vec<Value>,
    mismatch_ids: Vec<Value>,
    seen: BTreeSet<String>,
    kinds: BTreeMap<String, String>,
    panics: Vec<Value>,
    divergences: Vec<Value>,
    divergence_count: u64,
    failing_cases: Vec<Value>,
    stats: Stats,
    max_mismatches: usize,
}

impl Report {
    fn mismatch(&mut self, case: &Case, kind: &str, detail: String, observed: Value) {
        let key = case.id.to_string();
        let first = self.seen.insert(key.clone());
        if first {
            self.mismatch_ids.push(case.id.clone());
            if self.failing_cases.len() < 200 {
                let mut c = case.json();
                c["detail"] = json!(detail);
                self.failing_cases.push(c);
            }
        }
        let ks = self.kinds.entry(key).or_default();
        if !ks.split(',').any(|k| k == kind) {
            if !ks.is_empty() {
                ks.push(',');
            }
            ks.push_str(kind);
        }
        let m = json!({"id": case.id, "kind": kind, "detail": detail, "ch": case.ch, "chn": CH_NAMES[case.ch], "auth": case.auth,
                       "bytes": case.bytes, "observed": observed});
        journal(&json!({"t": "mismatch", "m": m}));
        if kind == "panic" && self.panics.len() < 20 {
            self.panics.push(json!({"id": case.id, "chn": CH_NAMES[case.ch], "auth": case.auth, "bytes": case.bytes, "msg": detail}));
        }
        if self.mismatches.len() < 20 {
            self.mismatches.push(m);
        }
    }
}

fn obs_json(obs: &FrameObs, k: usize) -> Value {
    json!({"panic": obs.panic, "max_alloc": obs.max_alloc,
           "log": obs.log.entries.iter().take(8).map(|e| e.json()).collect::<Vec<_>>(), "log_len": obs.log.entries.len(),
           "disc": obs.log.disc.iter().map(|e| e.to_bits()).collect::<Vec<_>>(),
           "before": {"auth": obs.before[k].auth, "inflight": obs.before[k].inflight},
           "after": {"conn": obs.after[k].conn, "auth": obs.after[k].auth, "inflight": obs.after[k].inflight}})
}

/// Does the observation equal "value v received from the sender, sender state `post`"?
fn equals_receive(case: &Case, obs: &FrameObs, v: &Val, post: &Post, hash: u64) -> Result<(), String> {
    let k = if case.auth { 0 } else { 1 };
    let sender = obs.entities[k];
    let mut v = v.clone();
    if case.hash_at.is_some() && case.ch == CH_HASH && !v.vals.is_empty() {
        v.vals[0] = hash.to_le_bytes().to_vec();
    }
    let want = if post.delivered > 0 { expected_entries(case.ch, sender, &v) } else { Vec::new() };
    if obs.log.entries != want {
        return Err(format!("received {:?}, expected {:?}", obs.log.entries.iter().map(|e| e.json()).collect::<Vec<_>>(),
                           want.iter().map(|e| e.json()).collect::<Vec<_>>()));
    }
    let (b, a) = (&obs.before[k], &obs.after[k]);
    if a.auth != post.auth {
        return Err(format!("sender authorised = {}, expected {}", a.auth, post.auth));
    }
    let disc = obs.log.disc.contains(&sender);
    if disc != post.disc {
        return Err(format!("disconnect requested = {disc}, expected {}", post.disc));
    }
    // an acknowledgement removes the sender's own in-flight indices it names (if it is replicated to at all)
    let want_inflight: Vec<u16> = if case.ch == CH_ACK && b.auth && post.delivered == 0 && !v.acked.is_empty() {
        b.inflight.iter().copied().filter(|i| !v.acked.contains(i)).collect()
    } else {
        b.inflight.clone()
    };
    if a.inflight != want_inflight {
        return Err(format!("in-flight mutate indices {:?} -> {:?}, expected {:?}", b.inflight, a.inflight, want_inflight));
    }
    if case.ch == CH_ACK && case.pre_inflight.is_some() && a.inflight != post.inflight {
        return Err(format!("in-flight mutate indices {:?}, the specification expects {:?}", a.inflight, post.inflight));
    }
    Ok(())
}

/// "Discarded, or one well-formed message's worth of effects from this sender on this channel."
fn legal_free(case: &Case, obs: &FrameObs, hash: u64) -> Result<&'static str, String> {
    let k = if case.auth { 0 } else { 1 };
    let sender = obs.entities[k];
    let (b, a) = (&obs.before[k], &obs.after[k]);
    let disc = obs.log.disc.contains(&sender);
    let log = &obs.log.entries;
    if log.is_empty() && a == b && !disc {
        return Ok("discard");
    }
    if !a.conn {
        return Err("the sender's client entity disappeared".into());
    }
    match case.ch {
        CH_ACK => {
            if !log.is_empty() || disc || a.auth != b.auth {
                return Err("an acknowledgement message changed more than the sender's in-flight set".into());
            }
            if !b.auth || !a.inflight.iter().all(|i| b.inflight.contains(i)) {
                return Err(format!("in-flight mutate indices {:?} -> {:?}", b.inflight, a.inflight));
            }
            Ok("deliver")
        }
        CH_E1 | CH_E2 => {
            if log.len() != 1 || a != b || disc {
                return Err(format!("{} events received from one message / sender state changed", log.len()));
            }
            Ok("deliver")
        }
        _ => {
            if log.is_empty() || log.iter().any(|e| e.vals != log[0].vals) {
                return Err("one trigger message produced different payloads".into());
            }
            if a.inflight != b.inflight {
                return Err("a trigger message changed the sender's in-flight set".into());
            }
            if case.ch == CH_HASH {
                let h = log[0].vals.first().cloned().unwrap_or_default();
                if h == hash.to_le_bytes() {
                    if !a.auth || disc {
                        return Err("matching hash: sender not authorised".into());
                    }
                } else if !disc || a.auth != b.auth {
                    return Err("wrong hash: no disconnect request / authorisation changed".into());
                }
            } else if a != b || disc {
                return Err("a trigger message changed the sender's state".into());
            }
            Ok("deliver")
        }
    }
}

fn alloc_bound(len: usize) -> usize {
    ALLOC_K * (len + ALLOC_C)
}

/// A frame that processes ONE junk message: nothing else grows in it, so the bound is much tighter
/// (on the unchanged tree the largest request in such a frame is below 2 KiB).
const ALLOC_C_SINGLE: usize = 1 << 10;
fn alloc_bound_single(len: usize) -> usize {
    ALLOC_K * (len + ALLOC_C_SINGLE)
}

/// Checks that hold for every frame, whatever was sent. Returns (kind, detail) problems.
fn generic_problems(obs: &FrameObs, min_len: usize, channels: &BTreeSet<usize>, single: bool) -> Vec<(&'static str, String)> {
    let mut out = Vec::new();
    if let Some(p) = &obs.panic {
        out.push(("panic", p.clone()));
    }
    let (bound, c) = if single { (alloc_bound_single(min_len), ALLOC_C_SINGLE) } else { (alloc_bound(min_len), ALLOC_C) };
    if obs.max_alloc > bound {
        out.push(("alloc", format!("largest single allocation request {} > {} * ({} + {})", obs.max_alloc, ALLOC_K, min_len, c)));
    }
    if let Some(c) = &obs.others_changed {
        out.push(("others", format!("state of the other client / the world changed: {}", &c[..c.len().min(600)])));
    }
    for e in &obs.log.entries {
        if !obs.entities.contains(&e.client) || !channels.contains(&e.ch) {
            out.push(("forged", format!("received under another sender or channel: {}", e.json())));
            break;
        }
    }
    for d in &obs.log.disc {
        if !obs.entities.contains(d) {
            out.push(("forged", format!("disconnect request for client {d}")));
            break;
        }
    }
    out
}

/// Runs one case on its own frame and judges it. Returns true if it produced a mismatch.
fn run_single(rig: &mut Rig, case: &Case, rep: &mut Report) -> bool {
    let before_mm = rep.seen.len() + rep.mismatches.len();
    rig.prepare(case, &mut rep.stats);
    let bytes = rig.splice(case);
    let obs = rig.junk_frame(&[(case.ch, case.auth, bytes.clone())]);
    let k = if case.auth { 0 } else { 1 };
    rep.cases += 1;
    rep.stats.inc(&format!("{}:ch:{}", case.origin, CH_NAMES[case.ch]));
    rep.stats.inc(&format!("{}:sender:{}", case.origin, if case.auth { "authorized" } else { "unauthorized" }));
    if obs.max_alloc > rep.stats.max_alloc {
        rep.stats.max_alloc = obs.max_alloc;
        rep.stats.max_alloc_id = case.id.clone();
    }
    let mut bad = false;
    let chans: BTreeSet<usize> = [case.ch].into_iter().collect();
    for (kind, detail) in generic_problems(&obs, bytes.len(), &chans, true) {
        rep.mismatch(case, kind, detail, obs_json(&obs, k));
        bad = true;
    }
    if obs.panic.is_none() {
        // the property's demand
        let must_exact = case.must.as_ref().filter(|m| m.st == "exact");
        if let Some(m) = must_exact {
            if let Err(why) = equals_receive(case, &obs, &m.v, &m.post, rig.hash) {
                rep.mismatch(case, "must", format!("well-formed message not received as such: {why}"), obs_json(&obs, k));
                bad = true;
            }
        }
        match legal_free(case, &obs, rig.hash) {
            Ok(what) => {
                rep.stats.inc(&format!("{}:{}", case.origin, what));
                if what == "deliver" {
                    if case.ch == CH_ACK && obs.after[k].inflight.len() < obs.before[k].inflight.len() {
                        rep.stats.inc("effect:known-index-acknowledged");
                    }
                    if case.ch == CH_HASH && obs.after[k].auth && !obs.before[k].auth {
                        rep.stats.inc("effect:authorised-by-hash");
                    }
                    if obs.log.disc.contains(&obs.entities[k]) {
                        rep.stats.inc("effect:disconnect-requested");
                    }
                }
            }
            Err(why) => {
                rep.mismatch(case, "free", format!("neither discarded nor a legal receive: {why}"), obs_json(&obs, k));
                bad = true;
            }
        }
    }
    // fidelity of the transcribed mechanism (never a property verdict)
    if let Some(m) = &case.model {
        let same = match m.st.as_str() {
            "panic" => obs.panic.is_some(),
            _ => obs.panic.is_none() && equals_receive(case, &obs, &m.v, &m.post, rig.hash).is_ok(),
        };
        if !same {
            rep.divergence_count += 1;
            if rep.divergences.len() < 20 {
                rep.divergences.push(json!({"id": case.id, "chn": CH_NAMES[case.ch], "bytes": case.bytes, "model_st": m.st, "observed": obs_json(&obs, k)}));
            }
        }
    }
    if obs.panic.is_some() {
        *rig = Rig::new(rig.t0);
        rep.stats.inc("rebuilds");
    } else {
        rig.cleanup(&obs);
        if let Err(why) = rig.check_good() {
            rep.mismatch(case, "good", format!("the well-behaved client is not served correctly afterwards: {why}"), obs_json(&obs, k));
            bad = true;
            *rig = Rig::new(rig.t0);
            rep.stats.inc("rebuilds");
        } else {
            rep.stats.inc("good-client-checks");
        }
    }
    let _ = before_mm;
    bad
}

/// Many messages in one frame; on any problem the batch is re-run one by one.
fn run_batch(rig: &mut Rig, cases: &[Case], fresh: bool, rep: &mut Report) {
    if fresh {
        rig.reset_att(true);
        rig.reset_att(false);
    } else if rig.fresh[1] || rig.fresh[2] {
        rig.frame(true);
    }
    let inputs: Vec<(usize, bool, Vec<u8>)> = cases.iter().map(|c| (c.ch, c.auth, rig.splice(c))).collect();
    let min_len = inputs.iter().map(|i| i.2.len()).min().unwrap_or(0);
    let chans: BTreeSet<usize> = cases.iter().map(|c| c.ch).collect();
    let obs = rig.junk_frame(&inputs);
    let mut problems = generic_problems(&obs, min_len, &chans, false);
    if obs.max_alloc > rep.stats.max_alloc {
        rep.stats.max_alloc = obs.max_alloc;
        rep.stats.max_alloc_id = json!(format!("batch:{}", cases[0].id));
    }
    if problems.is_empty() {
        rig.cleanup(&obs);
        if let Err(why) = rig.check_good() {
            problems.push(("good", why));
        } else {
            rep.stats.inc("good-client-checks");
        }
    }
    if problems.is_empty() {
        rep.cases += cases.len() as u64;
        let origin = &cases[0].origin;
        rep.stats.add(&format!("{origin}:delivered-entries"), obs.log.entries.len() as u64);
        rep.stats.add(&format!("{origin}:disconnect-requests"), obs.log.disc.len() as u64);
        rep.stats.inc(&format!("{origin}:batches:{}", if fresh { "pre" } else { "post" }));
        for c in cases {
            rep.stats.inc(&format!("{origin}:ch:{}", CH_NAMES[c.ch]));
            rep.stats.inc(&format!("{origin}:sender:{}", if c.auth { "authorized" } else { "unauthorized" }));
        }
        return;
    }
    // attribution
    *rig = Rig::new(rig.t0);
    rep.stats.inc("rebuilds");
    let mut any = false;
    for c in cases {
        if rep.mismatch_ids.len() >= rep.max_mismatches {
            return;         // enough: the caller stops the run
        }
        let mut c = c.clone();
        c.phase = if fresh { Phase::Pre } else { Phase::Post };
        let (a, b) = *CUR_RANGE.lock().unwrap();
        journal(&json!({"t": "begin", "from": a, "to": b, "single": c.id}));
        any |= run_single(rig, &c, rep);
    }
    if !any {
        let (kind, detail) = problems.remove(0);
        let mut whole = cases[0].clone();
        whole.id = json!(format!("batch:{}..{}", cases[0].id, cases[cases.len() - 1].id));
        rep.mismatch(&whole, kind, format!("only as a batch of {} messages in one frame: {detail}", cases.len()), obs_json(&obs, 0));
        if rep.failing_cases.len() < 200 {
            for c in cases.iter().take(200 - rep.failing_cases.len()) {
                rep.failing_cases.push(c.json());
            }
        }
    }
}

// ------------------------------------------------------------------ generators

struct Rng(u64);
impl Rng {
    fn new(seed: u64, k: u64) -> Self {
        let mut r = Rng(seed.wrapping_mul(0x9E37_79B9_7F4A_7C15) ^ k.wrapping_mul(0xD1B5_4A32_D192_ED03) ^ 0x2545_F491_4F6C_DD1D);
        r.next();
        r.next();
        r
    }
    fn next(&mut self) -> u64 {
        self.0 = self.0.wrapping_add(0x9E37_79B9_7F4A_7C15);
        let mut z = self.0;
        z = (z ^ (z >> 30)).wrapping_mul(0xBF58_476D_1CE4_E5B9);
        z = (z ^ (z >> 27)).wrapping_mul(0x94D0_49BB_1331_11EB);
        z ^ (z >> 31)
    }
    fn below(&mut self, n: u64) -> u64 {
        self.next() % n
    }
    fn byte(&mut self) -> u8 {
        const EDGE: [u8; 12] = [0x00, 0x01, 0x02, 0x07, 0x08, 0x0f, 0x10, 0x7f, 0x80, 0x81, 0xfe, 0xff];
        match self.below(4) {
            0 | 1 => self.next() as u8,
            2 => 0x80 | self.next() as u8,
            _ => EDGE[self.below(12) as usize],
        }
    }
    fn sized(&mut self, max_bits: u32) -> u64 {
        let bits = self.below(max_bits as u64 + 1) as u32;
        if bits == 0 { 0 } else { self.next() >> (64 - bits) }
    }
    fn boundary(&mut self) -> u64 {
        const B: [u64; 20] = [0, 1, 2, 127, 128, 16383, 16384, 65535, 65536, (1 << 31) - 2, (1 << 31) - 1, 1 << 31, u32::MAX as u64 - 1,
                              u32::MAX as u64, 1 << 32, 1 << 40, (1 << 60) - 1, 1 << 60, 1 << 63, u64::MAX];
        B[self.below(20) as usize]
    }
    fn number(&mut self) -> u64 {
        match self.below(3) {
            0 => self.boundary(),
            1 => self.below(6),
            _ => self.sized(64),
        }
    }
}

const SWEEP_STRINGS: u64 = 1 + 256 + 65536;
const SWEEP_TOTAL: u64 = SWEEP_STRINGS * (N_CH as u64) * 2;

fn sweep_case(i: u64) -> Case {
    let s = i % SWEEP_STRINGS;
    let r = i / SWEEP_STRINGS;
    let auth = r % 2 == 0;
    let ch = (r / 2) as usize;
    let bytes = if s == 0 {
        vec![]
    } else if s <= 256 {
        vec![(s - 1) as u8]
    } else {
        let t = s - 257;
        vec![(t / 256) as u8, (t % 256) as u8]
    };
    raw_case(json!(format!("sweep:{i}")), "sweep", ch, auth, Phase::Any, bytes)
}

fn random_case(k: u64, seed: u64, corpus: &Corpus) -> Case {
    let mut rng = Rng::new(seed, k);
    let mut ch = rng.below(N_CH as u64) as usize;
    let auth = rng.below(2) == 0;
    let bytes: Vec<u8> = match k % 4 {
        0 => {
            let len = 3 + rng.below(22) as usize;
            (0..len).map(|_| rng.byte()).collect()
        }
        1 => {
            // a message the real client wrote, mutated; mostly on its own channel
            let (c0, b0, _) = &corpus.items[rng.below(corpus.items.len() as u64) as usize];
            if rng.below(4) != 0 {
                ch = *c0;
            }
            let mut b = b0.clone();
            for _ in 0..rng.below(4) {
                let at = rng.below(b.len().max(1) as u64) as usize;
                match rng.below(8) {
                    0 => b.truncate(at),
                    1 if !b.is_empty() => b[at] ^= 1 << rng.below(8),
                    2 if !b.is_empty() => b[at] = rng.byte(),
                    3 => b.insert(at.min(b.len()), rng.byte()),
                    4 => b.extend((0..rng.below(12)).map(|_| 0xff)),
                    5 => {
                        // a number field replaced by a boundary value
                        let mut v = Vec::new();
                        enc_varint(rng.boundary(), &mut v);
                        let end = (at + 1 + rng.below(3) as usize).min(b.len());
                        b.splice(at.min(b.len())..end, v);
                    }
                    6 => {
                        let mut v = Vec::new();
                        enc_varint(rng.boundary(), &mut v);
                        let mut nb = v;
                        nb.extend_from_slice(&b);
                        b = nb;
                    }
                    _ => b.push(rng.byte()),
                }
            }
            b
        }
        2 => {
            // grammar-aware: count, entities, payload
            if rng.below(4) != 0 {
                ch = [CH_HASH, CH_T1, CH_T2, CH_E2][rng.below(4) as usize];
            }
            let mut b = Vec::new();
            let n = rng.below(5);
            enc_varint(if rng.below(3) == 0 { rng.number() } else { n }, &mut b);
            for _ in 0..n {
                let idx = rng.sized(33);
                let has = rng.below(2);
                enc_varint(if rng.below(6) == 0 { rng.number() } else { (idx << 1) | has }, &mut b);
                if has == 1 {
                    enc_varint(if rng.below(2) == 0 { rng.boundary() } else { rng.sized(32) }, &mut b);
                }
            }
            enc_varint(rng.number(), &mut b);
            for _ in 0..rng.below(4) {
                b.push(rng.byte());
            }
            b
        }
        _ => {
            // long messages: runs of continuation bytes, many acknowledgements, many targets
            let len = 25 + rng.below(2000) as usize;
            match rng.below(4) {
                0 => vec![0xff; len],
                1 => (0..len).map(|_| rng.byte()).collect(),
                2 => {
                    if rng.below(2) == 0 {
                        ch = CH_ACK;
                    }
                    (0..len).map(|i| if rng.below(8) == 0 { rng.byte() } else { ((i / 2) % 7) as u8 * ((i % 2) as u8 ^ 1) }).collect()
                }
                _ => {
                    if rng.below(2) == 0 {
                        ch = CH_T1;
                    }
                    let mut b = Vec::new();
                    enc_varint(len as u64, &mut b);
                    b.extend((0..len).map(|_| (rng.below(64) * 2) as u8));
                    enc_varint(rng.sized(16), &mut b);
                    b
                }
            }
        }
    };
    raw_case(json!(format!("random:{k}")), "random", ch, auth, Phase::Any, bytes)
}

// ------------------------------------------------------------------ main

fn main() {
    let args: Vec<String> = std::env::args().skip(1).collect();
    let mut mode = String::new();
    let mut cases_path: Option<String> = None;
    let mut journal_path: Option<String> = None;
    let (mut from, mut to) = (0u64, u64::MAX);
    let mut batch = 256u64;
    let mut n_random = 0u64;
    let mut seed = 1u64;
    let mut single = false;
    let mut max_mismatches = 200usize;
    let mut i = 0;
    let num = |s: Option<&String>, what: &str| -> u64 { s.and_then(|x| x.parse().ok()).unwrap_or_else(|| tool_error(what)) };
    while i < args.len() {
        match args[i].as_str() {
            "--mode" => {
                mode = args.get(i + 1).cloned().unwrap_or_default();
                i += 1;
            }
            "--cases" => {
                cases_path = args.get(i + 1).cloned();
                i += 1;
            }
            "--journal" => {
                journal_path = args.get(i + 1).cloned();
                i += 1;
            }
            "--from" => {
                from = num(args.get(i + 1), "--from <i>");
                i += 1;
            }
            "--to" => {
                to = num(args.get(i + 1), "--to <j>");
                i += 1;
            }
            "--batch" => {
                batch = num(args.get(i + 1), "--batch <n>").max(1);
                i += 1;
            }
            "--n" => {
                n_random = num(args.get(i + 1), "--n <n>");
                i += 1;
            }
            "--seed" => {
                seed = num(args.get(i + 1), "--seed <s>");
                i += 1;
            }
            "--single" => single = true,
            "--max-mismatches" => {
                max_mismatches = num(args.get(i + 1), "--max-mismatches <n>") as usize;
                i += 1;
            }
            a => tool_error(&format!("unknown argument {a}")),
        }
        i += 1;
    }
    if let Some(p) = &journal_path {
        let f = std::fs::OpenOptions::new().create(true).append(true).open(p).unwrap_or_else(|e| tool_error(&format!("{p}: {e}")));
        *JOURNAL.lock().unwrap() = Some(f);
    }
    panic::set_hook(Box::new(|info| {
        let msg = if let Some(s) = info.payload().downcast_ref::<&str>() {
            s.to_string()
        } else if let Some(s) = info.payload().downcast_ref::<String>() {
            s.clone()
        } else {
            "<non-string panic>".to_string()
        };
        let loc = info
            .location()
            .map(|l| {
                let parts: Vec<&str> = l.file().rsplit('/').take(3).collect();
                format!(" at {}:{}", parts.into_iter().rev().collect::<Vec<_>>().join("/"), l.line())
            })
            .unwrap_or_default();
        let mut g = PANIC_MSG.lock().unwrap();
        if g.is_empty() {
            *g = format!("{msg}{loc}");
        }
    }));
    let t0 = Instant::now();
    start_watchdog(t0);

    let mut rig = Rig::new(t0);
    let mut rep = Report::default();
    rep.max_mismatches = max_mismatches;
    let mut stopped_early: Option<u64> = None;
    let begin = |a: u64, b: u64| {
        *CUR_RANGE.lock().unwrap() = (a, b);
        journal(&json!({"t": "begin", "from": a, "to": b}));
    };
    match mode.as_str() {
        "spec" => {
            let path = cases_path.unwrap_or_else(|| tool_error("--cases <ndjson>"));
            let f = File::open(&path).unwrap_or_else(|e| tool_error(&format!("{path}: {e}")));
            for (k, line) in BufReader::new(f).lines().enumerate() {
                let k = k as u64;
                let line = line.unwrap_or_else(|e| tool_error(&format!("{path}: {e}")));
                if k < from || k > to || line.trim().is_empty() {
                    continue;
                }
                let v: Value = serde_json::from_str(&line).unwrap_or_else(|e| tool_error(&format!("bad case line: {e}")));
                let mut case = parse_case(&v);
                if case.id.is_null() {
                    case.id = json!(k);
                }
                if rep.mismatch_ids.len() >= max_mismatches {
                    stopped_early = Some(k);
                    break;
                }
                begin(k, k);
                run_single(&mut rig, &case, &mut rep);
                if rig.frames > REBUILD_EVERY {
                    rig = Rig::new(t0);
                }
            }
        }
        "corpus" => {
            // every valid message the real client wrote, sent by both attackers: must be received as such
            let items = rig.corpus.items.clone();
            let mut k = 0u64;
            for (ch, bytes, v) in &items {
                for auth in [true, false] {
                    for phase in [Phase::Pre, Phase::Post] {
                        let mut case = raw_case(json!(format!("corpus:{k}")), "corpus", *ch, auth, phase, bytes.clone());
                        let hash_ok = *ch == CH_HASH;
                        let delivered = if *ch == CH_ACK { 0 } else { 1 };
                        case.must = Some(Expect {
                            st: "exact".into(),
                            v: v.clone(),
                            post: Post { auth: auth || hash_ok, inflight: vec![], disc: false, delivered },
                        });
                        if k >= from && k <= to {
                            begin(k, k);
                            run_single(&mut rig, &case, &mut rep);
                        }
                        k += 1;
                    }
                }
            }
        }
        "sweep" | "random" => {
            let total = if mode == "sweep" { SWEEP_TOTAL } else { n_random };
            let b = if single { 1 } else { batch };
            let mut a = from;
            let end = to.min(total.saturating_sub(1));
            let mut nb = 0u64;
            while total > 0 && a <= end {
                if rep.mismatch_ids.len() >= max_mismatches {
                    stopped_early = Some(a);
                    break;
                }
                let z = (a + b - 1).min(end);
                let cases: Vec<Case> = (a..=z).map(|i| if mode == "sweep" { sweep_case(i) } else { random_case(i, seed, &rig.corpus) }).collect();
                begin(a, z);
                if single {
                    let mut c = cases[0].clone();
                    c.phase = if nb % 2 == 0 { Phase::Pre } else { Phase::Post };
                    run_single(&mut rig, &c, &mut rep);
                } else {
                    run_batch(&mut rig, &cases, nb % 2 == 0, &mut rep);
                }
                nb += 1;
                a = z + 1;
                if rig.frames > REBUILD_EVERY {
                    rig = Rig::new(t0);
                }
            }
        }
        "interfere" => {
            // A malformed message must not affect valid messages queued behind it in the same frame on the
            // same channel (from another client): junk from an attacker, then a valid message of the
            // well-behaved client, one server frame, the valid message must be received exactly as sent.
            let items = rig.corpus.items.clone();
            let mut junks: Vec<Vec<u8>> = (0..=255u8).map(|b| vec![b]).collect();
            junks.push(vec![]);
            junks.push(vec![0xff; 3]);
            junks.push(vec![0x80, 0x80, 0x80, 0x80, 0x80, 0x20]);
            junks.push(vec![0x01, 0xff, 0xff, 0xff, 0xff, 0x07]);
            let mut cases = 0u64;
            let mut failures: Vec<Value> = Vec::new();
            let key = |e: &Entry| (e.ch, e.vals.clone(), e.target.map(|t| t.to_bits()));
            'outer: for (ch, bytes, v) in items.iter().filter(|(ch, _, _)| *ch != CH_ACK && *ch != CH_HASH) {
                for (j, junk) in junks.iter().enumerate() {
                    let auth = j % 2 == 0;
                    if cases < from || cases > to {
                        cases += 1;
                        continue;
                    }
                    cases += 1;
                    let ge = rig.entity_of(GOOD);
                    rig.take_log();
                    if !rig.sim.junk_c2s(att_name(auth), *ch, junk.clone()) {
                        rig.reset_att(auth);
                        rig.sim.junk_c2s(att_name(auth), *ch, junk.clone());
                    }
                    rig.sim.junk_c2s(GOOD, *ch, bytes.clone());
                    PANIC_MSG.lock().unwrap().clear();
                    rig.sim.server_frame(false, 0);
                    rig.frames += 1;
                    if rig.sim.server_panicked {
                        failures.push(json!({"ch": ch, "junk": junk, "auth": auth, "what": "panic", "msg": PANIC_MSG.lock().unwrap().clone()}));
                        rig = Rig::new(t0);
                        continue;
                    }
                    let log = rig.take_log();
                    let mut want: Vec<_> = expected_entries(*ch, ge, v).iter().map(key).collect();
                    let mut got: Vec<_> = log.entries.iter().filter(|e| e.client == ge).map(key).collect();
                    want.sort();
                    got.sort();
                    if want != got {
                        failures.push(json!({"ch": ch, "junk": junk, "auth": auth, "what": "valid message behind the junk was not received as sent",
                                             "expected": format!("{want:?}"), "got": format!("{got:?}")}));
                        if failures.len() >= max_mismatches {
                            break 'outer;
                        }
                    }
                    for i in 1..3 {
                        for q in &mut rig.sim.clients[i].s2c {
                            q.clear();
                        }
                    }
                    if rig.frames > REBUILD_EVERY {
                        rig = Rig::new(t0);
                    }
                }
            }
            journal(&json!({"t": "done"}));
            println!("{}", json!({"mode": "interfere", "cases": cases, "failure_count": failures.len(), "failures": failures}));
            return;
        }
        "describe-sweep" | "describe-random" => {
            // the replayable description of generated inputs from..=to (for incidents that killed a run)
            let out: Vec<Value> = (from..=to.min(from + 10_000))
                .map(|i| if mode == "describe-sweep" { sweep_case(i).json() } else { random_case(i, seed, &rig.corpus).json() })
                .collect();
            println!("{}", json!({"mode": mode, "described": out}));
            return;
        }
        m => tool_error(&format!("unknown mode {m:?}")),
    }

    let mut hv = Vec::new();
    enc_varint(rig.hash, &mut hv);
    let out = json!({
        "mode": mode,
        "cases": rep.cases,
        "mismatch_count": rep.mismatch_ids.len(),
        "mismatch_ids": rep.mismatch_ids,
        "mismatch_kinds": rep.mismatch_ids.iter().map(|i| rep.kinds.get(&i.to_string()).cloned().unwrap_or_default()).collect::<Vec<_>>(),
        "mismatches": rep.mismatches,
        "panics": rep.panics,
        "divergence_count": rep.divergence_count,
        "divergences": rep.divergences,
        "failing_cases": rep.failing_cases,
        "counts": rep.stats.counts,
        "max_alloc": rep.stats.max_alloc,
        "max_alloc_id": rep.stats.max_alloc_id,
        "alloc_bound": {"K": ALLOC_K, "C": ALLOC_C},
        "corpus": rig.corpus.items.len(),
        "hash_varint_len": hv.len(),
        "sweep_total": SWEEP_TOTAL,
        "stopped_early": stopped_early,
    });
    journal(&json!({"t": "done"}));
    println!("{out}");
}
