//! C09 buffer replayer: every behaviour of `spec/Buffers.tla` on the real `RepliconClient` and
//! `RepliconServer` resources.
//!
//! usage: c09_buffers <cases.ndjson>
//!
//! Every input line is one behaviour: `{"ops":[op..],"cin":{ch:[n..]},"cout":[[ch,n]..],
//! "sin":{ch:[[peer,n]..]},"sout":[[peer,ch,n]..]}` with ops
//!   `{"op":"c_status","s":S}`            `RepliconClient::set_status`
//!   `{"op":"c_send","ch":c,"n":n}`       `RepliconClient::send` (payload = n)
//!   `{"op":"c_insert","ch":c,"n":n}`     `RepliconClient::insert_received`
//!   `{"op":"c_stat"}`                    `RepliconClient::stats_mut` (all four figures set to non-zero)
//!   `{"op":"c_drain","got":[[ch,n]..]}`  `RepliconClient::drain_sent`, expected result
//!   `{"op":"c_receive","ch":c,"got":[n..]}`  the crate's `receive`, expected result
//!   `{"op":"s_running","b":bool}` / `s_send` / `s_insert` / `s_remove` / `s_drain` / `s_receive` likewise.
//! After every op the whole buffer content is read through the `replicon_verif` accessors and checked
//! against "nothing is buffered while not connected / not running"; drains are compared with `got`; the
//! final content with the spec's final state.
//!
//! Output: one JSON summary line on stdout. Exit 0 = ran to completion, 2 = tool error.
use std::{
    fs,
    panic::{AssertUnwindSafe, catch_unwind},
};

use bevy::prelude::*;
use bevy_replicon::prelude::*;
use bytes::Bytes;
use serde_json::{Value, json};

const CHANNELS: usize = 3;

fn payload(n: u64) -> Bytes {
    Bytes::from((n as u32).to_le_bytes().to_vec())
}

fn num(b: &Bytes) -> u64 {
    let mut a = [0u8; 4];
    a.copy_from_slice(&b[..4]);
    u32::from_le_bytes(a) as u64
}

fn peer(p: u64) -> Entity {
    Entity::from_raw(p as u32)
}

fn u(v: &Value) -> u64 {
    v.as_u64().expect("number")
}

fn chan_map(v: &Value, f: impl Fn(&Value) -> Value) -> Vec<Vec<Value>> {
    let mut out = vec![Vec::new(); CHANNELS];
    match v {
        Value::Object(m) => {
            for (k, list) in m {
                let c: usize = k.parse().expect("channel key");
                out[c] = list.as_array().expect("list").iter().map(&f).collect();
            }
        }
        // a function with domain 1..n is written as an array by the Json module
        Value::Array(a) => {
            for (i, list) in a.iter().enumerate() {
                out[i + 1] = list.as_array().expect("list").iter().map(&f).collect();
            }
        }
        _ => panic!("channel map"),
    }
    out
}

struct Real {
    client: RepliconClient,
    server: RepliconServer,
}

impl Real {
    fn new() -> Self {
        let mut client = RepliconClient::default();
        client.verif_setup_server_channels(CHANNELS);
        let mut server = RepliconServer::default();
        server.verif_setup_client_channels(CHANNELS);
        Self { client, server }
    }

    fn cin(&self) -> Vec<Vec<Value>> {
        self.client
            .verif_received()
            .iter()
            .map(|c| c.iter().map(|b| json!(num(b))).collect())
            .collect()
    }
    fn cout(&self) -> Vec<Value> {
        self.client
            .verif_sent()
            .iter()
            .map(|(c, b)| json!([c, num(b)]))
            .collect()
    }
    fn sin(&self) -> Vec<Vec<Value>> {
        self.server
            .verif_received()
            .iter()
            .map(|c| c.iter().map(|(e, b)| json!([e.index(), num(b)])).collect())
            .collect()
    }
    fn sout(&self) -> Vec<Value> {
        self.server
            .verif_sent()
            .iter()
            .map(|(e, c, b)| json!([e.index(), c, num(b)]))
            .collect()
    }

    fn stats_dirty(&self) -> bool {
        let stats = self.client.stats();
        stats.rtt != 0.0 || stats.packet_loss != 0.0 || stats.sent_bps != 0.0 || stats.received_bps != 0.0
    }

    /// Applies one op; returns a description of the disagreement with the expected result, if any.
    fn apply(&mut self, op: &Value) -> Option<Value> {
        let name = op["op"].as_str().expect("op");
        let got: Option<Value> = match name {
            "c_status" => {
                let s = match op["s"].as_str().expect("s") {
                    "Disconnected" => RepliconClientStatus::Disconnected,
                    "Connecting" => RepliconClientStatus::Connecting,
                    "Connected" => RepliconClientStatus::Connected,
                    other => panic!("status {other}"),
                };
                self.client.set_status(s);
                if self.client.status() != s {
                    return Some(json!({"what": "status not taken"}));
                }
                None
            }
            "c_stat" => {
                let stats = self.client.stats_mut();
                stats.rtt = 0.25;
                stats.packet_loss = 1.0;
                stats.sent_bps = 100.0;
                stats.received_bps = 200.0;
                None
            }
            "c_send" => {
                self.client.send(u(&op["ch"]) as usize, payload(u(&op["n"])));
                None
            }
            "c_insert" => {
                self.client
                    .insert_received(u(&op["ch"]) as usize, payload(u(&op["n"])));
                None
            }
            "c_drain" => Some(Value::Array(
                self.client
                    .drain_sent()
                    .map(|(c, b)| json!([c, num(&b)]))
                    .collect(),
            )),
            "c_receive" => Some(Value::Array(
                self.client
                    .verif_receive(u(&op["ch"]) as usize)
                    .iter()
                    .map(|b| json!(num(b)))
                    .collect(),
            )),
            "s_running" => {
                let b = op["b"].as_bool().expect("b");
                self.server.set_running(b);
                if self.server.is_running() != b {
                    return Some(json!({"what": "running flag not taken"}));
                }
                None
            }
            "s_send" => {
                self.server.send(
                    peer(u(&op["peer"])),
                    u(&op["ch"]) as usize,
                    payload(u(&op["n"])),
                );
                None
            }
            "s_insert" => {
                self.server.insert_received(
                    peer(u(&op["peer"])),
                    u(&op["ch"]) as usize,
                    payload(u(&op["n"])),
                );
                None
            }
            "s_remove" => {
                self.server.verif_remove_client(peer(u(&op["peer"])));
                None
            }
            "s_drain" => Some(Value::Array(
                self.server
                    .drain_sent()
                    .map(|(e, c, b)| json!([e.index(), c, num(&b)]))
                    .collect(),
            )),
            "s_receive" => Some(Value::Array(
                self.server
                    .verif_receive(u(&op["ch"]) as usize)
                    .iter()
                    .map(|(e, b)| json!([e.index(), num(b)]))
                    .collect(),
            )),
            other => panic!("unknown op {other}"),
        };
        if let Some(got) = got {
            if got != op["got"] {
                return Some(json!({"what": "drained messages differ", "expected": op["got"], "got": got}));
            }
        }
        // state monitor on the real buffers (C09): nothing buffered without a connection / while stopped
        if !self.client.is_connected()
            && (!self.cout().is_empty() || self.cin().iter().any(|c| !c.is_empty()))
        {
            return Some(json!({"what": "client buffers hold messages while not connected",
                               "cout": self.cout(), "cin": self.cin()}));
        }
        if !self.client.is_connected() && self.stats_dirty() {
            return Some(json!({"what": "client statistics of the ended session are still there while not connected"}));
        }
        if !self.server.is_running()
            && (!self.sout().is_empty() || self.sin().iter().any(|c| !c.is_empty()))
        {
            return Some(json!({"what": "server buffers hold messages while not running",
                               "sout": self.sout(), "sin": self.sin()}));
        }
        None
    }
}

fn run_case(case: &Value) -> Result<usize, Value> {
    let ops = case["ops"].as_array().expect("ops");
    let mut real = Real::new();
    for (i, op) in ops.iter().enumerate() {
        if let Some(mut m) = real.apply(op) {
            m["step"] = json!(i);
            m["op"] = op.clone();
            return Err(m);
        }
    }
    let exp_cin = chan_map(&case["cin"], |v| v.clone());
    let exp_sin = chan_map(&case["sin"], |v| v.clone());
    let checks = [
        ("cin", json!(exp_cin), json!(real.cin())),
        ("cout", case["cout"].clone(), json!(real.cout())),
        ("sin", json!(exp_sin), json!(real.sin())),
        ("sout", case["sout"].clone(), json!(real.sout())),
    ];
    if let Some(d) = case["cdirty"].as_bool() {
        if d != real.stats_dirty() {
            return Err(json!({"what": "final client statistics differ", "expected": d, "got": real.stats_dirty(), "step": ops.len()}));
        }
    }
    for (name, exp, got) in checks {
        if exp != got {
            return Err(json!({"what": format!("final content of {name} differs"), "expected": exp, "got": got, "step": ops.len()}));
        }
    }
    Ok(ops.len())
}

fn main() {
    let args: Vec<String> = std::env::args().collect();
    if args.len() < 2 {
        eprintln!("usage: c09_buffers <cases.ndjson>");
        std::process::exit(2);
    }
    let text = match fs::read_to_string(&args[1]) {
        Ok(t) => t,
        Err(e) => {
            eprintln!("cannot read {}: {e}", args[1]);
            std::process::exit(2);
        }
    };
    std::panic::set_hook(Box::new(|_| {}));
    let (mut cases, mut ops) = (0usize, 0usize);
    let mut mismatches = Vec::new();
    for (idx, line) in text.lines().filter(|l| !l.trim().is_empty()).enumerate() {
        let case: Value = match serde_json::from_str(line) {
            Ok(v) => v,
            Err(e) => {
                eprintln!("line {idx}: {e}");
                std::process::exit(2);
            }
        };
        cases += 1;
        match catch_unwind(AssertUnwindSafe(|| run_case(&case))) {
            Ok(Ok(n)) => ops += n,
            Ok(Err(mut m)) => {
                m["case"] = json!(idx);
                mismatches.push(m);
            }
            Err(_) => mismatches.push(json!({"case": idx, "what": "panic in the code under test"})),
        }
    }
    println!(
        "{}",
        json!({"cases": cases, "ops": ops, "mismatch_count": mismatches.len(),
               "mismatches": mismatches.into_iter().take(20).collect::<Vec<_>>()})
    );
}
