//! C12 replayer: runs TLC-generated cases of spec/TickConfirm*.tla on the real
//! `ConfirmHistory`, `ServerMutateTicks` and `RepliconTick` and compares every observation
//! with what the specification's reference says.
//!
//! usage: c12_replay <cases.ndjson> [base,base,...]
//!
//! One JSON case per line (see `CaseRec` in TickConfirmCH/MT.tla and `EmitCase` in TickConfirmTO.tla):
//!   CH: {"m":"CH","hist":[t0,t1..],"last":L,"mask":[bits],"qp":[..],"pt":[0/1..],"rg":[[0/1..]..]}
//!       new(base+t0); confirm(base+t1) ...; then last_tick, mask, contains(qp[i]) = pt[i],
//!       contains_any(qp[i], qp[i+j]) = rg[i][j].
//!   MT: the same plus "anch" (start from default + confirm(base, 1); un-anchored cases run at base 0
//!       only, because a fresh tracker's last tick is the absolute tick 0), hist = [[t,k]..] and
//!       "ret": what the LAST confirm must return ("T", "F", "*" = free).
//!   TO: {"m":"TO","bhi","blo","x","d","exp"}: a = (bhi<<16|blo)+x, b = a+d (wrapping); a.cmp(&b) = exp.
//! Tick values in CH/MT cases are offsets; the replayer adds each base (wrapping u32).
//! A panic of the code under test is an observation (value 2 / "panic"), never a crash.
//!
//! stdout: one JSON summary line. exit 0 = ran to completion, 2 = tool error.
use std::{
    cmp::Ordering,
    collections::{BTreeMap, BTreeSet},
    fs::File,
    io::{BufRead, BufReader},
    panic::{AssertUnwindSafe, catch_unwind},
};

use bevy_replicon::{
    client::{confirm_history::ConfirmHistory, server_mutate_ticks::ServerMutateTicks},
    shared::replicon_tick::RepliconTick,
};
use serde::Deserialize;
use serde_json::{Value, json};

#[derive(Deserialize)]
struct HistCase {
    #[serde(default)]
    anch: bool,
    hist: Vec<Value>,
    #[serde(default)]
    ret: Option<String>,
    last: i64,
    mask: Vec<u32>,
    qp: Vec<i64>,
    pt: Vec<u8>,
    rg: Vec<Vec<u8>>,
}

#[derive(Deserialize)]
struct ToCase {
    bhi: u32,
    blo: u32,
    x: i64,
    d: i64,
    exp: String,
}

fn tick(base: u32, off: i64) -> RepliconTick {
    RepliconTick::new(base.wrapping_add(off as u32))
}

fn bits(mask: &[u32]) -> u64 {
    mask.iter().fold(0u64, |m, b| m | (1u64 << b))
}

/// Runs `f`, mapping a panic to `None`.
fn guard<T>(f: impl FnOnce() -> T) -> Option<T> {
    catch_unwind(AssertUnwindSafe(f)).ok()
}

struct Out {
    cases: u64,
    runs: u64,
    observations: u64,
    mismatch_count: u64,
    mismatches: Vec<Value>,
    /// per mismatching case: its line index and the kinds of observation that differed
    mismatch_cases: Vec<(u64, BTreeSet<String>)>,
    panic_count: u64,
    panics: Vec<Value>,
    classes: BTreeMap<String, u64>,
}

impl Out {
    fn class(&mut self, name: &str) {
        *self.classes.entry(name.to_string()).or_default() += 1;
    }
    fn mismatch(&mut self, case: u64, base: u32, what: Value) {
        self.mismatch_count += 1;
        let mut kind = what["what"].as_str().unwrap_or("?").to_string();
        if what["got"] == json!(2) || what["got"] == json!("panic") {
            kind.push_str(":panic");
        }
        if kind.starts_with("contains_any") {
            if let (Some(a), Some(b), Some(last)) = (what["a"].as_i64(), what["b"].as_i64(), what["last"].as_i64()) {
                if a == last - 63 && b >= last {
                    kind.push_str(":whole_window");
                }
            }
        }
        if self.mismatch_cases.last().map(|c| c.0) != Some(case) {
            self.mismatch_cases.push((case, BTreeSet::new()));
        }
        self.mismatch_cases.last_mut().unwrap().1.insert(kind);
        if self.mismatches.len() < 20 {
            let mut w = what;
            w["case"] = json!(case);
            w["base"] = json!(base);
            self.mismatches.push(w);
        }
    }
    fn panic(&mut self, case: u64, base: u32, what: Value) {
        self.panic_count += 1;
        if self.panics.len() < 20 {
            let mut w = what;
            w["case"] = json!(case);
            w["base"] = json!(base);
            self.panics.push(w);
        }
    }
}

/// The read-only API shared by `ConfirmHistory` and `ServerMutateTicks`.
trait Hist {
    fn last(&self) -> RepliconTick;
    fn mask_(&self) -> u64;
    fn has(&self, t: RepliconTick) -> bool;
    fn any(&self, a: RepliconTick, b: RepliconTick) -> bool;
}
impl Hist for ConfirmHistory {
    fn last(&self) -> RepliconTick {
        self.last_tick()
    }
    fn mask_(&self) -> u64 {
        self.mask()
    }
    fn has(&self, t: RepliconTick) -> bool {
        self.contains(t)
    }
    fn any(&self, a: RepliconTick, b: RepliconTick) -> bool {
        self.contains_any(a, b)
    }
}
impl Hist for ServerMutateTicks {
    fn last(&self) -> RepliconTick {
        self.last_tick()
    }
    fn mask_(&self) -> u64 {
        self.mask()
    }
    fn has(&self, t: RepliconTick) -> bool {
        self.contains(t)
    }
    fn any(&self, a: RepliconTick, b: RepliconTick) -> bool {
        self.contains_any(a, b)
    }
}

/// Compares last tick, mask and all queries of the case with the real object.
fn check_queries(o: &mut Out, idx: u64, base: u32, c: &HistCase, h: &dyn Hist) {
    let n = c.qp.len();
    if c.pt.len() != n || c.rg.len() != n {
        tool_error(&format!("case {idx}: pt/rg shape does not match qp"));
    }
    let want_last = base.wrapping_add(c.last as u32);
    match guard(|| h.last().get()) {
        Some(got) if got == want_last => {}
        got => o.mismatch(idx, base, json!({"what": "last_tick", "got": got, "want": want_last})),
    }
    let want_mask = bits(&c.mask);
    match guard(|| h.mask_()) {
        Some(got) if got == want_mask => {}
        got => o.mismatch(
            idx,
            base,
            json!({"what": "mask", "got": got.map(|m| format!("{m:#x}")), "want": format!("{want_mask:#x}")}),
        ),
    }
    o.observations += 2;
    for i in 0..n {
        let t = tick(base, c.qp[i]);
        let got = guard(|| h.has(t)).map(|b| b as u8).unwrap_or(2);
        o.observations += 1;
        if got == 2 {
            o.panic(idx, base, json!({"what": "contains", "t": c.qp[i]}));
        }
        if got != c.pt[i] {
            o.mismatch(idx, base, json!({"what": "contains", "t": c.qp[i], "got": got, "want": c.pt[i]}));
        }
        if c.rg[i].len() != n - i {
            tool_error(&format!("case {idx}: rg[{i}] has wrong length"));
        }
        for j in 0..(n - i) {
            let (a, b) = (c.qp[i], c.qp[i + j]);
            let (ta, tb) = (tick(base, a), tick(base, b));
            let got = guard(|| h.any(ta, tb)).map(|b| b as u8).unwrap_or(2);
            o.observations += 1;
            if a == c.last - 63 && b >= c.last {
                o.class("range_covers_whole_window");
            }
            if got == 2 {
                o.panic(idx, base, json!({"what": "contains_any", "a": a, "b": b, "last": c.last}));
            }
            if got != c.rg[i][j] {
                o.mismatch(
                    idx,
                    base,
                    json!({"what": "contains_any", "a": a, "b": b, "last": c.last, "got": got, "want": c.rg[i][j]}),
                );
            }
        }
    }
}

fn run_ch(o: &mut Out, idx: u64, base: u32, c: &HistCase) {
    let ticks: Vec<i64> = c
        .hist
        .iter()
        .map(|v| v.as_i64().unwrap_or_else(|| tool_error("CH hist entry is not an integer")))
        .collect();
    if ticks.is_empty() {
        tool_error("CH case with empty hist");
    }
    let Some(mut h) = guard(|| ConfirmHistory::new(tick(base, ticks[0]))) else {
        o.panic(idx, base, json!({"what": "new"}));
        o.mismatch(idx, base, json!({"what": "new", "got": "panic"}));
        return;
    };
    let mut newest = ticks[0];
    for (step, &t) in ticks.iter().enumerate().skip(1) {
        let d = t - newest;
        if d >= 64 {
            o.class("ch_step_gap_ge_64");
        } else if d > 0 {
            o.class("ch_step_newer_in_window");
        } else if d > -64 {
            o.class("ch_step_older_in_window");
        } else {
            o.class("ch_step_older_than_window");
        }
        newest = newest.max(t);
        if guard(|| h.confirm(tick(base, t))).is_none() {
            o.panic(idx, base, json!({"what": "confirm", "step": step, "t": t}));
            o.mismatch(idx, base, json!({"what": "confirm", "step": step, "t": t, "got": "panic"}));
            return;
        }
    }
    check_queries(o, idx, base, c, &h);
}

fn run_mt(o: &mut Out, idx: u64, base: u32, c: &HistCase) {
    let mut m = ServerMutateTicks::default();
    if c.anch {
        // Move the fresh tracker (last tick = absolute 0, nothing received) to "last = base, base received".
        if base > 0x7FFF_FFFF {
            if base - 0x7FFF_FFFF < 64 || base == u32::MAX {
                tool_error("unsupported base for anchored MT cases");
            }
            let _ = guard(|| m.confirm(RepliconTick::new(0x7FFF_FFFF), 1));
        } else if base != 0 && base < 64 {
            tool_error("unsupported base for anchored MT cases");
        }
        let r = guard(|| m.confirm(RepliconTick::new(base), 1));
        if r != Some(true) {
            o.mismatch(idx, base, json!({"what": "anchor confirm", "got": r, "want": true}));
            return;
        }
    } else if base != 0 {
        return; // not applicable
    }
    let mut newest = 0i64;
    let last_step = c.hist.len();
    for (step, v) in c.hist.iter().enumerate() {
        let (t, k) = match (v.get(0).and_then(Value::as_i64), v.get(1).and_then(Value::as_u64)) {
            (Some(t), Some(k)) => (t, k as usize),
            _ => tool_error("MT hist entry is not [tick, count]"),
        };
        let d = t - newest;
        if d >= 64 {
            o.class("mt_step_gap_ge_64");
        } else if d > 0 {
            o.class("mt_step_newer_in_window");
        } else if d > -64 {
            o.class("mt_step_older_in_window");
        } else {
            o.class("mt_step_older_than_window");
        }
        newest = newest.max(t);
        let got = guard(|| m.confirm(tick(base, t), k));
        let Some(got) = got else {
            o.panic(idx, base, json!({"what": "confirm", "step": step + 1, "t": t, "k": k}));
            o.mismatch(idx, base, json!({"what": "confirm", "step": step + 1, "t": t, "k": k, "got": "panic"}));
            return;
        };
        if step + 1 == last_step {
            o.observations += 1;
            let want = c.ret.as_deref().unwrap_or("*");
            o.class(&format!("mt_ret_{want}"));
            let ok = match want {
                "T" => got,
                "F" => !got,
                "*" => true,
                _ => tool_error("bad ret"),
            };
            if !ok {
                o.mismatch(idx, base, json!({"what": "confirm return", "t": t, "k": k, "got": got, "want": want}));
            }
        }
    }
    check_queries(o, idx, base, c, &m);
}

fn ord_name(o: Ordering) -> &'static str {
    match o {
        Ordering::Less => "Less",
        Ordering::Equal => "Equal",
        Ordering::Greater => "Greater",
    }
}

fn run_to(o: &mut Out, idx: u64, c: &ToCase) {
    let base = (c.bhi << 16) | c.blo;
    let a = tick(base, c.x);
    let b = RepliconTick::new(a.get().wrapping_add(c.d as u32));
    let want = match c.exp.as_str() {
        "Less" => Ordering::Less,
        "Equal" => Ordering::Equal,
        "Greater" => Ordering::Greater,
        _ => tool_error("bad exp"),
    };
    o.class(&format!("to_{}", c.exp));
    let got = guard(|| {
        (
            a.cmp(&b),
            b.cmp(&a),
            a.partial_cmp(&b),
            [a < b, a <= b, a == b, a >= b, a > b],
        )
    });
    o.observations += 1;
    let Some((ab, ba, pab, ops)) = got else {
        o.panic(idx, base, json!({"what": "cmp", "x": c.x, "d": c.d}));
        o.mismatch(idx, base, json!({"what": "cmp", "x": c.x, "d": c.d, "got": "panic"}));
        return;
    };
    let want_ops = [
        want == Ordering::Less,
        want != Ordering::Greater,
        want == Ordering::Equal,
        want != Ordering::Less,
        want == Ordering::Greater,
    ];
    if ab != want || ba != want.reverse() || pab != Some(want) || ops != want_ops {
        o.mismatch(
            idx,
            base,
            json!({"what": "cmp", "x": c.x, "d": c.d, "a": a.get(), "b": b.get(),
                   "got": ord_name(ab), "got_rev": ord_name(ba), "ops": ops, "want": c.exp}),
        );
    }
}

fn tool_error(msg: &str) -> ! {
    eprintln!("c12_replay: tool error: {msg}");
    std::process::exit(2);
}

fn main() {
    let args: Vec<String> = std::env::args().collect();
    let Some(path) = args.get(1) else {
        tool_error("usage: c12_replay <cases.ndjson> [base,base,...]");
    };
    let bases: Vec<u32> = match args.get(2) {
        Some(s) => s
            .split(',')
            .map(|b| b.trim().parse::<u32>().unwrap_or_else(|_| tool_error("bad base")))
            .collect(),
        None => vec![0, (1u32 << 31) - 70, u32::MAX - 69],
    };
    let file = File::open(path).unwrap_or_else(|e| tool_error(&format!("{path}: {e}")));
    std::panic::set_hook(Box::new(|_| {})); // panics of the code under test are data; keep stderr quiet
    let mut o = Out {
        cases: 0,
        runs: 0,
        observations: 0,
        mismatch_count: 0,
        mismatches: vec![],
        mismatch_cases: vec![],
        panic_count: 0,
        panics: vec![],
        classes: BTreeMap::new(),
    };
    for (idx, line) in BufReader::new(file).lines().enumerate() {
        let line = line.unwrap_or_else(|e| tool_error(&format!("read: {e}")));
        if line.trim().is_empty() {
            continue;
        }
        let idx = idx as u64;
        let v: Value = serde_json::from_str(&line).unwrap_or_else(|e| tool_error(&format!("line {idx}: {e}")));
        let kind = v.get("m").and_then(Value::as_str).unwrap_or("").to_string();
        o.cases += 1;
        match kind.as_str() {
            "CH" | "MT" => {
                let c: HistCase =
                    serde_json::from_value(v).unwrap_or_else(|e| tool_error(&format!("line {idx}: {e}")));
                for &base in &bases {
                    if kind == "CH" {
                        o.runs += 1;
                        run_ch(&mut o, idx, base, &c);
                    } else {
                        if c.anch || base == 0 {
                            o.runs += 1;
                        }
                        run_mt(&mut o, idx, base, &c);
                    }
                }
                if kind == "MT" && !c.anch && !bases.contains(&0) {
                    tool_error("un-anchored MT case needs base 0");
                }
            }
            "TO" => {
                let c: ToCase = serde_json::from_value(v).unwrap_or_else(|e| tool_error(&format!("line {idx}: {e}")));
                o.runs += 1;
                run_to(&mut o, idx, &c);
            }
            _ => tool_error(&format!("line {idx}: unknown mechanism {kind:?}")),
        }
    }
    println!(
        "{}",
        json!({
            "cases": o.cases, "runs": o.runs, "observations": o.observations, "bases": bases,
            "mismatch_count": o.mismatch_count, "mismatches": o.mismatches, "mismatch_cases": o.mismatch_cases,
            "panic_count": o.panic_count, "panics": o.panics, "classes": o.classes,
        })
    );
}
