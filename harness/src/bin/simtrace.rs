//! Random drivers: writes NDJSON traces of real executions for TLC trace validation.
//!
//! usage: simtrace <profile> <runs> <seed> <out.ndjson>
use std::{fs::File, io::BufWriter};

use verif_harness::{driver::*, model::Cfg};

fn main() {
    let args: Vec<String> = std::env::args().collect();
    let profile = args.get(1).map(String::as_str).unwrap_or("core");
    let runs: u64 = args.get(2).and_then(|s| s.parse().ok()).unwrap_or(10);
    let seed: u64 = args.get(3).and_then(|s| s.parse().ok()).unwrap_or(1);
    let out = args.get(4).cloned().unwrap_or_else(|| "trace.ndjson".into());
    let mut tr = Trace::new(BufWriter::new(File::create(&out).expect("create trace file")));
    let mut tool_errors = Vec::new();
    let mut panics = 0;
    for run in 0..runs {
        let s = seed.wrapping_mul(1_000_003).wrapping_add(run);
        let mut rng = Rng::new(s ^ 0xABCDEF);
        let (cfg, prof) = match profile {
            "core" => {
                let n = 1 + rng.below(2);
                (
                    Cfg {
                        ents: vec!["e1".into(), "e2".into(), "e3".into()],
                        clients: (1..=n).map(|i| format!("c{i}")).collect(),
                        max_size: vec![1200; n],
                        ..Default::default()
                    },
                    Profile { steps: 50, comps: vec!["A", "B"], ..Default::default() },
                )
            }
            "rates" => (
                Cfg { ents: vec!["e1".into(), "e2".into()], ..Default::default() },
                Profile { steps: 50, comps: vec!["A", "P", "O"], ..Default::default() },
            ),
            "vis" => {
                let n = 1 + rng.below(2);
                (
                    Cfg {
                        ents: vec!["e1".into(), "e2".into(), "e3".into()],
                        clients: (1..=n).map(|i| format!("c{i}")).collect(),
                        max_size: vec![1200; n],
                        policy: if rng.chance(1, 2) { "black".into() } else { "white".into() },
                        ..Default::default()
                    },
                    Profile { steps: 50, comps: vec!["A", "B"], vis: true, ..Default::default() },
                )
            }
            "sess" => (
                Cfg { ents: vec!["e1".into(), "e2".into(), "e3".into()], ..Default::default() },
                Profile { steps: 50, comps: vec!["A", "B"], sess: true, ..Default::default() },
            ),
            p => panic!("unknown profile {p}"),
        };
        let sim = random_run(&mut tr, cfg, &prof, s, run);
        if sim.server_panicked || sim.clients.iter().any(|c| c.panicked) {
            panics += 1;
        }
        tool_errors.extend(sim.tool_errors.iter().cloned());
    }
    eprintln!("simtrace: profile={profile} runs={runs} lines={} panics={panics} tool_errors={}", tr.lines, tool_errors.len());
    for e in tool_errors.iter().take(5) {
        eprintln!("TOOL-ERROR {e}");
    }
    if !tool_errors.is_empty() {
        std::process::exit(2);
    }
}
