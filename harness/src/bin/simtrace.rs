//! Random drivers: writes NDJSON traces of real executions for TLC trace validation.
//!
//! usage: simtrace <profile> <runs> <seed> <out.ndjson>
use std::{fs::File, io::BufWriter};

use verif_harness::{driver::*, model::Cfg};

fn main() {
    let args: Vec<String> = std::env::args().collect();
    let profile = args.get(1).map(String::as_str).unwrap_or("core");
    let runs: u64 = args.get(2).and_then(|s| s.parse().ok()).unwrap_or(10);
    let seed: u64 = args.get(3).and_then(|s| s.parse().ok()).unwrap_or(1);
    let out = args.get(4).cloned().unwrap_or_else(|| "trace.ndjson".into());
    let mut tr = Trace::new(BufWriter::new(File::create(&out).expect("create trace file")));
    let mut tool_errors = Vec::new();
    let mut panics = 0;
    // scripted histories that exhibit the open known findings (so that every run of the checks prints them)
    if profile == "kf_f17" || profile == "kf_f20" {
        use serde_json::json;
        use verif_harness::sim::Sim;
        let cfg = if profile == "kf_f17" {
            Cfg { ents: vec!["e1".into(), "e2".into()], rel: true, ..Default::default() }
        } else {
            Cfg { ents: vec!["e1".into()], policy: "black".into(), ..Default::default() }
        };
        let mut sim = Sim::new(cfg);
        tr.start_run(&sim, 0, json!({"scripted": profile}));
        tr.step(&mut sim, "SrvFrame", json!({"tick": false, "dt": 0}));
        tr.step(&mut sim, "Connect", json!({"c": "c1"}));
        if profile == "kf_f17" {
            // parent e1, child e2; the client knows the hierarchy; detach the child and despawn the parent
            // within one tick window
            tr.step(&mut sim, "Spawn", json!({"e": "e1", "comps": ["A"], "repl": true}));
            tr.step(&mut sim, "Spawn", json!({"e": "e2", "comps": ["A"], "repl": true}));
            tr.step(&mut sim, "Relate", json!({"e": "e2", "p": "e1"}));
            tr.sync(&mut sim);
            tr.step(&mut sim, "Unrelate", json!({"e": "e2"}));
            tr.step(&mut sim, "SrvFrame", json!({"tick": false, "dt": 0}));
            tr.step(&mut sim, "Despawn", json!({"e": "e1"}));
        } else {
            // hide an entity from the client, then remove its marker while it stays alive
            tr.step(&mut sim, "Spawn", json!({"e": "e1", "comps": ["A"], "repl": true}));
            tr.sync(&mut sim);
            tr.step(&mut sim, "SetVis", json!({"c": "c1", "e": "e1", "v": false}));
            tr.sync(&mut sim);
            tr.step(&mut sim, "Unmark", json!({"e": "e1"}));
        }
        tr.settle(&mut sim, 3);
        eprintln!("simtrace: profile={profile} runs=1 lines={} panics=0 tool_errors={}", tr.lines, sim.tool_errors.len());
        return;
    }
    for run in 0..runs {
        let s = seed.wrapping_mul(1_000_003).wrapping_add(run);
        let mut rng = Rng::new(s ^ 0xABCDEF);
        // one configuration per file: the trace validator takes its constants from the first line
        let three = || vec!["e1".to_string(), "e2".into(), "e3".into()];
        let clients = |n: usize| (1..=n).map(|i| format!("c{i}")).collect::<Vec<_>>();
        let (cfg, prof) = match profile {
            "core" => (
                Cfg { ents: three(), ..Default::default() },
                Profile { steps: 50, comps: vec!["A", "B"], ..Default::default() },
            ),
            "core2" => (
                Cfg { ents: three(), clients: clients(2), max_size: vec![1200; 2], ..Default::default() },
                Profile { steps: 60, comps: vec!["A", "B"], ..Default::default() },
            ),
            "every" => (
                // TickPolicy::EveryFrame: the plugin's own increment_tick system drives the tick
                Cfg { ents: three(), clients: clients(2), max_size: vec![1200; 2], every_frame: true, ..Default::default() },
                Profile { steps: 60, comps: vec!["A", "B", "O"], sess: true, ..Default::default() },
            ),
            "split" => (
                // small maximum message size and padded components: one tick's mutations need several messages
                Cfg { ents: three(), clients: clients(2), max_size: vec![100, 220], ..Default::default() },
                Profile { steps: 60, comps: vec!["A", "B"], pad: 40, marks: false, ..Default::default() },
            ),
            "track" => (
                // per-tick mutate-message tracking on, several messages per tick
                Cfg { ents: three(), clients: clients(2), max_size: vec![100, 220], track: true, ..Default::default() },
                Profile { steps: 60, comps: vec!["A", "B"], pad: 40, marks: false, ..Default::default() },
            ),
            "timeout" => (
                // acknowledgement timeout shorter than the round trip; several messages per tick
                Cfg { ents: three(), clients: clients(2), max_size: vec![100, 220], timeout_ms: 100, ..Default::default() },
                Profile { steps: 70, comps: vec!["A", "B"], pad: 40, dt: 60, marks: false, ..Default::default() },
            ),
            "rates" => (
                Cfg { ents: vec!["e1".into(), "e2".into()], ..Default::default() },
                Profile { steps: 50, comps: vec!["A", "P", "O"], ..Default::default() },
            ),
            "vis_black" | "vis_white" => (
                Cfg {
                    ents: three(),
                    clients: clients(2),
                    max_size: vec![1200; 2],
                    policy: if profile == "vis_black" { "black".into() } else { "white".into() },
                    ..Default::default()
                },
                Profile { steps: 60, comps: vec!["A", "B"], vis: true, marks: false, ..Default::default() },
            ),
            "events" | "events_custom" => (
                Cfg {
                    ents: vec!["e1".into(), "e2".into()],
                    clients: clients(2),
                    max_size: vec![1200; 2],
                    events: true,
                    auth: if profile == "events" { "none".into() } else { "custom".into() },
                    ..Default::default()
                },
                Profile { steps: 70, comps: vec!["A", "O"], marks: false, events: true, sess: profile == "events", ..Default::default() },
            ),
            "rel" | "rel_kf" => (
                Cfg { ents: three(), clients: clients(2), max_size: vec![1200; 2], rel: true, ..Default::default() },
                Profile { steps: 60, comps: vec!["A"], rel: true, marks: false, clean: profile == "rel", ..Default::default() },
            ),
            // relations with a small maximum message size: the entities of one relation graph share a message
            "rel_split" => (
                Cfg { ents: vec!["e1".into(), "e2".into(), "e3".into(), "e4".into()], clients: clients(2), max_size: vec![100, 220], rel: true, ..Default::default() },
                Profile { steps: 70, comps: vec!["A", "B"], pad: 40, rel: true, marks: false, clean: true, ..Default::default() },
            ),
            // relations across disconnects, reconnects and server restarts
            "rel_sess" => (
                Cfg { ents: three(), clients: clients(2), max_size: vec![1200; 2], rel: true, ..Default::default() },
                Profile { steps: 70, comps: vec!["A"], rel: true, sess: true, marks: false, clean: true, ..Default::default() },
            ),
            // relations together with visibility and marker changes (known finding F17 is not avoided)
            "rel_vis" => (
                Cfg { ents: three(), clients: clients(2), max_size: vec![1200; 2], rel: true, policy: "black".into(), ..Default::default() },
                Profile { steps: 60, comps: vec!["A"], rel: true, vis: true, marks: true, ..Default::default() },
            ),
            // pre-spawned entities together with relations and visibility: a mapping may arrive for a server entity
            // the client only knows as a reference (placeholder)
            "pre_rel" => (
                Cfg { ents: three(), clients: clients(2), max_size: vec![1200; 2], rel: true, policy: "black".into(), ..Default::default() },
                Profile { steps: 70, comps: vec!["A"], pre: true, rel: true, vis: true, marks: false, clean: true, ..Default::default() },
            ),
            "prespawn" => (
                Cfg { ents: three(), clients: clients(2), max_size: vec![1200; 2], ..Default::default() },
                Profile { steps: 70, comps: vec!["A", "B"], pre: true, ..Default::default() },
            ),
            "sess" => (
                Cfg { ents: three(), clients: clients(2), max_size: vec![1200; 2], ..Default::default() },
                Profile { steps: 70, comps: vec!["A", "B", "O"], sess: true, ..Default::default() },
            ),
            p => panic!("unknown profile {p}"),
        };
        let _ = &mut rng;
        let sim = random_run(&mut tr, cfg, &prof, s, run);
        if sim.server_panicked || sim.clients.iter().any(|c| c.panicked) {
            panics += 1;
        }
        tool_errors.extend(sim.tool_errors.iter().cloned());
    }
    eprintln!("simtrace: profile={profile} runs={runs} lines={} panics={panics} tool_errors={}", tr.lines, tool_errors.len());
    for e in tool_errors.iter().take(5) {
        eprintln!("TOOL-ERROR {e}");
    }
    if !tool_errors.is_empty() {
        std::process::exit(2);
    }
}
