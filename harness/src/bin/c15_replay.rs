//! C15 replayer: executes the cases enumerated by TLC from spec/EntityCodec.tla on the real
//! `serialize_entity` / `deserialize_entity` and compares with what the spec says must happen.
//!
//! usage: c15_replay [--cases <ndjson>] [--sweep2] [--random <n> --seed <s>]
//!
//! A case (one JSON object per line; numbers are little-endian byte arrays):
//!   id, fam ("rt" | "fields" | "bytes" | "raw"), bytes, pos (1-based cursor), pre, suf, enc,
//!   ent {idx, gen}                 the identifier of a round-trip case
//!   must {st: "exact"|"free", idx, gen, n}      what the property demands (reference grammar)
//!   model {st: "ok"|"err"|"panic", why, idx, gen, n}   the transcribed mechanism, exactly
//!
//! Verdicts per case:
//!   * always: no panic; Ok(e, n) only with a valid `e` and n <= bytes available (totality);
//!   * must.st = "exact": Ok with exactly that identifier and exactly n bytes consumed;
//!   * fam = "rt": serialize_entity(ent) embedded between pre / suf decodes to ent, consumes exactly
//!     what the encoder produced and leaves suf untouched;
//!   * model disagreement that the property permits is a *divergence* (reported, never a mismatch);
//!     `encoder_divergences` lists cases whose spec encoding differs from the real encoder's.
//!
//! `--sweep2` runs every byte string of length <= 2, `--random` a seeded sample of longer random
//! and mutated strings (totality only: needs no per-case expectation) and of random valid
//! identifiers in random contexts (round trip: the expectation is the input).
//!
//! stdout: one JSON summary line.  Exit 0 = ran to completion, 2 = tool error.
use std::{
    collections::{BTreeMap, BTreeSet},
    io::{BufRead, BufReader},
    panic::{self, AssertUnwindSafe},
    sync::Mutex,
};

use bevy::prelude::*;
use bevy_replicon::shared::entity_serde::{deserialize_entity, serialize_entity};
use bytes::{Buf, Bytes};
use serde_json::{Value, json};

static PANIC_MSG: Mutex<String> = Mutex::new(String::new());

#[derive(Debug, Clone, PartialEq)]
enum Obs {
    Ok { idx: u32, generation: u32, bits_valid: bool, n: usize },
    Err { n: usize, msg: String },
    Panic { msg: String },
}

impl Obs {
    fn json(&self) -> Value {
        match self {
            Obs::Ok { idx, generation, bits_valid, n } => {
                json!({"st": "ok", "idx": idx, "gen": generation, "valid": bits_valid, "n": n})
            }
            Obs::Err { n, msg } => json!({"st": "err", "n": n, "msg": msg}),
            Obs::Panic { msg } => json!({"st": "panic", "msg": msg}),
        }
    }
    fn st(&self) -> &'static str {
        match self {
            Obs::Ok { .. } => "ok",
            Obs::Err { .. } => "err",
            Obs::Panic { .. } => "panic",
        }
    }
}

/// Runs the real decoder on `bytes` with the cursor already advanced past `skip` bytes.
/// Returns the observation and the bytes left in the buffer afterwards.
fn decode(bytes: &[u8], skip: usize) -> (Obs, Vec<u8>) {
    let mut buf = Bytes::copy_from_slice(bytes);
    buf.advance(skip);
    let before = buf.remaining();
    let res = panic::catch_unwind(AssertUnwindSafe(|| deserialize_entity(&mut buf)));
    match res {
        Ok(Ok(e)) => {
            let bits_valid = Entity::try_from_bits(e.to_bits()).is_ok()
                && (1..=0x7FFF_FFFFu32).contains(&e.generation())
                && (e.to_bits() >> 63) == 0;
            let n = before - buf.remaining();
            (Obs::Ok { idx: e.index(), generation: e.generation(), bits_valid, n }, buf.to_vec())
        }
        Ok(Err(err)) => {
            let n = before.saturating_sub(buf.remaining());
            (Obs::Err { n, msg: format!("{err}").lines().next().unwrap_or("").to_string() }, buf.to_vec())
        }
        Err(_) => (Obs::Panic { msg: PANIC_MSG.lock().unwrap().clone() }, Vec::new()),
    }
}

fn encode(idx: u32, generation: u32) -> Result<Vec<u8>, String> {
    let bits = ((generation as u64) << 32) | idx as u64;
    let e = Entity::try_from_bits(bits).map_err(|_| format!("not a valid identifier: {bits:#x}"))?;
    let mut out = Vec::new();
    match panic::catch_unwind(AssertUnwindSafe(|| serialize_entity(&mut out, e))) {
        Ok(Ok(())) => Ok(out),
        Ok(Err(err)) => Err(format!("serialize_entity error: {err}")),
        Err(_) => Err(format!("serialize_entity panicked: {}", PANIC_MSG.lock().unwrap())),
    }
}

fn tool_error(msg: &str) -> ! {
    eprintln!("c15_replay: {msg}");
    std::process::exit(2);
}

fn byte_vec(v: &Value, what: &str) -> Vec<u8> {
    v.as_array()
        .unwrap_or_else(|| tool_error(&format!("{what}: not an array")))
        .iter()
        .map(|x| x.as_u64().filter(|b| *b < 256).unwrap_or_else(|| tool_error(&format!("{what}: not a byte"))) as u8)
        .collect()
}

fn le32(v: &Value, what: &str) -> u32 {
    let b = byte_vec(v, what);
    if b.len() != 4 {
        tool_error(&format!("{what}: expected 4 little-endian bytes"));
    }
    u32::from_le_bytes([b[0], b[1], b[2], b[3]])
}

/// Totality part of the property; `avail` = bytes at and after the cursor.
fn totality(obs: &Obs, avail: usize) -> Option<String> {
    match obs {
        Obs::Panic { msg } => Some(format!("panic: {msg}")),
        Obs::Ok { bits_valid: false, .. } => Some("Ok with an invalid identifier".into()),
        Obs::Ok { n, .. } if *n > avail => Some(format!("consumed {n} of {avail} bytes")),
        _ => None,
    }
}

#[derive(Default)]
struct Report {
    cases: u64,
    mismatches: Vec<Value>,
    mismatch_ids: Vec<Value>,
    seen_mismatch: BTreeSet<String>,
    cats: BTreeMap<String, String>,
    seen_panic: BTreeSet<String>,
    panics: Vec<Value>,
    panic_ids: Vec<Value>,
    divergences: Vec<Value>,
    divergence_count: u64,
    encoder_divergences: Vec<Value>,
    by_family: BTreeMap<String, u64>,
    by_outcome: BTreeMap<String, u64>,
    failing_inputs: Vec<Value>,
}

impl Report {
    fn mismatch(&mut self, id: &Value, kind: &str, expected: Value, obs: &Obs, input: &[u8], pos: usize) {
        if self.seen_mismatch.insert(id.to_string()) {
            self.mismatch_ids.push(id.clone());
        }
        // category letters: t(otality) c(ursor) l(ossless, relies on the spec's encoding) r(ound trip)
        let cat = &kind[..1];
        let cats = self.cats.entry(id.to_string()).or_default();
        if !cats.contains(cat) {
            cats.push_str(cat);
        }
        if let Obs::Panic { msg } = obs {
            if self.seen_panic.insert(id.to_string()) {
                self.panic_ids.push(id.clone());
                if self.panics.len() < 20 {
                    self.panics.push(json!({"id": id, "bytes": input, "pos": pos, "msg": msg}));
                }
            }
        }
        if self.mismatches.len() < 20 {
            self.mismatches.push(json!({"id": id, "kind": kind, "bytes": input, "pos": pos,
                                        "expected": expected, "observed": obs.json()}));
        }
    }
}

fn run_case(case: &Value, rep: &mut Report) {
    let id = case.get("id").cloned().unwrap_or(Value::Null);
    let fam = case["fam"].as_str().unwrap_or_else(|| tool_error("case without fam")).to_string();
    let bytes = byte_vec(&case["bytes"], "bytes");
    let pos = case["pos"].as_u64().unwrap_or_else(|| tool_error("case without pos")) as usize;
    if pos == 0 || pos - 1 > bytes.len() {
        tool_error("pos out of range");
    }
    let skip = pos - 1;
    let avail = bytes.len() - skip;
    rep.cases += 1;
    *rep.by_family.entry(fam.clone()).or_default() += 1;

    let (obs, rest) = decode(&bytes, skip);
    *rep.by_outcome.entry(format!("{fam}:{}", obs.st())).or_default() += 1;

    // 1. totality
    if let Some(why) = totality(&obs, avail) {
        rep.mismatch(&id, &format!("totality: {why}"), json!("valid identifier or error"), &obs, &bytes, pos);
    }
    if let Obs::Ok { n, .. } = &obs {
        if *n <= avail && rest != bytes[skip + n..] {
            rep.mismatch(&id, "cursor: bytes left in the buffer are not the unread tail", json!(null), &obs, &bytes, pos);
        }
    }

    // 2. losslessness demanded by the reference grammar
    let must = &case["must"];
    if must["st"] == "exact" {
        let (midx, mgen) = (le32(&must["idx"], "must.idx"), le32(&must["gen"], "must.gen"));
        let mn = must["n"].as_u64().unwrap_or(0) as usize;
        let good = matches!(&obs, Obs::Ok { idx, generation, n, .. } if *idx == midx && *generation == mgen && *n == mn);
        if !good {
            rep.mismatch(&id, "lossless: bytes start with the encoding of a valid identifier",
                         json!({"st": "ok", "idx": midx, "gen": mgen, "n": mn}), &obs, &bytes, pos);
        }
        // independent of the verdict: does the real encoder agree that these bytes encode it?
        match encode(midx, mgen) {
            Ok(enc) if enc.len() == mn && bytes[skip..].starts_with(&enc) => {}
            other => {
                if rep.encoder_divergences.len() < 20 {
                    rep.encoder_divergences.push(json!({"id": id, "idx": midx, "gen": mgen, "real": format!("{other:?}")}));
                }
            }
        }
    }

    // 3. round trip through the real encoder inside the same context
    if fam == "rt" {
        let (eidx, egen) = (le32(&case["ent"]["idx"], "ent.idx"), le32(&case["ent"]["gen"], "ent.gen"));
        let pre = byte_vec(&case["pre"], "pre");
        let suf = byte_vec(&case["suf"], "suf");
        let spec_enc = byte_vec(&case["enc"], "enc");
        match encode(eidx, egen) {
            Err(why) => rep.mismatch(&id, &format!("round trip: {why}"), json!("Ok(())"), &obs, &bytes, pos),
            Ok(enc) => {
                if enc != spec_enc && rep.encoder_divergences.len() < 20 {
                    rep.encoder_divergences.push(json!({"id": id, "idx": eidx, "gen": egen, "real": enc, "spec": spec_enc}));
                }
                let msg: Vec<u8> = pre.iter().chain(enc.iter()).chain(suf.iter()).copied().collect();
                let (o2, rest2) = decode(&msg, pre.len());
                let good = matches!(&o2, Obs::Ok { idx, generation, n, bits_valid: true }
                    if *idx == eidx && *generation == egen && *n == enc.len())
                    && rest2 == suf;
                if !good {
                    rep.mismatch(&id, "round trip: decode(pre ++ serialize(e) ++ suf) != (e, |serialize(e)|, suf untouched)",
                                 json!({"st": "ok", "idx": eidx, "gen": egen, "n": enc.len(), "rest": suf}), &o2, &msg, pre.len() + 1);
                }
            }
        }
    }

    // 4. fidelity of the transcribed mechanism (never a property verdict)
    let model = &case["model"];
    if let Some(mst) = model["st"].as_str() {
        let mn = model["n"].as_u64().unwrap_or(0) as usize;
        let same = match (&obs, mst) {
            (Obs::Ok { idx, generation, n, .. }, "ok") => {
                *idx == le32(&model["idx"], "model.idx") && *generation == le32(&model["gen"], "model.gen") && *n == mn
            }
            (Obs::Err { n, .. }, "err") => *n == mn,
            (Obs::Panic { .. }, "panic") => true,
            _ => false,
        };
        if !same {
            rep.divergence_count += 1;
            if rep.divergences.len() < 20 {
                rep.divergences.push(json!({"id": id, "bytes": bytes, "pos": pos, "model": model, "observed": obs.json()}));
            }
        }
    }
}

struct Rng(u64);
impl Rng {
    fn next(&mut self) -> u64 {
        self.0 ^= self.0 >> 12;
        self.0 ^= self.0 << 25;
        self.0 ^= self.0 >> 27;
        self.0.wrapping_mul(0x2545_F491_4F6C_DD1D)
    }
    fn below(&mut self, n: u64) -> u64 {
        self.next() % n
    }
    fn byte(&mut self) -> u8 {
        const EDGE: [u8; 12] = [0x00, 0x01, 0x02, 0x07, 0x08, 0x0f, 0x10, 0x7f, 0x80, 0x81, 0xfe, 0xff];
        match self.below(4) {
            0 | 1 => self.next() as u8,
            2 => 0x80 | self.next() as u8,
            _ => EDGE[self.below(12) as usize],
        }
    }
    /// A number with a uniformly chosen bit length (so every varint length is hit).
    fn sized(&mut self, max_bits: u32) -> u64 {
        let bits = self.below(max_bits as u64 + 1) as u32;
        if bits == 0 { 0 } else { self.next() >> (64 - bits) }
    }
}

/// Totality-only run of one raw string (no per-case expectation needed).
fn run_raw(tag: &str, bytes: &[u8], rep: &mut Report, counts: &mut BTreeMap<&'static str, u64>) {
    let (obs, rest) = decode(bytes, 0);
    *counts.entry(obs.st()).or_default() += 1;
    let mut bad = totality(&obs, bytes.len());
    if bad.is_none() {
        if let Obs::Ok { n, .. } = &obs {
            if rest != bytes[*n..] {
                bad = Some("bytes left in the buffer are not the unread tail".into());
            }
        }
    }
    if let Some(why) = bad {
        let hex: String = bytes.iter().map(|b| format!("{b:02x}")).collect();
        let id = json!(format!("{tag}:{hex}"));
        rep.mismatch(&id, &format!("totality: {why}"), json!("valid identifier or error"), &obs, bytes, 1);
        if rep.failing_inputs.len() < 50 {
            rep.failing_inputs.push(json!({"id": id, "fam": "raw", "bytes": bytes, "pos": 1, "pre": [], "suf": [], "enc": [],
                "ent": {"idx": [], "gen": []}, "must": {"st": "free"}, "model": {}}));
        }
    }
}

fn main() {
    let args: Vec<String> = std::env::args().skip(1).collect();
    let mut cases_path = None;
    let mut sweep2 = false;
    let mut random = 0u64;
    let mut seed = 1u64;
    let mut i = 0;
    while i < args.len() {
        match args[i].as_str() {
            "--cases" => {
                cases_path = args.get(i + 1).cloned();
                i += 1;
            }
            "--sweep2" => sweep2 = true,
            "--random" => {
                random = args.get(i + 1).and_then(|s| s.parse().ok()).unwrap_or_else(|| tool_error("--random <n>"));
                i += 1;
            }
            "--seed" => {
                seed = args.get(i + 1).and_then(|s| s.parse().ok()).unwrap_or_else(|| tool_error("--seed <s>"));
                i += 1;
            }
            a => tool_error(&format!("unknown argument {a}")),
        }
        i += 1;
    }

    panic::set_hook(Box::new(|info| {
        let msg = if let Some(s) = info.payload().downcast_ref::<&str>() {
            s.to_string()
        } else if let Some(s) = info.payload().downcast_ref::<String>() {
            s.clone()
        } else {
            "<non-string panic>".to_string()
        };
        let loc = info
            .location()
            .map(|l| {
                let parts: Vec<&str> = l.file().rsplit('/').take(3).collect();
                format!(" at {}:{}", parts.into_iter().rev().collect::<Vec<_>>().join("/"), l.line())
            })
            .unwrap_or_default();
        *PANIC_MSG.lock().unwrap() = format!("{msg}{loc}");
    }));

    let mut rep = Report::default();
    if let Some(path) = cases_path {
        let f = std::fs::File::open(&path).unwrap_or_else(|e| tool_error(&format!("{path}: {e}")));
        for line in BufReader::new(f).lines() {
            let line = line.unwrap_or_else(|e| tool_error(&format!("{path}: {e}")));
            if line.trim().is_empty() {
                continue;
            }
            let case: Value = serde_json::from_str(&line).unwrap_or_else(|e| tool_error(&format!("bad case line: {e}")));
            run_case(&case, &mut rep);
        }
    }

    let mut sweep_counts: BTreeMap<&'static str, u64> = BTreeMap::new();
    let mut sweep_n = 0u64;
    if sweep2 {
        run_raw("sweep", &[], &mut rep, &mut sweep_counts);
        sweep_n += 1;
        for a in 0..=255u8 {
            run_raw("sweep", &[a], &mut rep, &mut sweep_counts);
            sweep_n += 1;
            for b in 0..=255u8 {
                run_raw("sweep", &[a, b], &mut rep, &mut sweep_counts);
                sweep_n += 1;
            }
        }
    }

    let mut rnd_counts: BTreeMap<&'static str, u64> = BTreeMap::new();
    let (mut rnd_bytes, mut rnd_mut, mut rnd_rt) = (0u64, 0u64, 0u64);
    if random > 0 {
        let mut rng = Rng(seed.wrapping_mul(0x9E37_79B9_7F4A_7C15) | 1);
        for k in 0..random {
            let idx = rng.sized(32) as u32;
            let generation = (rng.sized(31) as u32).clamp(1, 0x7FFF_FFFF);
            match k % 3 {
                0 => {
                    // random bytes, biased towards continuation bytes and varint limits
                    let len = rng.below(17) as usize;
                    let bytes: Vec<u8> = (0..len).map(|_| rng.byte()).collect();
                    run_raw("random", &bytes, &mut rep, &mut rnd_counts);
                    rnd_bytes += 1;
                }
                1 => {
                    // a real encoding, mutated
                    let mut bytes = encode(idx, generation).unwrap_or_else(|e| tool_error(&e));
                    for _ in 0..1 + rng.below(3) {
                        let at = rng.below(bytes.len().max(1) as u64) as usize;
                        match rng.below(6) {
                            0 => bytes.truncate(at),
                            1 if !bytes.is_empty() => bytes[at] ^= 1 << rng.below(8),
                            2 if !bytes.is_empty() => bytes[at] = rng.byte(),
                            3 => bytes.insert(at.min(bytes.len()), rng.byte()),
                            4 => bytes.extend((0..rng.below(6)).map(|_| 0xff)),
                            _ => bytes.push(rng.byte()),
                        }
                    }
                    run_raw("mutated", &bytes, &mut rep, &mut rnd_counts);
                    rnd_mut += 1;
                }
                _ => {
                    // random valid identifier in a random context: the expectation is the input
                    let pre: Vec<u8> = (0..rng.below(5)).map(|_| rng.byte()).collect();
                    let suf: Vec<u8> = (0..rng.below(13)).map(|_| rng.byte()).collect();
                    let id = json!(format!("random-rt:{idx:#x}:{generation:#x}"));
                    match encode(idx, generation) {
                        Err(why) => rep.mismatch(&id, &format!("round trip: {why}"), json!("Ok(())"), &Obs::Err { n: 0, msg: why.clone() }, &[], 1),
                        Ok(enc) => {
                            let msg: Vec<u8> = pre.iter().chain(enc.iter()).chain(suf.iter()).copied().collect();
                            let (o, rest) = decode(&msg, pre.len());
                            let good = matches!(&o, Obs::Ok { idx: i2, generation: g2, n, bits_valid: true }
                                if *i2 == idx && *g2 == generation && *n == enc.len())
                                && rest == suf;
                            if !good {
                                rep.mismatch(&id, "round trip (random identifier)",
                                             json!({"st": "ok", "idx": idx, "gen": generation, "n": enc.len()}), &o, &msg, pre.len() + 1);
                                if rep.failing_inputs.len() < 50 {
                                    rep.failing_inputs.push(json!({"id": id, "fam": "rt", "bytes": msg, "pos": pre.len() + 1,
                                        "pre": pre, "suf": suf, "enc": enc,
                                        "ent": {"idx": idx.to_le_bytes(), "gen": generation.to_le_bytes()},
                                        "must": {"st": "free"}, "model": {}}));
                                }
                            }
                        }
                    }
                    rnd_rt += 1;
                }
            }
        }
    }

    let out = json!({
        "cases": rep.cases,
        "mismatches": rep.mismatches,
        "mismatch_count": rep.mismatch_ids.len(),
        "mismatch_cats": rep.mismatch_ids.iter().map(|i| rep.cats.get(&i.to_string()).cloned().unwrap_or_default()).collect::<Vec<_>>(),
        "mismatch_ids": rep.mismatch_ids,
        "panics": rep.panics,
        "panic_ids": rep.panic_ids,
        "divergences": rep.divergences,
        "divergence_count": rep.divergence_count,
        "encoder_divergences": rep.encoder_divergences,
        "by_family": rep.by_family,
        "by_outcome": rep.by_outcome,
        "sweep2": {"strings": sweep_n, "outcomes": sweep_counts},
        "random": {"bytes": rnd_bytes, "mutated": rnd_mut, "round_trips": rnd_rt, "outcomes": rnd_counts, "seed": seed},
        "failing_inputs": rep.failing_inputs,
    });
    println!("{out}");
}
