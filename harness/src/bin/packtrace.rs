//! C10 binding: drives a real server so that one tick's mutations have to be split into several
//! mutate messages, and records (chunk sizes, header size, maximum message size, chosen split)
//! for validation against spec/Packing.tla.
//!
//! usage: packtrace <runs> <seed> <out.ndjson>
use std::{collections::BTreeMap, fs::File, io::{BufWriter, Write}};

use serde_json::{Value, json};
use verif_harness::{driver::*, model::*, sim::*};

fn main() {
    let args: Vec<String> = std::env::args().collect();
    let runs: u64 = args.get(1).and_then(|s| s.parse().ok()).unwrap_or(20);
    let seed: u64 = args.get(2).and_then(|s| s.parse().ok()).unwrap_or(1);
    let out = args.get(3).cloned().unwrap_or_else(|| "pack.ndjson".into());
    let mut w = BufWriter::new(File::create(&out).expect("create"));
    let mut records = 0u64;
    let mut multi = 0u64;
    let mut tool_errors = Vec::new();
    for run in 0..runs {
        let mut rng = Rng::new(seed.wrapping_mul(7_000_003).wrapping_add(run));
        let n = 2 + rng.below(5);
        let ents: Vec<String> = (1..=n).map(|i| format!("e{i}")).collect();
        let rel = run % 2 == 1;
        let track = run % 3 == 0;
        let max_size = 40 + rng.below(200);
        let cfg = Cfg { ents: ents.clone(), rel, track, max_size: vec![max_size], ..Default::default() };
        let mut sim = Sim::new(cfg);
        let mut tr = Trace::new(std::io::sink());
        tr.step(&mut sim, "SrvFrame", json!({"tick": false, "dt": 0}));
        tr.step(&mut sim, "Connect", json!({"c": "c1"}));
        if run % 4 == 3 {
            // ticks of two varint bytes: longer message headers
            for _ in 0..130 {
                tr.step(&mut sim, "SrvFrame", json!({"tick": true, "dt": 0}));
            }
        }
        for e in &ents {
            tr.step(&mut sim, "Spawn", json!({"e": e, "comps": ["A"], "repl": true}));
        }
        // relation groups (ChildOf chains) among the entities
        let mut parent: BTreeMap<String, String> = BTreeMap::new();
        if rel {
            for i in 1..ents.len() {
                if rng.chance(1, 2) {
                    let p = ents[rng.below(i)].clone();
                    if tr.step(&mut sim, "Relate", json!({"e": ents[i], "p": p})) {
                        parent.insert(ents[i].clone(), p);
                    }
                }
            }
        }
        tr.settle(&mut sim, 2);
        let mut unmarked: std::collections::BTreeSet<String> = Default::default();
        for _round in 0..8 {
            // the relation graph evolves: insert / replace / remove relations, toggle the marker
            if rel {
                for _ in 0..rng.below(3) {
                    let e = ents[rng.below(ents.len())].clone();
                    match rng.below(6) {
                        0..=2 => {
                            let p = ents[rng.below(ents.len())].clone();
                            if p != e && tr.step(&mut sim, "Relate", json!({"e": e, "p": p})) {
                                parent.insert(e, p);
                            }
                        }
                        3 => {
                            if tr.step(&mut sim, "Unrelate", json!({"e": e})) {
                                parent.remove(&e);
                            }
                        }
                        4 => {
                            if tr.step(&mut sim, "Unmark", json!({"e": e})) {
                                unmarked.insert(e);
                            }
                        }
                        _ => {
                            if tr.step(&mut sim, "Mark", json!({"e": e})) {
                                unmarked.remove(&e);
                            }
                        }
                    }
                    if rng.chance(1, 3) {
                        tr.step(&mut sim, "SrvFrame", json!({"tick": false, "dt": 0}));
                    }
                }
                // structural changes travel in update messages; settle them before the measured tick
                tr.settle(&mut sim, 1);
            }
            // reference grouping: connected components of the relations whose source is replicated
            let mut comp: BTreeMap<String, String> = ents.iter().map(|e| (e.clone(), e.clone())).collect();
            let find = |comp: &BTreeMap<String, String>, e: &str| -> String {
                let mut cur = e.to_string();
                while comp[&cur] != cur {
                    cur = comp[&cur].clone();
                }
                cur
            };
            let mut related: std::collections::BTreeSet<String> = Default::default();
            for (c, p) in &parent {
                if unmarked.contains(c) {
                    continue;
                }
                let (a, b) = (find(&comp, c), find(&comp, p));
                if a != b {
                    comp.insert(a, b);
                }
                related.insert(c.clone());
                related.insert(p.clone());
            }
            let root = |e: &str| find(&comp, e);
            let in_group = |e: &str| related.contains(e);
            // new sizes and new values for everybody, then one tick
            for e in &ents {
                if unmarked.contains(e) {
                    continue;
                }
                let se = sim.server_entity(e).unwrap();
                let pad = match rng.below(4) {
                    0 => rng.below(8),
                    1 => rng.below(max_size),
                    2 => max_size.saturating_sub(rng.below(24)),
                    _ => rng.below(2 * max_size),
                };
                sim.server.world_mut().get_mut::<A>(se).unwrap().pad = vec![0xEE; pad];
                tr.step(&mut sim, "Mutate", json!({"e": e, "k": "A"}));
            }
            tr.step(&mut sim, "SrvFrame", json!({"tick": true, "dt": 0}));
            let msgs: Vec<Value> = sim.last_sent.iter().filter(|m| m["ch"] == "mut" && m["c"] == "c1").cloned().collect();
            // chunks in wire order
            let mut sizes: Vec<u64> = Vec::new();
            let mut chunk_key: Vec<String> = Vec::new();
            let mut msg_chunks: Vec<Vec<usize>> = Vec::new();
            let mut lens: Vec<u64> = Vec::new();
            let mut hdr = 0u64;
            let mut seen_groups: BTreeMap<String, usize> = BTreeMap::new(); // group root -> message index
            let mut together = true;
            for (mi, m) in msgs.iter().enumerate() {
                let mm = &m["m"];
                hdr = mm["hdr"].as_u64().unwrap();
                lens.push(m["len"].as_u64().unwrap());
                let mut cur: Vec<usize> = Vec::new();
                for e in mm["order"].as_array().unwrap() {
                    let e = e.as_str().unwrap();
                    let size = mm["sizes"][e].as_u64().unwrap();
                    let key = if in_group(e) { format!("g:{}", root(e)) } else { format!("s:{e}") };
                    if key.starts_with("g:") {
                        if let Some(&prev) = seen_groups.get(&key) {
                            if prev != mi {
                                together = false;
                            }
                        }
                        seen_groups.insert(key.clone(), mi);
                    }
                    if chunk_key.last() == Some(&key) && cur.last() == Some(&chunk_key.len()) {
                        *sizes.last_mut().unwrap() += size;
                    } else {
                        if chunk_key.contains(&key) {
                            together = false; // a group that is not contiguous
                        }
                        chunk_key.push(key);
                        sizes.push(size);
                        cur.push(chunk_key.len());
                    }
                }
                msg_chunks.push(cur);
            }
            let slack = if track { 9 } else { 0 };
            if msgs.len() > 1 {
                multi += 1;
            }
            let rec = json!({"i": records, "run": run, "sizes": sizes, "H": hdr + slack, "slack": slack, "max": max_size,
                             "track": track, "msgs": msg_chunks, "lens": lens, "groupsTogether": together,
                             "chunks": chunk_key});
            serde_json::to_writer(&mut w, &rec).unwrap();
            w.write_all(b"\n").unwrap();
            records += 1;
            tr.settle(&mut sim, 1);
        }
        tool_errors.extend(sim.tool_errors.iter().cloned());
    }
    println!("{}", json!({"records": records, "split_into_several": multi, "tool_errors": tool_errors.len()}));
    if !tool_errors.is_empty() {
        eprintln!("TOOL-ERROR {}", tool_errors[0]);
        std::process::exit(2);
    }
}
