//! Test events (registered when `Cfg::events` is set).
use bevy::prelude::*;

pub fn register(_app: &mut App) {}
