//! Test events (registered when `Cfg::events` is set) and delivery recording.
//!
//! Deliveries are observed the way game logic would observe them: by reader systems with their
//! own cursors and by observers installed inside the apps - never by inspecting buffer lengths.
use bevy::{ecs::entity::MapEntities, prelude::*};
use bevy_replicon::{client::ServerUpdateTick, prelude::*};
use serde::{Deserialize, Serialize};
use serde_json::{Value, json};

/// Server -> client event names in registration order (server channel = 2 + index without protocol check).
pub const SEV: [&str; 6] = ["SOrd", "SInd", "SMap", "STrig", "SUnr", "SMTrig"];
/// Client -> server event names in registration order (client channel = 1 + index without protocol check).
pub const CEV: [&str; 4] = ["COrd", "CMap", "CTrig", "CUnr"];

#[derive(Event, Serialize, Deserialize, Clone, Debug)]
pub struct SOrd {
    pub id: u32,
}
#[derive(Event, Serialize, Deserialize, Clone, Debug)]
pub struct SInd {
    pub id: u32,
}
#[derive(Event, Serialize, Deserialize, Clone, Debug)]
pub struct SMap {
    pub id: u32,
    pub e: Entity,
}
impl MapEntities for SMap {
    fn map_entities<M: EntityMapper>(&mut self, mapper: &mut M) {
        self.e = mapper.get_mapped(self.e);
    }
}
#[derive(Event, Serialize, Deserialize, Clone, Debug)]
pub struct STrig {
    pub id: u32,
}
/// Mapped server trigger: an entity in the payload (always slot e1) and another one as trigger target.
#[derive(Event, Serialize, Deserialize, Clone, Debug)]
pub struct SMTrig {
    pub id: u32,
    pub e: Entity,
}
impl MapEntities for SMTrig {
    fn map_entities<M: EntityMapper>(&mut self, mapper: &mut M) {
        self.e = mapper.get_mapped(self.e);
    }
}
/// Dependent server event on an unreliable channel (may be lost or reordered).
#[derive(Event, Serialize, Deserialize, Clone, Debug)]
pub struct SUnr {
    pub id: u32,
}
/// Client event on an unreliable channel.
#[derive(Event, Serialize, Deserialize, Clone, Debug)]
pub struct CUnr {
    pub id: u32,
}
#[derive(Event, Serialize, Deserialize, Clone, Debug)]
pub struct COrd {
    pub id: u32,
}
#[derive(Event, Serialize, Deserialize, Clone, Debug)]
pub struct CMap {
    pub id: u32,
    pub e: Entity,
}
impl MapEntities for CMap {
    fn map_entities<M: EntityMapper>(&mut self, mapper: &mut M) {
        self.e = mapper.get_mapped(self.e);
    }
}
#[derive(Event, Serialize, Deserialize, Clone, Debug)]
pub struct CTrig {
    pub id: u32,
}

/// Emissions queued by the harness; performed by `emit_pending` inside the app's `Update`,
/// i.e. where game logic would emit.
#[derive(Resource, Default)]
pub struct PendingEmits(pub Vec<Emit>);

pub enum Emit {
    /// server event: type, id, mode, entity reference / trigger target
    S { t: String, id: u32, mode: SendMode, e: Option<Entity>, payload: Entity },
    /// client event: type, id, *server* entity whose client counterpart is referenced / targeted
    /// (resolved through the entity map when the emission happens; a client-local entity otherwise)
    C { t: String, id: u32, e: Option<Entity> },
}

fn emit_pending(
    mut pending: ResMut<PendingEmits>,
    mut commands: Commands,
    map: Option<Res<bevy_replicon::shared::server_entity_map::ServerEntityMap>>,
) {
    for em in pending.0.drain(..) {
        match em {
            Emit::S { t, id, mode, e, payload } => match t.as_str() {
                "SOrd" => {
                    commands.send_event(ToClients { mode, event: SOrd { id } });
                }
                "SInd" => {
                    commands.send_event(ToClients { mode, event: SInd { id } });
                }
                "SUnr" => {
                    commands.send_event(ToClients { mode, event: SUnr { id } });
                }
                "SMTrig" => match e {
                    Some(e) => commands.server_trigger_targets(ToClients { mode, event: SMTrig { id, e: payload } }, e),
                    None => commands.server_trigger(ToClients { mode, event: SMTrig { id, e: payload } }),
                },
                "SMap" => {
                    commands.send_event(ToClients { mode, event: SMap { id, e: e.unwrap_or(Entity::PLACEHOLDER) } });
                }
                "STrig" => match e {
                    Some(e) => commands.server_trigger_targets(ToClients { mode, event: STrig { id } }, e),
                    None => commands.server_trigger(ToClients { mode, event: STrig { id } }),
                },
                _ => panic!("unknown server event {t}"),
            },
            Emit::C { t, id, e } => {
                let e = e.map(|se| {
                    map.as_ref()
                        .and_then(|m| m.to_client().get(&se).copied())
                        .unwrap_or_else(|| commands.spawn_empty().id())
                });
                match t.as_str() {
                "COrd" => {
                    commands.send_event(COrd { id });
                }
                "CUnr" => {
                    commands.send_event(CUnr { id });
                }
                "CMap" => {
                    commands.send_event(CMap { id, e: e.unwrap_or(Entity::PLACEHOLDER) });
                }
                "CTrig" => match e {
                    Some(e) => commands.client_trigger_targets(CTrig { id }, e),
                    None => commands.client_trigger(CTrig { id }),
                },
                _ => panic!("unknown client event {t}"),
            }}
        }
    }
}

/// What the game logic of this app observed, in order.
#[derive(Resource, Default)]
pub struct EvLog(pub Vec<Value>);

fn upd(t: Option<Res<ServerUpdateTick>>) -> i64 {
    t.map(|t| t.get() as i64).unwrap_or(-1)
}

fn read_sord(mut r: EventReader<SOrd>, t: Option<Res<ServerUpdateTick>>, mut log: ResMut<EvLog>) {
    let u = upd(t);
    for e in r.read() {
        log.0.push(json!({"t": "SOrd", "id": e.id, "upd": u}));
    }
}
fn read_sunr(mut r: EventReader<SUnr>, t: Option<Res<ServerUpdateTick>>, mut log: ResMut<EvLog>) {
    let u = upd(t);
    for e in r.read() {
        log.0.push(json!({"t": "SUnr", "id": e.id, "upd": u}));
    }
}
fn read_cunr(mut r: EventReader<FromClient<CUnr>>, mut log: ResMut<EvLog>) {
    for e in r.read() {
        log.0.push(json!({"t": "CUnr", "id": e.event.id, "from": e.client.to_bits()}));
    }
}
fn read_sind(mut r: EventReader<SInd>, t: Option<Res<ServerUpdateTick>>, mut log: ResMut<EvLog>) {
    let u = upd(t);
    for e in r.read() {
        log.0.push(json!({"t": "SInd", "id": e.id, "upd": u}));
    }
}
fn read_smap(mut r: EventReader<SMap>, t: Option<Res<ServerUpdateTick>>, mut log: ResMut<EvLog>) {
    let u = upd(t);
    for e in r.read() {
        log.0.push(json!({"t": "SMap", "id": e.id, "upd": u, "ebits": e.e.to_bits()}));
    }
}
fn on_strig(trigger: Trigger<STrig>, t: Option<Res<ServerUpdateTick>>, mut log: ResMut<EvLog>) {
    let target = trigger.target();
    let tb = if target == Entity::PLACEHOLDER { json!("none") } else { json!(target.to_bits()) };
    log.0.push(json!({"t": "STrig", "id": trigger.id, "upd": upd(t), "tbits": tb}));
}
fn on_smtrig(trigger: Trigger<SMTrig>, t: Option<Res<ServerUpdateTick>>, mut log: ResMut<EvLog>) {
    let target = trigger.target();
    let tb = if target == Entity::PLACEHOLDER { json!("none") } else { json!(target.to_bits()) };
    log.0.push(json!({"t": "SMTrig", "id": trigger.id, "upd": upd(t), "tbits": tb}));
}
fn read_cord(mut r: EventReader<FromClient<COrd>>, mut log: ResMut<EvLog>) {
    for e in r.read() {
        log.0.push(json!({"t": "COrd", "id": e.event.id, "from": e.client.to_bits()}));
    }
}
fn read_cmap(mut r: EventReader<FromClient<CMap>>, mut log: ResMut<EvLog>) {
    for e in r.read() {
        log.0.push(json!({"t": "CMap", "id": e.event.id, "from": e.client.to_bits(), "ebits": e.event.e.to_bits()}));
    }
}
fn on_ctrig(trigger: Trigger<FromClient<CTrig>>, mut log: ResMut<EvLog>) {
    let target = trigger.target();
    let tb = if target == Entity::PLACEHOLDER { json!("none") } else { json!(target.to_bits()) };
    log.0.push(json!({"t": "CTrig", "id": trigger.event.id, "from": trigger.client.to_bits(), "tbits": tb}));
}

pub fn register(app: &mut App) {
    app.init_resource::<EvLog>()
        .init_resource::<PendingEmits>()
        .add_systems(Update, emit_pending)
        .add_server_event::<SOrd>(Channel::Ordered)
        .add_server_event::<SInd>(Channel::Ordered)
        .make_event_independent::<SInd>()
        .add_mapped_server_event::<SMap>(Channel::Ordered)
        .add_server_trigger::<STrig>(Channel::Ordered)
        .add_server_event::<SUnr>(Channel::Unreliable)
        .add_mapped_server_trigger::<SMTrig>(Channel::Ordered)
        .add_client_event::<COrd>(Channel::Ordered)
        .add_mapped_client_event::<CMap>(Channel::Ordered)
        .add_client_trigger::<CTrig>(Channel::Ordered)
        .add_client_event::<CUnr>(Channel::Unreliable)
        .add_systems(Update, (read_sord, read_sind, read_smap, read_cord, read_cmap, read_sunr, read_cunr))
        .add_observer(on_strig)
        .add_observer(on_smtrig)
        .add_observer(on_ctrig);
}
