//! Action execution (one harness step per specification action), random drivers, trace recording.
use std::io::Write;

use serde_json::{Value, json};

use crate::{model::*, sim::*};

pub struct Rng(pub u64);
impl Rng {
    pub fn new(seed: u64) -> Self {
        Rng(seed.wrapping_mul(0x9E3779B97F4A7C15) ^ 0xD1B54A32D192ED03)
    }
    pub fn next(&mut self) -> u64 {
        // splitmix64
        self.0 = self.0.wrapping_add(0x9E3779B97F4A7C15);
        let mut z = self.0;
        z = (z ^ (z >> 30)).wrapping_mul(0xBF58476D1CE4E5B9);
        z = (z ^ (z >> 27)).wrapping_mul(0x94D049BB133111EB);
        z ^ (z >> 31)
    }
    pub fn below(&mut self, n: usize) -> usize {
        (self.next() % (n as u64)) as usize
    }
    pub fn chance(&mut self, num: usize, den: usize) -> bool {
        self.below(den) < num
    }
    pub fn pick<'a, T>(&mut self, v: &'a [T]) -> &'a T {
        &v[self.below(v.len())]
    }
}

fn s<'a>(a: &'a Value, k: &str) -> &'a str {
    a[k].as_str().unwrap_or_else(|| panic!("missing string arg {k} in {a}"))
}

/// Executes one action on the real apps. `Err` = the action is not enabled in the current state.
pub fn exec(sim: &mut Sim, ev: &str, a: &Value) -> Result<(), String> {
    sim.last_sent.clear();
    sim.last_panic = None;
    sim.last_delivered.clear();
    if matches!(ev, "Spawn" | "Despawn" | "Mark" | "Unmark" | "Insert" | "Remove" | "Mutate" | "Relate" | "Unrelate")
        && !sim.op_enabled(ev, a)
    {
        return Err(format!("{ev} {a} not enabled"));
    }
    match ev {
        "Spawn" => {
            let comps: Vec<&str> = a["comps"].as_array().map(|v| v.iter().map(|x| x.as_str().unwrap()).collect()).unwrap_or_default();
            sim.spawn(s(a, "e"), &comps, a["repl"].as_bool().unwrap_or(true));
        }
        "Despawn" => sim.despawn(s(a, "e")),
        "Mark" => sim.mark(s(a, "e"), true),
        "Unmark" => sim.mark(s(a, "e"), false),
        "Insert" => sim.insert(s(a, "e"), s(a, "k")),
        "Remove" => sim.remove(s(a, "e"), s(a, "k")),
        "Mutate" => sim.mutate(s(a, "e"), s(a, "k")),
        "Relate" => sim.relate(s(a, "e"), s(a, "p")),
        "Unrelate" => sim.unrelate(s(a, "e")),
        "SetVis" => {
            if !sim.set_vis(s(a, "c"), s(a, "e"), a["v"].as_bool().unwrap()) {
                return Err("SetVis not enabled".into());
            }
        }
        "SrvFrame" => sim.server_frame(a["tick"].as_bool().unwrap_or(false), a["dt"].as_u64().unwrap_or(0)),
        "CliFrame" => sim.client_frame(s(a, "c"), a["dt"].as_u64().unwrap_or(0)),
        "DeliverUpd" => {
            if !sim.deliver_s2c(s(a, "c"), CH_UPD, 0) {
                return Err("no update message".into());
            }
        }
        "DeliverMut" => {
            if !sim.deliver_s2c(s(a, "c"), CH_MUT, a["pos"].as_u64().unwrap_or(0) as usize) {
                return Err("no mutate message".into());
            }
        }
        "DropMut" => {
            if !sim.drop_s2c(s(a, "c"), CH_MUT, a["pos"].as_u64().unwrap_or(0) as usize) {
                return Err("no mutate message".into());
            }
        }
        "DeliverAck" => {
            if !sim.deliver_c2s(s(a, "c"), CH_ACK, 0) {
                return Err("no ack message".into());
            }
        }
        "DeliverEvS" => {
            let ch = sim.sev_ch(s(a, "t"));
            if !sim.deliver_s2c(s(a, "c"), ch, a["pos"].as_u64().unwrap_or(0) as usize) {
                return Err("no event message".into());
            }
        }
        "EmitS" if a["t"] == json!("SMTrig") && sim.server_entity("e1").is_none() => {
            // the payload entity of the mapped trigger is slot e1: not before that slot has been used
            return Err("SMTrig before e1 exists".into());
        }
        "DropEvS" => {
            let ch = sim.sev_ch(s(a, "t"));
            if !sim.drop_s2c(s(a, "c"), ch, a["pos"].as_u64().unwrap_or(0) as usize) {
                return Err("no event message".into());
            }
        }
        "DropEvC" => {
            let ch = sim.cev_ch(s(a, "t"));
            if !sim.drop_c2s(s(a, "c"), ch, a["pos"].as_u64().unwrap_or(0) as usize) {
                return Err("no event message".into());
            }
        }
        "DeliverEvC" => {
            let ch = sim.cev_ch(s(a, "t"));
            if !sim.deliver_c2s(s(a, "c"), ch, a["pos"].as_u64().unwrap_or(0) as usize) {
                return Err("no event message".into());
            }
        }
        "Connect" => {
            let ci = sim.ci(s(a, "c"));
            if sim.clients[ci].entity.is_some() {
                return Err("already connected".into());
            }
            sim.connect(s(a, "c"));
        }
        "Disconnect" => sim.disconnect(s(a, "c")),
        "LoseToConnecting" => {
            let ci = sim.ci(s(a, "c"));
            if sim.clients[ci].entity.is_none() {
                return Err("not connected".into());
            }
            sim.lose_to_connecting(s(a, "c"))
        }
        "GiveUp" => {
            if !sim.give_up(s(a, "c")) {
                return Err("GiveUp not enabled".into());
            }
        }
        "Authorize" => {
            if !sim.authorize(s(a, "c")) {
                return Err("Authorize not enabled".into());
            }
        }
        "Stop" => {
            if !sim.server.world().resource::<bevy_replicon::prelude::RepliconServer>().is_running() {
                return Err("Stop not enabled".into());
            }
            sim.stop()
        }
        "Start" => {
            if sim.server.world().resource::<bevy_replicon::prelude::RepliconServer>().is_running() {
                return Err("Start not enabled".into());
            }
            sim.start()
        }
        "Prespawn" => {
            let ci = sim.ci(s(a, "c"));
            let connected = sim.clients[ci].entity.is_some();
            if sim.clients[ci].prespawned.contains_key(s(a, "p")) || !connected {
                return Err("Prespawn not enabled".into());
            }
            sim.prespawn(s(a, "c"), s(a, "p"))
        }
        "KillPre" => {
            let ci = sim.ci(s(a, "c"));
            let alive = sim.clients[ci].prespawned.get(s(a, "p")).is_some_and(|&e| sim.clients[ci].app.world().get_entity(e).is_ok());
            let adopted = sim.clients[ci].prespawned.get(s(a, "p")).is_some_and(|e| {
                sim.clients[ci].app.world().resource::<bevy_replicon::shared::server_entity_map::ServerEntityMap>().to_server().contains_key(e)
            });
            if !alive || adopted {
                return Err("KillPre not enabled".into());
            }
            sim.kill_prespawned(s(a, "c"), s(a, "p"))
        }
        "MapPre" => {
            if !sim.map_prespawned(s(a, "c"), s(a, "e"), s(a, "p")) {
                return Err("MapPre not enabled".into());
            }
        }
        "EmitS" => {
            let to = a["to"].as_str().filter(|x| *x != "none");
            let e = a["e"].as_str().filter(|x| *x != "none");
            if !sim.emit_s(s(a, "t"), a["id"].as_u64().unwrap() as u32, s(a, "mode"), to, e) {
                return Err("EmitS not enabled".into());
            }
        }
        "EmitC" => {
            let e = a["e"].as_str().filter(|x| *x != "none");
            if !sim.emit_c(s(a, "c"), s(a, "t"), a["id"].as_u64().unwrap() as u32, e) {
                return Err("EmitC not enabled".into());
            }
        }
        "Quiesce" | "AtRest" | "Init" => {}
        _ => return Err(format!("unknown action {ev}")),
    }
    Ok(())
}

/// Trace writer: one NDJSON line per step.
pub struct Trace<W: Write> {
    pub out: W,
    pub run: u64,
    pub i: u64,
    pub lines: u64,
}

impl<W: Write> Trace<W> {
    pub fn new(out: W) -> Self {
        Self { out, run: 0, i: 0, lines: 0 }
    }

    pub fn start_run(&mut self, sim: &Sim, run: u64, extra: Value) {
        self.run = run;
        self.i = 0;
        let mut args = serde_json::to_value(&sim.cfg).unwrap();
        args["extra"] = extra;
        self.write(sim, "Init", &args);
    }

    pub fn write(&mut self, sim: &Sim, ev: &str, args: &Value) {
        let line = json!({
            "run": self.run, "i": self.i, "ev": ev, "args": args,
            "obs": {"sent": sim.last_sent, "delivered": sim.last_delivered,
                    "panic": sim.last_panic.clone().unwrap_or_else(|| "none".into())},
            "post": sim.project(),
        });
        serde_json::to_writer(&mut self.out, &line).unwrap();
        self.out.write_all(b"\n").unwrap();
        self.i += 1;
        self.lines += 1;
    }

    /// Executes an action and records it (if it was enabled).
    pub fn step(&mut self, sim: &mut Sim, ev: &str, args: Value) -> bool {
        // with TickPolicy::EveryFrame the server itself decides: a frame ticks iff the server is running
        let mut args = args;
        if ev == "SrvFrame" && sim.cfg.every_frame {
            args["tick"] = json!(sim.project_server()["running"] == json!(true));
        }
        match exec(sim, ev, &args) {
            Ok(()) => {
                self.write(sim, ev, &args);
                true
            }
            Err(_) => false,
        }
    }

    /// One perfect-link round in the middle of a run (no quiescence claimed afterwards): everything in
    /// flight is delivered and acknowledged, so that later steps start from acknowledged state.
    pub fn sync(&mut self, sim: &mut Sim) {
        let names: Vec<String> = sim.clients.iter().map(|c| c.name.clone()).collect();
        self.step(sim, "SrvFrame", json!({"tick": true, "dt": 0}));
        for c in &names {
            let ci = sim.ci(c);
            if sim.clients[ci].entity.is_none() {
                continue;
            }
            while sim.channel_len(c, "s2c", CH_UPD) > 0 {
                self.step(sim, "DeliverUpd", json!({"c": c}));
            }
            while sim.channel_len(c, "s2c", CH_MUT) > 0 {
                self.step(sim, "DeliverMut", json!({"c": c, "pos": 0}));
            }
            self.step(sim, "CliFrame", json!({"c": c, "dt": 0}));
            while sim.channel_len(c, "c2s", CH_ACK) > 0 {
                self.step(sim, "DeliverAck", json!({"c": c}));
            }
        }
        self.step(sim, "SrvFrame", json!({"tick": false, "dt": 0}));
    }

    /// Perfect-link rounds followed by the quiescence and at-rest claims.
    pub fn settle(&mut self, sim: &mut Sim, rounds: usize) {
        self.rounds(sim, rounds);
        self.step(sim, "Quiesce", json!({}));
        // one more tick with nothing changed and everything acknowledged: the server must be silent
        self.step(sim, "SrvFrame", json!({"tick": true, "dt": 0}));
        self.step(sim, "AtRest", json!({}));
    }

    /// Perfect-link rounds: tick, deliver everything, client frames, deliver acks.
    pub fn rounds(&mut self, sim: &mut Sim, rounds: usize) {
        let names: Vec<String> = sim.clients.iter().map(|c| c.name.clone()).collect();
        for _ in 0..rounds {
            self.step(sim, "SrvFrame", json!({"tick": true, "dt": 0}));
            for c in &names {
                let ci = sim.ci(c);
                if sim.clients[ci].entity.is_none() {
                    continue;
                }
                while sim.channel_len(c, "s2c", CH_UPD) > 0 {
                    self.step(sim, "DeliverUpd", json!({"c": c}));
                }
                while sim.channel_len(c, "s2c", CH_MUT) > 0 {
                    self.step(sim, "DeliverMut", json!({"c": c, "pos": 0}));
                }
                if sim.cfg.events {
                    for t in crate::events::SEV {
                        while sim.channel_len(c, "s2c", sim.sev_ch(t)) > 0 {
                            self.step(sim, "DeliverEvS", json!({"c": c, "t": t, "pos": 0}));
                        }
                    }
                }
                self.step(sim, "CliFrame", json!({"c": c, "dt": 0}));
                while sim.channel_len(c, "c2s", CH_ACK) > 0 {
                    self.step(sim, "DeliverAck", json!({"c": c}));
                }
                if sim.cfg.events {
                    for t in crate::events::CEV {
                        while sim.channel_len(c, "c2s", sim.cev_ch(t)) > 0 {
                            self.step(sim, "DeliverEvC", json!({"c": c, "t": t, "pos": 0}));
                        }
                    }
                }
            }
        }
        self.step(sim, "SrvFrame", json!({"tick": false, "dt": 0}));
    }
}

/// Random-driver profile.
#[derive(Clone, Debug)]
pub struct Profile {
    pub steps: usize,
    pub comps: Vec<&'static str>,
    pub vis: bool,
    pub rel: bool,
    pub sess: bool,
    pub marks: bool,
    pub events: bool,
    pub pre: bool,
    /// padding bytes per component (per slot: pad + 7 * slot index), to force splitting of mutate messages
    pub pad: usize,
    /// virtual time: some server frames advance time by this many ms (0 = time stands still)
    pub dt: u64,
    pub settle: usize,
    /// avoid histories matching open known-finding signatures
    pub clean: bool,
}

impl Default for Profile {
    fn default() -> Self {
        Self { steps: 40, comps: vec!["A", "B"], vis: false, rel: false, sess: false, marks: true, events: false, pre: false, pad: 0, dt: 0, settle: 4, clean: true }
    }
}

/// child slot -> parent slot, as the server world has it now
pub fn current_parents(sim: &Sim) -> std::collections::BTreeMap<String, String> {
    let mut m = std::collections::BTreeMap::new();
    let w = sim.project_server();
    if let Some(world) = w["world"].as_object() {
        for (e, v) in world {
            if v["alive"] == json!(true) {
                if let Some(p) = v["parent"].as_str().filter(|p| *p != "none") {
                    m.insert(e.clone(), p.to_string());
                }
            }
        }
    }
    m
}

/// F17's trigger: despawning `p` (and with it everything below it) while some living entity outside that
/// subtree has had an entity of the subtree as relation target since the last fully acknowledged state -
/// a client may still know it as a child (the re-attachment travels as a mutation and can be late or lost).
pub fn f17_trigger(
    sim: &Sim,
    ever_parent: &std::collections::BTreeMap<String, std::collections::BTreeSet<String>>,
    p: &str,
) -> bool {
    let now = current_parents(sim);
    let w = sim.project_server();
    let below = |x: &str| {
        let mut cur = Some(x.to_string());
        while let Some(y) = cur {
            if y == p {
                return true;
            }
            cur = now.get(&y).cloned();
        }
        false
    };
    ever_parent.iter().any(|(c, olds)| {
        w["world"][c]["alive"] == json!(true) && !below(c) && olds.iter().any(|o| below(o))
    })
}

fn note_parents(sim: &Sim, ever: &mut std::collections::BTreeMap<String, std::collections::BTreeSet<String>>, reset: bool) {
    if reset {
        ever.clear();
    }
    for (c, p) in current_parents(sim) {
        ever.entry(c).or_default().insert(p);
    }
}

/// One random run; returns the number of steps recorded.
pub fn random_run<W: Write>(tr: &mut Trace<W>, cfg: Cfg, prof: &Profile, seed: u64, run: u64) -> Sim {
    let mut rng = Rng::new(seed);
    let mut sim = Sim::new(cfg);
    if prof.pad > 0 {
        for (i, slot) in sim.slots.values_mut().enumerate() {
            slot.pad = prof.pad + 7 * i;
        }
    }
    tr.start_run(&sim, run, json!({"seed": seed}));
    let ents: Vec<String> = sim.cfg.ents.clone();
    let clients: Vec<String> = sim.cfg.clients.clone();
    // warm-up: the very first server frame replicates (tick 0) whether or not the tick changed
    tr.step(&mut sim, "SrvFrame", json!({"tick": false, "dt": 0}));
    for c in &clients {
        tr.step(&mut sim, "Connect", json!({"c": c}));
        if sim.cfg.auth == "custom" && rng.chance(2, 3) {
            tr.step(&mut sim, "Authorize", json!({"c": c}));
        }
    }
    let mut next_id: u32 = 0;
    let mut ever_parent: std::collections::BTreeMap<String, std::collections::BTreeSet<String>> = Default::default();
    // some runs of the event profiles: a long quiet stretch early on, so that clients that (re)connect or are
    // authorized later hold update ticks of a different magnitude (>= 128: two-byte varint) than the others
    let long_at = if prof.events && rng.chance(1, 5) { Some(3 + rng.below(6)) } else { None };
    // some runs of the other profiles start late: ticks of two varint bytes in every message
    if !prof.events && !prof.pre && rng.chance(1, 10) {
        for _ in 0..130 {
            tr.step(&mut sim, "SrvFrame", json!({"tick": true, "dt": 0}));
        }
    }
    for step_no in 0..prof.steps {
        if long_at == Some(step_no) {
            if sim.op_enabled("Spawn", &json!({"e": ents[0]})) {
                tr.step(&mut sim, "Spawn", json!({"e": ents[0], "comps": ["A"], "repl": true}));
            }
            tr.step(&mut sim, "SrvFrame", json!({"tick": true, "dt": 0}));
            for _ in 0..130 {
                tr.step(&mut sim, "SrvFrame", json!({"tick": true, "dt": 0}));
            }
            // the last client joins (again) now: its update tick is far ahead of the others'
            let late = clients.last().unwrap().clone();
            if prof.sess {
                let ci = sim.ci(&late);
                if sim.clients[ci].entity.is_some() {
                    tr.step(&mut sim, "Disconnect", json!({"c": late}));
                }
                tr.step(&mut sim, "CliFrame", json!({"c": late, "dt": 0}));
                tr.step(&mut sim, "SrvFrame", json!({"tick": false, "dt": 0}));
                tr.step(&mut sim, "Connect", json!({"c": late}));
            }
            tr.step(&mut sim, "SrvFrame", json!({"tick": true, "dt": 0}));
            next_id += 1;
            tr.step(&mut sim, "EmitS", json!({"t": "SOrd", "id": next_id, "mode": "all", "to": "none", "e": "none"}));
            next_id += 1;
            tr.step(&mut sim, "EmitS", json!({"t": "SMap", "id": next_id, "mode": "all", "to": "none", "e": ents[0]}));
            tr.step(&mut sim, "SrvFrame", json!({"tick": true, "dt": 0}));
        }
        if !prof.events && !prof.pre && ents.len() >= 2 && rng.chance(1, 30) {
            // an acknowledgement arrives after one of the entities of the acknowledged message has gone
            // (despawned, un-marked or hidden) - the others must still be confirmed
            let c = rng.pick(&clients).clone();
            let ci = sim.ci(&c);
            let live: Vec<String> = ents.iter().filter(|x| sim.op_enabled("Mutate", &json!({"e": x, "k": "A"}))).cloned().collect();
            if sim.clients[ci].entity.is_some() && live.len() >= 2 && !(prof.rel && prof.clean) {
                tr.sync(&mut sim);
                for x in &live {
                    tr.step(&mut sim, "Mutate", json!({"e": x, "k": "A"}));
                }
                tr.step(&mut sim, "SrvFrame", json!({"tick": true, "dt": 0}));
                while sim.channel_len(&c, "s2c", CH_MUT) > 0 {
                    tr.step(&mut sim, "DeliverMut", json!({"c": c, "pos": 0}));
                }
                tr.step(&mut sim, "CliFrame", json!({"c": c, "dt": 0}));
                let gone = rng.pick(&live).clone();
                let how = rng.below(3);
                if how == 0 && prof.vis {
                    tr.step(&mut sim, "SetVis", json!({"c": c, "e": gone, "v": false}));
                } else if how == 1 && prof.marks {
                    tr.step(&mut sim, "Unmark", json!({"e": gone}));
                } else {
                    tr.step(&mut sim, "Despawn", json!({"e": gone}));
                }
                tr.step(&mut sim, "SrvFrame", json!({"tick": true, "dt": 0}));
                while sim.channel_len(&c, "c2s", CH_ACK) > 0 {
                    tr.step(&mut sim, "DeliverAck", json!({"c": c}));
                }
                tr.step(&mut sim, "SrvFrame", json!({"tick": rng.chance(1, 2), "dt": 0}));
                continue;
            }
        }
        if !prof.events && prof.comps.len() >= 2 && rng.chance(1, 25) {
            // several structural changes of one entity spread over the frames of one tick window
            let x = rng.pick(&ents).clone();
            let (k1, k2) = (prof.comps[0], prof.comps[1]);
            if sim.op_enabled("Remove", &json!({"e": x, "k": k1})) && sim.op_enabled("Remove", &json!({"e": x, "k": k2})) {
                tr.step(&mut sim, "Remove", json!({"e": x, "k": k1}));
                tr.step(&mut sim, "SrvFrame", json!({"tick": false, "dt": 0}));
                tr.step(&mut sim, "Remove", json!({"e": x, "k": k2}));
                if rng.chance(1, 3) {
                    tr.step(&mut sim, "SrvFrame", json!({"tick": false, "dt": 0}));
                    if !(prof.rel && prof.clean) {
                        tr.step(&mut sim, "Despawn", json!({"e": x}));
                    }
                }
                continue;
            }
        }
        if prof.sess && !prof.events && rng.chance(1, 25) {
            // a client leaves while a mutate message is buffered for an update message it never gets
            let c = rng.pick(&clients).clone();
            let e = rng.pick(&ents).clone();
            let ci = sim.ci(&c);
            if sim.clients[ci].entity.is_some() && sim.project_server()["running"] == json!(true) {
                if sim.op_enabled("Spawn", &json!({"e": e})) {
                    tr.step(&mut sim, "Spawn", json!({"e": e, "comps": ["A"], "repl": true}));
                }
                if sim.op_enabled("Mutate", &json!({"e": e, "k": "A"})) {
                    tr.sync(&mut sim);
                    let k2 = if sim.op_enabled("Insert", &json!({"e": e, "k": "B"})) { "Insert" } else { "Remove" };
                    tr.step(&mut sim, k2, json!({"e": e, "k": "B"}));
                    tr.step(&mut sim, "SrvFrame", json!({"tick": true, "dt": 0}));
                    tr.step(&mut sim, "Mutate", json!({"e": e, "k": "A"}));
                    tr.step(&mut sim, "SrvFrame", json!({"tick": true, "dt": 0}));
                    while sim.channel_len(&c, "s2c", CH_MUT) > 0 {
                        tr.step(&mut sim, "DeliverMut", json!({"c": c, "pos": 0}));
                    }
                    tr.step(&mut sim, "CliFrame", json!({"c": c, "dt": 0}));
                    tr.step(&mut sim, "Disconnect", json!({"c": c}));
                    tr.step(&mut sim, "CliFrame", json!({"c": c, "dt": 0}));
                    tr.step(&mut sim, "SrvFrame", json!({"tick": rng.chance(1, 2), "dt": 0}));
                    tr.step(&mut sim, "Connect", json!({"c": c}));
                    continue;
                }
            }
        }
        if prof.events && rng.chance(1, 3) {
            // event traffic
            let c = rng.pick(&clients).clone();
            let e = if rng.chance(1, 2) { rng.pick(&ents).clone() } else { "none".to_string() };
            next_id += 1;
            if prof.sess && rng.chance(1, 12) {
                // a client event is already in the server's receive queue when its sender disconnects
                let ci = sim.ci(&c);
                if sim.clients[ci].entity.is_some() {
                    tr.step(&mut sim, "EmitC", json!({"c": c, "t": "COrd", "id": next_id, "e": "none"}));
                    tr.step(&mut sim, "CliFrame", json!({"c": c, "dt": 0}));
                    tr.step(&mut sim, "DeliverEvC", json!({"c": c, "t": "COrd", "pos": 0}));
                    while sim.channel_len(&c, "c2s", CH_ACK) > 0 {
                        tr.step(&mut sim, "DeliverAck", json!({"c": c}));
                    }
                    tr.step(&mut sim, "Disconnect", json!({"c": c}));
                    tr.step(&mut sim, "CliFrame", json!({"c": c, "dt": 0}));
                    tr.step(&mut sim, "SrvFrame", json!({"tick": rng.chance(1, 2), "dt": 0}));
                    tr.step(&mut sim, "Connect", json!({"c": c}));
                    continue;
                }
            }
            if rng.chance(1, 6) {
                // an event overtakes the update message of its tick and is queued on the client; a later
                // event of the same type then arrives together with the delayed update message
                let t = if rng.chance(1, 2) { "SOrd" } else { "STrig" };
                let e = ents[0].clone();
                tr.step(&mut sim, "Spawn", json!({"e": ents[rng.below(ents.len())], "comps": ["A"], "repl": true}));
                tr.step(&mut sim, "Mutate", json!({"e": e, "k": "A"}));
                tr.step(&mut sim, "Insert", json!({"e": e, "k": "B"}));
                tr.step(&mut sim, "EmitS", json!({"t": t, "id": next_id, "mode": "all", "to": "none", "e": "none"}));
                tr.step(&mut sim, "SrvFrame", json!({"tick": true, "dt": 0}));
                tr.step(&mut sim, "DeliverEvS", json!({"c": c, "t": t, "pos": 0}));
                tr.step(&mut sim, "CliFrame", json!({"c": c, "dt": 0}));
                next_id += 1;
                tr.step(&mut sim, "EmitS", json!({"t": t, "id": next_id, "mode": "all", "to": "none", "e": "none"}));
                tr.step(&mut sim, "SrvFrame", json!({"tick": true, "dt": 0}));
                while sim.channel_len(&c, "s2c", CH_UPD) > 0 {
                    tr.step(&mut sim, "DeliverUpd", json!({"c": c}));
                }
                tr.step(&mut sim, "DeliverEvS", json!({"c": c, "t": t, "pos": 0}));
                tr.step(&mut sim, "CliFrame", json!({"c": c, "dt": 0}));
                continue;
            }
            if rng.chance(1, 12) {
                // a mapped event / a trigger aimed at an entity the client will not be able to resolve when the
                // event's tick arrives (despawned in the same window, or never replicated): it must be withheld
                let t = *rng.pick(&["STrig", "SMap", "SMTrig"]);
                let x = rng.pick(&ents).clone();
                if sim.op_enabled("Spawn", &json!({"e": x})) {
                    tr.step(&mut sim, "Spawn", json!({"e": x, "comps": ["A"], "repl": rng.chance(1, 2)}));
                }
                if sim.op_enabled("Despawn", &json!({"e": x})) {
                    tr.step(&mut sim, "EmitS", json!({"t": t, "id": next_id, "mode": "all", "to": "none", "e": x}));
                    if rng.chance(2, 3) {
                        tr.step(&mut sim, "Despawn", json!({"e": x}));
                    }
                    tr.step(&mut sim, "SrvFrame", json!({"tick": true, "dt": 0}));
                    tr.sync(&mut sim);
                    continue;
                }
            }
            if prof.sess && rng.chance(1, 12) {
                // a server event is queued on the client (it overtook its update message) when the session ends;
                // in the next session an event is queued again: only the new one may come out
                let ci = sim.ci(&c);
                if sim.clients[ci].entity.is_some() {
                    for round in 0..2 {
                        let x = ents[rng.below(ents.len())].clone();
                        if sim.op_enabled("Spawn", &json!({"e": x})) {
                            tr.step(&mut sim, "Spawn", json!({"e": x, "comps": ["A"], "repl": true}));
                        } else if sim.op_enabled("Insert", &json!({"e": x, "k": "B"})) {
                            tr.step(&mut sim, "Insert", json!({"e": x, "k": "B"}));
                        } else if sim.op_enabled("Remove", &json!({"e": x, "k": "B"})) {
                            tr.step(&mut sim, "Remove", json!({"e": x, "k": "B"}));
                        }
                        next_id += 1;
                        tr.step(&mut sim, "EmitS", json!({"t": "SOrd", "id": next_id, "mode": "all", "to": "none", "e": "none"}));
                        tr.step(&mut sim, "SrvFrame", json!({"tick": true, "dt": 0}));
                        while sim.channel_len(&c, "s2c", sim.sev_ch("SOrd")) > 0 {
                            tr.step(&mut sim, "DeliverEvS", json!({"c": c, "t": "SOrd", "pos": 0}));
                        }
                        tr.step(&mut sim, "CliFrame", json!({"c": c, "dt": 0}));
                        if round == 0 {
                            tr.step(&mut sim, "Disconnect", json!({"c": c}));
                            tr.step(&mut sim, "CliFrame", json!({"c": c, "dt": 0}));
                            tr.step(&mut sim, "SrvFrame", json!({"tick": false, "dt": 0}));
                            tr.step(&mut sim, "Connect", json!({"c": c}));
                        }
                    }
                    tr.sync(&mut sim);
                    continue;
                }
            }
            if rng.chance(1, 10) {
                // unreliable channels: several events pile up, arrive out of order, one is lost
                let server_side = rng.chance(1, 2);
                for _ in 0..3 {
                    if server_side {
                        tr.step(&mut sim, "EmitS", json!({"t": "SUnr", "id": next_id, "mode": "all", "to": "none", "e": "none"}));
                        tr.step(&mut sim, "SrvFrame", json!({"tick": true, "dt": 0}));
                    } else {
                        tr.step(&mut sim, "EmitC", json!({"c": c, "t": "CUnr", "id": next_id, "e": "none"}));
                        tr.step(&mut sim, "CliFrame", json!({"c": c, "dt": 0}));
                    }
                    next_id += 1;
                }
                let (del, drop, t, dir, ch) = if server_side {
                    ("DeliverEvS", "DropEvS", "SUnr", "s2c", sim.sev_ch("SUnr"))
                } else {
                    ("DeliverEvC", "DropEvC", "CUnr", "c2s", sim.cev_ch("CUnr"))
                };
                let mut lost = false;
                while sim.channel_len(&c, dir, ch) > 0 {
                    let n = sim.channel_len(&c, dir, ch);
                    let pos = if rng.chance(2, 3) { n - 1 } else { rng.below(n) };
                    let ev = if !lost && rng.chance(1, 3) { lost = true; drop } else { del };
                    tr.step(&mut sim, ev, json!({"c": c, "t": t, "pos": pos}));
                    if rng.chance(1, 3) {
                        let frame = if server_side { json!({"c": c, "dt": 0}) } else { json!({"tick": false, "dt": 0}) };
                        tr.step(&mut sim, if server_side { "CliFrame" } else { "SrvFrame" }, frame);
                    }
                }
                continue;
            }
            match rng.below(10) {
                0..=3 => {
                    let t = *rng.pick(&crate::events::SEV);
                    let (mode, to) = match rng.below(4) {
                        0 | 1 => ("all", "none".to_string()),
                        2 => ("except", c.clone()),
                        _ => ("direct", c.clone()),
                    };
                    let e = if (t == "SMap" || t == "SMTrig") && e == "none" { ents[0].clone() } else if t == "SOrd" || t == "SInd" || t == "SUnr" { "none".into() } else { e };
                    tr.step(&mut sim, "EmitS", json!({"t": t, "id": next_id, "mode": mode, "to": to, "e": e}));
                }
                4..=5 => {
                    let t = *rng.pick(&crate::events::CEV);
                    let e = if t == "CMap" && e == "none" { ents[0].clone() } else if t == "COrd" || t == "CUnr" { "none".into() } else { e };
                    tr.step(&mut sim, "EmitC", json!({"c": c, "t": t, "id": next_id, "e": e}));
                }
                6..=7 => {
                    let t = *rng.pick(&crate::events::SEV);
                    // an unreliable channel delivers in any order and may lose messages
                    let n = sim.channel_len(&c, "s2c", sim.sev_ch(t));
                    if t == "SUnr" && n > 0 {
                        let pos = rng.below(n);
                        let ev = if rng.chance(1, 4) { "DropEvS" } else { "DeliverEvS" };
                        tr.step(&mut sim, ev, json!({"c": c, "t": t, "pos": pos}));
                    } else {
                        tr.step(&mut sim, "DeliverEvS", json!({"c": c, "t": t, "pos": 0}));
                    }
                }
                8 => {
                    let t = *rng.pick(&crate::events::CEV);
                    let n = sim.channel_len(&c, "c2s", sim.cev_ch(t));
                    if t == "CUnr" && n > 0 {
                        let pos = rng.below(n);
                        let ev = if rng.chance(1, 4) { "DropEvC" } else { "DeliverEvC" };
                        tr.step(&mut sim, ev, json!({"c": c, "t": t, "pos": pos}));
                    } else {
                        tr.step(&mut sim, "DeliverEvC", json!({"c": c, "t": t, "pos": 0}));
                    }
                }
                _ => {
                    if sim.cfg.auth == "custom" {
                        tr.step(&mut sim, "Authorize", json!({"c": c}));
                    }
                }
            }
            continue;
        }
        if prof.pre && prof.rel && prof.vis && rng.chance(1, 12) {
            // a client learns of a server entity through a reference first (its parent is still hidden from it);
            // the mapping to a pre-spawned entity arrives together with the entity itself
            let c = rng.pick(&clients).clone();
            let free: Vec<String> = ents.iter().filter(|x| sim.op_enabled("Spawn", &json!({"e": x}))).cloned().collect();
            let ci = sim.ci(&c);
            if free.len() >= 2 && sim.clients[ci].entity.is_some() {
                let (par, child) = (free[0].clone(), free[1].clone());
                let p = format!("p{}", 1 + rng.below(2));
                tr.step(&mut sim, "Spawn", json!({"e": par, "comps": ["A"], "repl": true}));
                tr.step(&mut sim, "SetVis", json!({"c": c, "e": par, "v": false}));
                tr.step(&mut sim, "Spawn", json!({"e": child, "comps": ["A"], "repl": true}));
                tr.step(&mut sim, "Relate", json!({"e": child, "p": par}));
                tr.sync(&mut sim);
                tr.step(&mut sim, "Prespawn", json!({"c": c, "p": p}));
                if tr.step(&mut sim, "MapPre", json!({"c": c, "e": par, "p": p})) {
                    tr.step(&mut sim, "SetVis", json!({"c": c, "e": par, "v": true}));
                    tr.sync(&mut sim);
                }
                continue;
            }
        }
        if prof.pre && rng.chance(1, 5) {
            // pre-spawned client entities and their mapping
            let c = rng.pick(&clients).clone();
            let p = format!("p{}", 1 + rng.below(2));
            let e = rng.pick(&ents).clone();
            match rng.below(10) {
                0..=3 => tr.step(&mut sim, "Prespawn", json!({"c": c, "p": p})),
                4..=7 => {
                    // typical use: map, then spawn the server entity in the same or a later frame
                    let ok = tr.step(&mut sim, "MapPre", json!({"c": c, "e": e, "p": p}));
                    if ok && rng.chance(1, 2) {
                        tr.step(&mut sim, "SrvFrame", json!({"tick": false, "dt": 0}));
                    }
                    ok
                }
                _ => tr.step(&mut sim, "KillPre", json!({"c": c, "p": p})),
            };
            continue;
        }
        if prof.pad > 0 && rng.chance(1, 7) {
            // everything changes at once: with a small maximum message size the tick needs several messages
            for e in &ents {
                for k in &prof.comps {
                    tr.step(&mut sim, "Mutate", json!({"e": e, "k": k}));
                }
            }
            tr.step(&mut sim, "SrvFrame", json!({"tick": true, "dt": 0}));
            continue;
        }
        if rng.chance(1, 14) {
            // acknowledged state in the middle of the run, then the history goes on
            tr.sync(&mut sim);
            if prof.rel {
                note_parents(&sim, &mut ever_parent, true);
            }
            continue;
        }
        let e = rng.pick(&ents).clone();
        let c = rng.pick(&clients).clone();
        let k = *rng.pick(&prof.comps);
        let r = rng.below(100);
        // relation profiles: a good share of the component operations become relation operations
        let r = if prof.rel && (21..=40).contains(&r) && rng.chance(2, 5) { 47 } else { r };
        let (ev, args): (&str, Value) = match r {
            0..=7 => {
                let mut comps = Vec::new();
                for k in &prof.comps {
                    if rng.chance(1, 2) {
                        comps.push(*k);
                    }
                }
                ("Spawn", json!({"e": e, "comps": comps, "repl": !prof.marks || rng.chance(5, 6)}))
            }
            8..=11 => {
                // clean relation profile: avoid the trigger of known finding F17 (an entity that was the
                // relation target of a still living entity at the last tick, but is not any more)
                if prof.rel && prof.clean && f17_trigger(&sim, &ever_parent, &e) {
                    continue;
                }
                ("Despawn", json!({"e": e}))
            }
            12..=14 if prof.marks => (if rng.chance(1, 2) { "Mark" } else { "Unmark" }, json!({"e": e})),
            15..=20 => ("Insert", json!({"e": e, "k": k})),
            21..=25 => ("Remove", json!({"e": e, "k": k})),
            26..=40 => ("Mutate", json!({"e": e, "k": k})),
            41..=46 if prof.vis => {
                let v = rng.chance(1, 2);
                // half of the time aim at an entity the client can currently see
                let seen: Vec<String> = ents
                    .iter()
                    .filter(|x| sim.op_enabled("Despawn", &json!({"e": x})) && sim.is_visible(&c, x) == Some(true))
                    .cloned()
                    .collect();
                let e = if !seen.is_empty() && rng.chance(1, 2) { rng.pick(&seen).clone() } else { e };
                if rng.chance(1, 3) && sim.op_enabled("Despawn", &json!({"e": e})) && !(prof.rel && prof.clean) {
                    // a visibility change and the end of the entity (or of its replication) inside one tick window
                    let v = if rng.chance(3, 4) { !sim.is_visible(&c, &e).unwrap_or(v) } else { v };
                    tr.step(&mut sim, "SetVis", json!({"c": c, "e": e, "v": v}));
                    if rng.chance(1, 3) {
                        tr.step(&mut sim, "SetVis", json!({"c": c, "e": e, "v": !v}));
                    }
                    if rng.chance(1, 3) {
                        tr.step(&mut sim, "SrvFrame", json!({"tick": false, "dt": 0}));
                    }
                    let end = if prof.marks && rng.chance(1, 3) && sim.op_enabled("Unmark", &json!({"e": e})) { "Unmark" } else { "Despawn" };
                    tr.step(&mut sim, end, json!({"e": e}));
                    continue;
                }
                if rng.chance(1, 3) {
                    // repeated and mutually cancelling calls inside one tick window
                    tr.step(&mut sim, "SetVis", json!({"c": c, "e": e, "v": v}));
                    if rng.chance(1, 3) {
                        tr.step(&mut sim, "SrvFrame", json!({"tick": false, "dt": 0}));
                    }
                    tr.step(&mut sim, "SetVis", json!({"c": c, "e": e, "v": !v}));
                    if rng.chance(1, 2) {
                        continue;
                    }
                }
                ("SetVis", json!({"c": c, "e": e, "v": v}))
            }
            47..=50 if prof.rel => {
                let mut p = rng.pick(&ents).clone();
                for _ in 0..3 {
                    if sim.op_enabled("Relate", &json!({"e": e, "p": p})) {
                        break;
                    }
                    p = rng.pick(&ents).clone();
                }
                if rng.chance(2, 3) { ("Relate", json!({"e": e, "p": p})) } else { ("Unrelate", json!({"e": e})) }
            }
            51..=58 => ("SrvFrame", json!({"tick": false, "dt": if rng.chance(1, 2) { prof.dt } else { 0 }})),
            59..=72 => ("SrvFrame", json!({"tick": true, "dt": if rng.chance(1, 2) { prof.dt } else { 0 }})),
            73..=78 => ("DeliverUpd", json!({"c": c})),
            79..=84 => {
                let n = sim.channel_len(&c, "s2c", CH_MUT);
                if n == 0 {
                    continue;
                }
                let pos = rng.below(n);
                (if rng.chance(1, 4) { "DropMut" } else { "DeliverMut" }, json!({"c": c, "pos": pos}))
            }
            85..=92 => ("CliFrame", json!({"c": c, "dt": 0})),
            93..=96 => ("DeliverAck", json!({"c": c})),
            97..=98 if prof.sess => {
                if rng.chance(1, 4) {
                    // server restart: everything of the old run is gone; clients join the new one
                    tr.step(&mut sim, "Stop", json!({}));
                    for c in &clients {
                        tr.step(&mut sim, "CliFrame", json!({"c": c, "dt": 0}));
                    }
                    tr.step(&mut sim, "SrvFrame", json!({"tick": false, "dt": 0}));
                    if rng.chance(1, 2) {
                        let e = rng.pick(&ents).clone();
                        tr.step(&mut sim, "Despawn", json!({"e": e}));
                        tr.step(&mut sim, "SrvFrame", json!({"tick": rng.chance(1, 2), "dt": 0}));
                    }
                    tr.step(&mut sim, "Start", json!({}));
                    tr.step(&mut sim, "SrvFrame", json!({"tick": false, "dt": 0}));
                    for c in &clients {
                        tr.step(&mut sim, "Connect", json!({"c": c}));
                    }
                    continue;
                }
                let ci = sim.ci(&c);
                if sim.clients[ci].entity.is_some() && rng.chance(1, 3) {
                    // the session ends through the Connecting state: Connected -> Connecting -> Disconnected
                    tr.step(&mut sim, "LoseToConnecting", json!({"c": c}));
                    tr.step(&mut sim, "CliFrame", json!({"c": c, "dt": 0}));
                    tr.step(&mut sim, "GiveUp", json!({"c": c}));
                    tr.step(&mut sim, "CliFrame", json!({"c": c, "dt": 0}));
                } else if sim.clients[ci].entity.is_some() {
                    tr.step(&mut sim, "Disconnect", json!({"c": c}));
                    tr.step(&mut sim, "CliFrame", json!({"c": c, "dt": 0}));
                    if rng.chance(1, 2) {
                        tr.step(&mut sim, "SrvFrame", json!({"tick": rng.chance(1, 2), "dt": 0}));
                    }
                }
                ("Connect", json!({"c": c}))
            }
            _ => continue,
        };
        let ticked = ev == "SrvFrame" && args["tick"] == json!(true);
        tr.step(&mut sim, ev, args);
        let _ = ticked;
        if prof.rel && matches!(ev, "Relate" | "Spawn") {
            note_parents(&sim, &mut ever_parent, false);
        }
        if sim.server_panicked || sim.clients.iter().any(|c| c.panicked) {
            break;
        }
    }
    if !(sim.server_panicked || sim.clients.iter().any(|c| c.panicked)) {
        tr.settle(&mut sim, prof.settle);
    }
    sim
}
