#!/usr/bin/env python3
"""Runs the quick checks against every seeded breakage kept in seeded/ and writes seeded/RESULTS.md.

usage: bin/seedbatch.py [seed ...]

For each seed: `git -C /repo apply` of its patch, the quick check of its own property (plus the checks
named in EXTRA for the seeds whose symptom belongs to a neighbouring property), revert straight afterwards
(bin/seedeval.py does the applying / reverting; SEED_SKIP_VALIDATE=1 skips the scratch-worktree validation,
which was done when the seed was accepted and is recorded in its meta.json).  Nothing is committed to /repo."""
import json
import os
import subprocess
import sys

VERIF = os.path.dirname(os.path.dirname(os.path.abspath(__file__)))
EXTRA = {"C06_2": ["C05", "C09"], "C07_2": ["C14"], "C14_2": ["C06"], "C07_5": ["C14"], "C13_6": ["C09"], "C06_8": ["C05", "C09"], "C02_10": ["C17"]}


def main():
    append = "--append" in sys.argv
    sys.argv = [a for a in sys.argv if a != "--append"]
    seeds = sys.argv[1:] or sorted(d for d in os.listdir(os.path.join(VERIF, "seeded"))
                                   if os.path.isfile(os.path.join(VERIF, "seeded", d, "patch.diff")))
    rows = []
    for s in seeds:
        sd = os.path.join(VERIF, "seeded", s)
        meta = json.load(open(os.path.join(sd, "meta.json")))
        checks = [meta["property"]] + EXTRA.get(s, [])
        if subprocess.run(["git", "-C", "/repo", "status", "--short"], capture_output=True, text=True).stdout.strip():
            print("ERROR: /repo working tree is not clean", file=sys.stderr)
            return 2
        r = subprocess.run([os.path.join(VERIF, "bin", "seedeval.py"), sd] + checks, capture_output=True, text=True,
                           env=dict(os.environ, SEED_SKIP_VALIDATE="1"))
        try:
            res = json.loads(r.stdout.strip().splitlines()[-1])
        except Exception:
            res = {"error": (r.stdout + r.stderr)[-300:]}
        rows.append((s, meta, res))
        print(s, json.dumps({c: (v["rc"], v["violations"]) for c, v in res.get("checks", {}).items()}), res.get("error", ""), flush=True)
    out = ["# Seeded breakages against the registered quick checks", "",
           "Written by `bin/seedbatch.py`. Each row: the patch applied to /repo's working tree, the quick check(s) run,",
           "the patch reverted. `caught` = exit 1 with a VIOLATION line; `tool error` = exit 2; `missed` = exit 0.", "",
           "| seed | property | what the change does | check: outcome (first reported symptom) |", "|---|---|---|---|"]
    # --append: rows of seeds not run now are kept from the existing RESULTS.md
    kept = {}
    rp = os.path.join(VERIF, "seeded", "RESULTS.md")
    if append and os.path.exists(rp):
        for line in open(rp):
            if line.startswith("| C"):
                kept[line.split("|")[1].strip()] = line.rstrip("\n")
    caught = 0
    new_rows = {}
    for s, meta, res in rows:
        cells = []
        ok = False
        for c, v in res.get("checks", {}).items():
            word = "caught" if v["rc"] == 1 and v["violations"] else ("tool error" if v["rc"] == 2 else "missed")
            ok = ok or word == "caught"
            sym = (v["detail"][0] if v.get("detail") else "")[:140].replace("|", "/")
            cells.append(f"{c}: **{word}** {sym}")
        caught += ok
        what = (meta.get("summary") or meta.get("what") or meta.get("description") or "")[:160].replace("|", "/").replace("\n", " ")
        new_rows[s] = f"| {s} | {meta['property']} | {what} | {'<br>'.join(cells) or res.get('error', '')} |"
    kept.update(new_rows)
    for s in sorted(kept):
        out.append(kept[s])
    caught = sum(1 for r in kept.values() if "**caught**" in r)
    rows = list(kept)
    out += ["", f"{caught} of {len(rows)} seeds are caught by at least one of the checks run for them."]
    with open(os.path.join(VERIF, "seeded", "RESULTS.md"), "w") as f:
        f.write("\n".join(out) + "\n")
    return 0


if __name__ == "__main__":
    sys.exit(main())
