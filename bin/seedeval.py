#!/usr/bin/env python3
"""Evaluates seeded breakages (candidate mutants written by independent agents).

usage: bin/seedeval.py <seed dir> [<check id> ...]

For a seed directory containing patch.diff, seed_demo.rs and meta.json:
  1. in a scratch worktree of /repo's HEAD (outside /repo and /verif): the demonstration passes
     without the patch; with the patch the library compiles, the existing suite passes and the
     demonstration fails;
  2. the patch is applied to /repo's working tree, the given checks (default: the seed's own
     property) are run at the quick tier, and the patch is reverted straight afterwards.
Prints one JSON line with the outcome.  Nothing is committed anywhere.
"""
import json
import os
import shutil
import subprocess
import sys
import time

WT = "/tmp/seedwt"
TARGET = "/tmp/seedwt_target"


def sh(cmd, cwd=None, env=None, timeout=3600):
    r = subprocess.run(cmd, cwd=cwd, env=env, shell=isinstance(cmd, str), stdout=subprocess.PIPE,
                       stderr=subprocess.STDOUT, text=True, timeout=timeout)
    return r.returncode, r.stdout


def suite(cwd, env, extra=""):
    rc, out = sh(f"cargo test --workspace --offline {extra} 2>&1", cwd=cwd, env=env)
    passed = failed = 0
    for line in out.splitlines():
        if line.startswith("test result:"):
            parts = line.split()
            passed += int(parts[3])
            failed += int(parts[5])
    return rc, passed, failed, out


def main():
    seed = os.path.abspath(sys.argv[1])
    meta = json.load(open(os.path.join(seed, "meta.json")))
    prop = meta.get("property")
    checks = sys.argv[2:] or [prop]
    patch = os.path.join(seed, "patch.diff")
    res = {"seed": os.path.basename(seed), "property": prop}
    env = dict(os.environ, CARGO_TARGET_DIR=TARGET, CARGO_NET_OFFLINE="true")
    if os.environ.get("SEED_SKIP_VALIDATE"):
        return run_checks(res, patch, checks)
    if not os.path.isdir(WT):
        sh(["git", "-C", "/repo", "worktree", "prune"])
        rc, out = sh(["git", "-C", "/repo", "worktree", "add", "--detach", WT, "HEAD"])
        if rc != 0:
            print(json.dumps({**res, "error": "worktree: " + out[-300:]}))
            return 2
    else:
        sh("git checkout -q --detach && git reset -q --hard && git clean -fdq", cwd=WT)
        head = subprocess.check_output(["git", "-C", "/repo", "rev-parse", "HEAD"], text=True).strip()
        sh(["git", "checkout", "-q", "--detach", head], cwd=WT)
    # demonstration without the patch
    backend = "example_backend" in json.dumps(meta)
    demo_path = os.path.join(WT, "bevy_replicon_example_backend" if backend else "", "tests", "seed_demo.rs")
    demo_cmd = ("cargo test --offline -p bevy_replicon_example_backend --test seed_demo 2>&1" if backend
                else "cargo test --offline --test seed_demo 2>&1")
    shutil.copy(os.path.join(seed, "seed_demo.rs"), demo_path)
    rc, out = sh(demo_cmd, cwd=WT, env=env)
    res["demo_without_patch_passes"] = rc == 0
    # apply the patch
    rc, out = sh(["git", "apply", "--3way", patch], cwd=WT)
    if rc != 0:
        rc, out = sh(["git", "apply", patch], cwd=WT)
    res["applies_to_head"] = rc == 0
    if rc != 0:
        res["apply_error"] = out[-400:]
        print(json.dumps(res))
        return 1
    rc, out = sh(demo_cmd, cwd=WT, env=env)
    res["demo_with_patch_fails"] = rc != 0
    os.remove(demo_path)
    rc, passed, failed, out = suite(WT, env)
    res["suite_with_patch"] = {"rc": rc, "passed": passed, "failed": failed}
    res["valid"] = bool(res["demo_without_patch_passes"] and res["demo_with_patch_fails"] and rc == 0 and failed == 0)
    sh("git reset -q --hard && git clean -fdq", cwd=WT)
    if os.environ.get("SEED_VALIDATE_ONLY"):
        print(json.dumps(res))
        return 0
    return run_checks(res, patch, checks)


def run_checks(res, patch, checks):
    # run the checks against /repo with the patch applied
    rc, out = sh(["git", "-C", "/repo", "apply", "--3way", patch])
    if rc != 0:
        rc, out = sh(["git", "-C", "/repo", "apply", patch])
    if rc != 0:
        res["repo_apply_error"] = out[-300:]
        print(json.dumps(res))
        return 1
    res["checks"] = {}
    try:
        for c in checks:
            t0 = time.time()
            rc, out = sh(["bin/check", c, "--tier", "quick"], cwd="/verif", timeout=3600)
            viol = [l for l in out.splitlines() if l.startswith("VIOLATION")]
            res["checks"][c] = {"rc": rc, "violations": len(viol), "first": (viol[0] if viol else ""),
                                "detail": [l.strip() for l in out.splitlines() if l.startswith("  ")][:2],
                                "wall_s": round(time.time() - t0, 1)}
    finally:
        sh("git -C /repo reset -q && git -C /repo checkout -- .", cwd="/repo")
        rc, out = sh("git -C /repo status --short")
        res["repo_clean_after"] = out.strip() == ""
    print(json.dumps(res))
    return 0


if __name__ == "__main__":
    sys.exit(main())
