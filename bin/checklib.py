"""Shared machinery of /verif/bin/check: build, TLC runs, evidence, verdicts.

Exit codes of a check: 0 = property held on everything explored (KNOWN-FINDING lines allowed),
1 = at least one `VIOLATION property=<id> replay=<path>` line was printed, 2 = tool error
(build failure, TLC crash, decoder surprise, timeout) - nothing is claimed then.
"""
import fcntl
import json
import os
import re
import shutil
import subprocess
import sys
import time

VERIF = os.path.dirname(os.path.dirname(os.path.abspath(__file__)))
HARNESS = os.path.join(VERIF, "harness")
SPEC = os.path.join(VERIF, "spec")
WORK = os.path.join(VERIF, "work")
EVIDENCE = os.path.join(VERIF, "evidence")
REPLAYS = os.path.join(VERIF, "replays")
TLA_CP = "/opt/veriftools/tla/tla2tools.jar:/opt/veriftools/tla/CommunityModules-deps.jar"


class ToolError(Exception):
    pass


def log(*a):
    print(*a, file=sys.stderr, flush=True)


def seed_from_env():
    try:
        return int(os.environ.get("VERIF_SEED", "1"))
    except ValueError:
        return 1


def workdir(name):
    d = os.path.join(WORK, f"{name}-{os.getpid()}")
    shutil.rmtree(d, ignore_errors=True)
    os.makedirs(d)
    return d


def build_harness():
    """Rebuilds the harness (and with it /repo, a path dependency) from the current working tree."""
    os.makedirs(WORK, exist_ok=True)
    lock = open(os.path.join(WORK, "build.lock"), "w")
    fcntl.flock(lock, fcntl.LOCK_EX)
    try:
        t0 = time.time()
        env = dict(os.environ, CARGO_NET_OFFLINE="true")
        r = subprocess.run(["cargo", "build", "--offline", "--quiet"], cwd=HARNESS, env=env,
                           stdout=subprocess.PIPE, stderr=subprocess.STDOUT, text=True)
        if r.returncode != 0:
            log(r.stdout[-4000:])
            raise ToolError("harness build failed")
        log(f"[build] harness built in {time.time() - t0:.1f}s")
    finally:
        fcntl.flock(lock, fcntl.LOCK_UN)
        lock.close()


def harness_bin(name):
    return os.path.join(HARNESS, "target", "debug", name)


def run(cmd, timeout=None, cwd=None, env=None, ok_codes=(0,)):
    """Runs a harness binary; exit code 2 (or anything unexpected) is a tool error."""
    try:
        r = subprocess.run(cmd, cwd=cwd, env=env, stdout=subprocess.PIPE, stderr=subprocess.PIPE,
                           text=True, timeout=timeout)
    except subprocess.TimeoutExpired:
        raise ToolError(f"timeout: {' '.join(cmd)}")
    if r.returncode not in ok_codes:
        log(r.stdout[-3000:])
        log(r.stderr[-3000:])
        raise ToolError(f"exit {r.returncode}: {' '.join(cmd)}")
    return r


STATES_RE = re.compile(r"(\d+) states generated, (\d+) distinct states found")


def run_tlc(module, cfg, wd, workers=8, timeout=600, env_extra=None, xmx="8g", xss=None,
            simulate=None, depth=None, dfs=False, extra_args=(), coverage=False, seed=None, stop_after=None):
    """Runs TLC on SPEC/<module>.tla with SPEC/<cfg>. Returns dict(out, states, distinct, ok, violated, rc).
    stop_after: seconds after which TLC ends the search by itself (exit 0; `left` > 0 = truncated)."""
    jopts = [f"-Xmx{xmx}", "-XX:+UseParallelGC"]
    if stop_after:
        jopts.append(f"-Dtlc2.TLC.stopAfter={int(stop_after)}")
    if xss:
        jopts.append(f"-Xss{xss}")
    if dfs:
        jopts.append("-Dtlc2.tool.queue.IStateQueue=StateDeque")
    cmd = ["java"] + jopts + ["-cp", TLA_CP, "tlc2.TLC", "-workers", str(workers), "-metadir",
                               os.path.join(wd, "meta"), "-cleanup", "-noGenerateSpecTE",
                               "-config", os.path.join(SPEC, cfg)]
    if simulate:
        cmd += ["-simulate", simulate]
    if depth:
        cmd += ["-depth", str(depth)]
    if coverage:
        cmd += ["-coverage", "1"]
    if seed is not None:
        cmd += ["-seed", str(seed)]
    cmd += list(extra_args)
    cmd += [os.path.join(SPEC, module + ".tla")]
    env = dict(os.environ)
    env.pop("JAVA_TOOL_OPTIONS", None)
    if env_extra:
        env.update(env_extra)
    t0 = time.time()
    try:
        r = subprocess.run(cmd, cwd=SPEC, env=env, stdout=subprocess.PIPE, stderr=subprocess.STDOUT,
                           text=True, timeout=timeout)
        out, rc = r.stdout, r.returncode
        timed_out = False
    except subprocess.TimeoutExpired as e:
        out = (e.stdout or b"").decode() if isinstance(e.stdout, bytes) else (e.stdout or "")
        rc, timed_out = -1, True
    wall = time.time() - t0
    states = distinct = 0
    for m in STATES_RE.finditer(out):
        states, distinct = int(m.group(1)), int(m.group(2))
    if simulate and not states:
        m = re.search(r"(\d+) states checked", out)
        if m:
            states = distinct = int(m.group(1))
    violated = ("is violated" in out) or ("Error: Invariant" in out) or ("Error: Action property" in out) \
        or ("Temporal properties were violated" in out)
    m = re.search(r"(\d+) states left on queue", out)
    left = int(m.group(1)) if m else 0
    finished = "Model checking completed. No error has been found." in out or \
               (simulate is not None and not violated and rc == 0) or \
               (stop_after and rc == 0 and m is not None and "Finished in" in out)
    if not violated and not finished and not (simulate and timed_out):
        with open(os.path.join(wd, f"tlc-{module}-{cfg}.log"), "w") as f:
            f.write(out)
        raise ToolError(f"TLC did not finish cleanly on {module}/{cfg} (rc={rc}, timeout={timed_out}); "
                        f"log in {wd}")
    return dict(out=out, states=states, distinct=distinct, violated=violated, rc=rc, wall=wall,
                timed_out=timed_out, left=left, complete=(left == 0 and not timed_out))


def tlc_prints(out, tag):
    """Extracts values printed by PrintT(<<tag, json-string>>) lines."""
    res = []
    pat = re.compile(r'^<<"' + re.escape(tag) + r'", "(.*)">>$')
    for line in out.splitlines():
        m = pat.match(line.strip())
        if m:
            s = m.group(1).encode().decode("unicode_escape")
            try:
                res.append(json.loads(s))
            except json.JSONDecodeError:
                res.append(s)
    return res


def load_known_findings():
    p = os.path.join(VERIF, "known_findings.json")
    if not os.path.exists(p):
        return []
    return json.load(open(p))["findings"]


def write_evidence(pid, tier, seed, level, coverage, wall_s, violations=0, assumptions=()):
    os.makedirs(EVIDENCE, exist_ok=True)
    ev = {"property_id": pid, "tier": tier, "seed": int(seed), "level": level, "coverage": coverage,
          "assumptions": list(assumptions), "wall_s": round(float(wall_s), 2), "violations": int(violations)}
    tmp = os.path.join(EVIDENCE, f".{pid}.json.tmp")
    with open(tmp, "w") as f:
        json.dump(ev, f, indent=1)
    os.replace(tmp, os.path.join(EVIDENCE, f"{pid}.json"))


def save_replay(pid, name, content):
    os.makedirs(REPLAYS, exist_ok=True)
    p = os.path.join(REPLAYS, f"{pid}-{name}")
    with open(p, "w") as f:
        if isinstance(content, str):
            f.write(content)
        else:
            json.dump(content, f, indent=1)
    return p


class Verdict:
    """Collects violations / known findings for one property and prints the interface lines."""

    def __init__(self, pid):
        self.pid = pid
        self.violations = []
        self.known = []

    def violation(self, replay, what=""):
        self.violations.append((replay, what))
        print(f"VIOLATION property={self.pid} replay={replay}", flush=True)
        if what:
            log(f"  {what}")

    def known_finding(self, what):
        if what not in self.known:
            self.known.append(what)
            print(f"KNOWN-FINDING: property={self.pid} {what}", flush=True)

    def exit_code(self):
        return 1 if self.violations else 0
