\* C13 thorough tier, exhaustive verification of the as-designed model (no history):
\* all kinds, both builds, 5 frames, <= 2 emissions, <= 3 configuration changes, <= 3 actions between frames.
SPECIFICATION Spec
CONSTANTS
    Kinds = {"cev", "ctr", "ctt", "phash", "sev", "sevi", "str", "stt"}
    Builds = {TRUE, FALSE}
    MaxFrames = 5
    MaxEmit = 2
    MaxOps = 3
    MaxGap = 3
    ImplBug_F13 = FALSE
    ImplBug_Direct = FALSE
    Gen = FALSE
INVARIANTS
    TypeOK
    NoHybrid
    ExactlyOnce
    NoNetWithoutConnection
    NoPanic
CHECK_DEADLOCK FALSE
