\* C13 behaviour generation by simulation (random behaviours of the large instance, with history):
\* all kinds, both builds, 5 frames, <= 2 emissions, <= 4 configuration changes, <= 3 actions between frames.
SPECIFICATION Spec
CONSTANTS
    Kinds = {"cev", "ctr", "ctt", "phash", "sev", "sevi", "str", "stt"}
    Builds = {TRUE, FALSE}
    MaxFrames = 5
    MaxEmit = 2
    MaxOps = 4
    MaxGap = 3
    ImplBug_F13 = FALSE
    ImplBug_Direct = FALSE
    Gen = TRUE
INVARIANTS
    TypeOK
    NoHybrid
    ExactlyOnce
    NoNetWithoutConnection
    NoPanic
    EmitCase
CHECK_DEADLOCK FALSE
