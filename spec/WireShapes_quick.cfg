\* C06 quick tier: as designed, narrow class sets, every shape in every session state
SPECIFICATION Spec
CHECK_DEADLOCK FALSE
CONSTANTS
  ImplBug_F5 = FALSE
  ImplBug_F10 = FALSE
  ImplBug_F16 = FALSE
  Wide = FALSE
  FullProduct = TRUE
  Deep = FALSE
  Emit = TRUE
INVARIANTS
  JunkSafeInv
  OthersUntouched
  SpliceConsistent
  EmitCase
PROPERTIES
  JunkSafe
