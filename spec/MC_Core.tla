------------------------------- MODULE MC_Core -------------------------------
(***************************************************************************)
(* Bounded model of the replication core for TLC: every interleaving of    *)
(* server operations, server frames with / without a tick, per-message     *)
(* deliver / hold / drop decisions and client frames, within the budgets   *)
(* below, followed by a settle phase on a perfect link.                    *)
(***************************************************************************)
EXTENDS Props, Json

CONSTANTS
    MaxOps,       \* budget of world / visibility operations
    MaxTicks,     \* budget of ticking frames before settling
    MaxIdle,      \* budget of non-ticking server frames
    MaxCliFrames, \* budget of client frames before settling
    OpComps,      \* components the operations range over
    OpKinds,      \* subset of {"spawn","despawn","mark","unmark","insert","remove","mutate","setvis","timeout","relate","unrelate",...}
    SettleRounds, \* perfect-link rounds of the settle phase
    Pre,          \* names of pre-spawned client entities
    MaxRecon,     \* budget of disconnects / server stops
    Graphs,       \* number of relation graphs the server maintains (0 unless relations are modelled)
    Emit          \* TRUE: print every settled behaviour as JSON for replay

VARIABLES st, g, b, hist

\* deviation-switch presets (cfg: Impl <- ...)
ImplAsDesigned == ImplDesigned
ImplF1  == [ImplDesigned EXCEPT !.ackOnReceipt = TRUE]
ImplF2  == [ImplDesigned EXCEPT !.noLostDespawnHidden = TRUE]
ImplF3  == [ImplDesigned EXCEPT !.staleRemovalOnDespawn = TRUE]
ImplF4  == [ImplDesigned EXCEPT !.periodicAckSwallow = TRUE]
ImplF18 == [ImplDesigned EXCEPT !.periodicBumpSwallow = TRUE]
ImplF19 == [ImplDesigned EXCEPT !.ackDiscarded = TRUE]
ImplLeak == [ImplDesigned EXCEPT !.seedLeakHidden = TRUE]
ImplF21 == [ImplDesigned EXCEPT !.lateJoinerMissesEmpty = TRUE]
ImplF15 == [ImplDesigned EXCEPT !.staleBuffersOnRestart = TRUE]
ImplNoMap == [ImplDesigned EXCEPT !.seedIgnoreMapping = TRUE]
ImplF9  == [ImplDesigned EXCEPT !.removalOverwrite = TRUE]
ImplF11 == [ImplDesigned EXCEPT !.emptyMutateWithGraphs = TRUE]
ImplF14 == [ImplDesigned EXCEPT !.whiteReAddForgetsLost = TRUE]
ImplF8  == [ImplDesigned EXCEPT !.refBeforeSpawnUnmarked = TRUE]
ImplF17 == [ImplDesigned EXCEPT !.clientLinkedDespawn = TRUE]
ImplF24 == [ImplDesigned EXCEPT !.mapOrphansPlaceholder = TRUE]

vars == <<st, g, b, hist>>

\* budgets / phase
BInit == [ops |-> 0, ticks |-> 0, idle |-> 0, cframes |-> 0, recon |-> 0, phase |-> "run"]

Rec(ev, args) == [ev |-> ev, args |-> args]

\* server frame with the canonical split of mutate messages
FrameR(s, doTick, dt) == SrvFrameR(s, doTick, dt, <<>>, Graphs)
FrameRV(s, doTick, dt, visible) == SrvFrameRV(s, doTick, dt, <<>>, Graphs, visible)
Frame(s, doTick, dt) == Then(FrameR(s, doTick, dt), LAMBDA r : r.st)

Init0 ==
    LET s1 == Frame(InitState, FALSE, 0)   \* warm-up frame: first replication run, tick 0, no clients
        s2 == FoldSet(ConnectF, s1, Client)
    IN s2

Init ==
    /\ st = Init0
    /\ g = GhostSnap(GhostInit, Frame(InitState, FALSE, 0))
    /\ b = BInit
    /\ hist = <<>>

Running == b.phase = "run"

Log(ev, args) == hist' = IF Emit THEN Append(hist, Rec(ev, args)) ELSE hist

Op(kind) == Running /\ kind \in OpKinds /\ b.ops < MaxOps /\ b' = [b EXCEPT !.ops = @ + 1]

Spawn(e, ks) ==
    /\ Op("spawn") /\ SpawnEnabled(st, e)
    /\ st' = SpawnF(st, e, ks, TRUE) /\ UNCHANGED g
    /\ Log("Spawn", [e |-> e, comps |-> ks, repl |-> TRUE])
Despawn(e) ==
    /\ Op("despawn") /\ DespawnEnabled(st, e)
    /\ st' = DespawnF(st, e) /\ UNCHANGED g /\ Log("Despawn", [e |-> e])
Mark(e) ==
    /\ Op("mark") /\ MarkEnabled(st, e)
    /\ st' = MarkF(st, e) /\ UNCHANGED g /\ Log("Mark", [e |-> e])
Unmark(e) ==
    /\ Op("unmark") /\ UnmarkEnabled(st, e)
    /\ st' = UnmarkF(st, e) /\ UNCHANGED g /\ Log("Unmark", [e |-> e])
Insert(e, k) ==
    /\ Op("insert") /\ InsertEnabled(st, e, k)
    /\ st' = InsertF(st, e, k) /\ UNCHANGED g /\ Log("Insert", [e |-> e, k |-> k])
Remove(e, k) ==
    /\ Op("remove") /\ RemoveEnabled(st, e, k)
    /\ st' = RemoveF(st, e, k) /\ UNCHANGED g /\ Log("Remove", [e |-> e, k |-> k])
Mutate(e, k) ==
    /\ Op("mutate") /\ MutateEnabled(st, e, k)
    /\ st' = MutateF(st, e, k) /\ UNCHANGED g /\ Log("Mutate", [e |-> e, k |-> k])
Relate(e, p) ==
    /\ Op("relate") /\ RelateEnabled(st, e, p)
    /\ st' = RelateF(st, e, p) /\ UNCHANGED g /\ Log("Relate", [e |-> e, p |-> p])
Unrelate(e) ==
    /\ Op("unrelate") /\ UnrelateEnabled(st, e)
    /\ st' = UnrelateF(st, e) /\ UNCHANGED g /\ Log("Unrelate", [e |-> e])
SetVis(c, e, v) ==
    /\ Op("setvis") /\ SetVisEnabled(st, c) /\ st.srv.world[e].used
    /\ st' = SetVisF(st, c, e, v) /\ g' = GhostSetVis(g, c, e, v)
    /\ Log("SetVis", [c |-> c, e |-> e, v |-> v])

Prespawn(c, p) ==
    /\ Op("prespawn") /\ PrespawnEnabled(st, c, p)
    /\ st' = PrespawnF(st, c, p) /\ UNCHANGED g /\ Log("Prespawn", [c |-> c, p |-> p])
KillPre(c, p) ==
    /\ Op("killpre") /\ KillPreEnabled(st, c, p)
    /\ st' = KillPreF(st, c, p) /\ UNCHANGED g /\ Log("KillPre", [c |-> c, p |-> p])
MapPre(c, e, p) ==
    /\ Op("mappre") /\ MapPreEnabled(st, c, e, p)
    /\ st' = MapPreF(st, c, e, p) /\ UNCHANGED g /\ Log("MapPre", [c |-> c, e |-> e, p |-> p])

SrvFrame(doTick, dt) ==
    /\ Running
    /\ IF doTick THEN b.ticks < MaxTicks /\ b' = [b EXCEPT !.ticks = @ + 1]
                 ELSE b.idle < MaxIdle /\ b' = [b EXCEPT !.idle = @ + 1]
    /\ dt > 0 => "timeout" \in OpKinds
    \* the scheduler's choice about a pending reset (see ResolveReset) is explored both ways
    \* (behaviours exported for replay take the branch the real apps have been observed to take: without
    \* sync_related_entities the run condition is evaluated before `reset`, with it after)
    /\ \E vis \in (IF st.srv.tickMaybe /\ st.srv.running
                    THEN (IF Emit THEN {"relate" \notin OpKinds} ELSE BOOLEAN) ELSE {TRUE}) :
       \E r \in {FrameRV(st, doTick, dt, vis)} :
          /\ st' = r.st
          /\ g' = IF r.ran THEN GhostSnap(GhostMaps(g, st, r.st), r.st) ELSE g
    /\ Log("SrvFrame", [tick |-> doTick, dt |-> dt])

DeliverUpd(c) ==
    /\ Running /\ MaxCliFrames > 0 /\ DeliverUpdEnabled(st, c)
    /\ st' = DeliverUpdF(st, c) /\ UNCHANGED <<g, b>> /\ Log("DeliverUpd", [c |-> c])
DeliverMut(c, i) ==
    /\ Running /\ MaxCliFrames > 0 /\ MutEnabled(st, c, i)
    /\ st' = DeliverMutF(st, c, i) /\ UNCHANGED <<g, b>> /\ Log("DeliverMut", [c |-> c, pos |-> i - 1])
DropMut(c, i) ==
    /\ Running /\ MaxCliFrames > 0 /\ MutEnabled(st, c, i)
    /\ st' = DropMutF(st, c, i) /\ UNCHANGED <<g, b>> /\ Log("DropMut", [c |-> c, pos |-> i - 1])
DeliverAck(c) ==
    /\ Running /\ MaxCliFrames > 0 /\ DeliverAckEnabled(st, c)
    /\ st' = DeliverAckF(st, c) /\ UNCHANGED <<g, b>> /\ Log("DeliverAck", [c |-> c])
CliFrame(c) ==
    /\ Running /\ b.cframes < MaxCliFrames
    /\ \/ st.net[c].rxUpd # <<>> \/ st.net[c].rxMut # <<>>   \* an idle client frame is a stutter ...
       \/ (st.cli[c].lastNotDisc /\ st.cli[c].status = "Disconnected")   \* ... unless it runs the reset
    /\ st' = CliFrameF(st, c) /\ b' = [b EXCEPT !.cframes = @ + 1] /\ UNCHANGED g
    /\ Log("CliFrame", [c |-> c])

(* sessions: a disconnect or a server stop may strike in any state; the client runs at least one
   frame before it connects again *)
Disconnect(c) ==
    /\ Running /\ "disconnect" \in OpKinds /\ b.recon < MaxRecon /\ DisconnectEnabled(st, c)
    /\ st' = DisconnectF(st, c) /\ b' = [b EXCEPT !.recon = @ + 1] /\ UNCHANGED g
    /\ Log("Disconnect", [c |-> c])
Connect(c) ==
    /\ Running /\ ConnectEnabled(st, c) /\ ~st.cli[c].lastNotDisc
    /\ ~st.srv.tickChanged      \* a (re)started server runs a frame before it accepts clients (tick 0 is ambiguous)
    /\ st' = ConnectF(st, c) /\ g' = [g EXCEPT !.lastSet[c] = <<>>, !.onceSent[c] = {}] /\ UNCHANGED b
    /\ Log("Connect", [c |-> c])
Stop ==
    /\ Running /\ "stop" \in OpKinds /\ b.recon < MaxRecon /\ StopEnabled(st)
    /\ st' = StopF(st) /\ g' = [g EXCEPT !.snap = <<>>, !.visAt = <<>>, !.onceSent = [c \in Client |-> {}]] /\ b' = [b EXCEPT !.recon = @ + 1]
    /\ Log("Stop", [x |-> 0])
Start ==
    /\ Running /\ StartEnabled(st)
    /\ st' = StartF(st) /\ UNCHANGED <<g, b>>
    /\ Log("Start", [x |-> 0])

(* settle phase: perfect link, as one macro step built from the same functions *)
RECURSIVE DrainUpd(_, _), DrainMut(_, _), DrainAck(_, _)
DrainUpd(s, c) == IF s.net[c].upd = <<>> THEN s ELSE Then(DeliverUpdF(s, c), LAMBDA s1 : DrainUpd(s1, c))
DrainMut(s, c) == IF s.net[c].mut = <<>> THEN s ELSE Then(DeliverMutF(s, c, 1), LAMBDA s1 : DrainMut(s1, c))
DrainAck(s, c) == IF s.net[c].ack = <<>> THEN s ELSE Then(DeliverAckF(s, c), LAMBDA s1 : DrainAck(s1, c))

ClientRound(s, c) ==
    Then(DrainUpd(s, c), LAMBDA s1 :
    Then(DrainMut(s1, c), LAMBDA s2 :
    Then(CliFrameF(s2, c), LAMBDA s3 : DrainAck(s3, c))))

\* one round: ticking server frame, then every client catches up and acknowledges
Round(p) ==
    Then(Frame(p.st, TRUE, 0), LAMBDA s1 :
        [st |-> FoldSet(ClientRound, s1, Client), g |-> GhostSnap(GhostMaps(p.g, p.st, s1), s1)])

RECURSIVE Rounds(_, _)
Rounds(p, n) == IF n = 0 THEN p ELSE Then(Round(p), LAMBDA q : Rounds(q, n - 1))

SettleResult(s, gg) ==
    Then(Rounds([st |-> s, g |-> gg], SettleRounds), LAMBDA p :
    Then(Frame(p.st, FALSE, 0), LAMBDA s2 :          \* the acknowledgements of the last round arrive
    Then(Frame(s2, TRUE, 0), LAMBDA s3 :             \* one more tick at rest
        LET n(c) == Len(s3.net[c].upd) + Len(s3.net[c].mut) - Len(s2.net[c].upd) - Len(s2.net[c].mut)
            sent == FoldSet(LAMBDA a, c : a + n(c), 0, Client)
        IN [st |-> s2, g |-> [p.g EXCEPT !.sentAtRest = sent]])))

Settle ==
    /\ Running /\ st.srv.running /\ ~st.srv.tickChanged
    /\ \E r \in {SettleResult(st, g)} : st' = r.st /\ g' = r.g
    /\ b' = [b EXCEPT !.phase = "settled"]
    /\ Log("Settle", [rounds |-> SettleRounds])

Next ==
    \/ \E e \in Ent, ks \in SUBSET OpComps : Spawn(e, ks)
    \/ \E e \in Ent : Despawn(e) \/ Mark(e) \/ Unmark(e)
    \/ \E e \in Ent, k \in OpComps : Insert(e, k) \/ Remove(e, k) \/ Mutate(e, k)
    \/ \E e \in Ent, p \in Ent : Relate(e, p)
    \/ \E e \in Ent : Unrelate(e)
    \/ \E c \in Client, e \in Ent, v \in BOOLEAN : SetVis(c, e, v)
    \/ \E c \in Client, p \in Pre : Prespawn(c, p) \/ KillPre(c, p)
    \/ \E c \in Client, e \in Ent, p \in Pre : MapPre(c, e, p)
    \/ \E doTick \in BOOLEAN, dt \in {0, Timeout} : SrvFrame(doTick, dt)
    \/ \E c \in Client : DeliverUpd(c) \/ DeliverAck(c) \/ CliFrame(c) \/ Disconnect(c) \/ Connect(c)
    \/ Stop \/ Start
    \/ \E c \in Client, i \in 1..2 : DeliverMut(c, i) \/ DropMut(c, i)
    \/ Settle

Spec == Init /\ [][Next]_vars

View0 == <<st, g, b>>     \* the behaviour log is hidden from the fingerprint

----------------------------------------------------------------------------
Settled == b.phase = "settled"

Inv_C01 == Settled => (C01_AtQuiescence(st) /\ NoPanic(st))
Inv_C02 == C02(st, g)
Inv_C03 == C03(st, g)
Inv_C08 == C08_Data(st, g) /\ C08_Query(st, g)
Inv_C16 == C16(st, g)
Inv_C11 == Settled => C11_SilentAtRest(g)

Prop_Mono == [][C02_MonoStep(st, st') /\ C03_MonoStep(st, st')]_vars

\* behaviour export for replay into the real apps (one line per settled behaviour)
EmitInv == (Emit /\ Settled) => PrintT(<<"REPLAY", ToJson(hist)>>)

=============================================================================
