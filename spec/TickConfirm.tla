------------------------------ MODULE TickConfirm ------------------------------
(***************************************************************************)
(* Property C12, pure half: the three tick-confirmation mechanisms of      *)
(* bevy_replicon, each written twice -- AS IMPLEMENTED (transcribed from   *)
(* the Rust source, arithmetic and all) and as the REFERENCE the property  *)
(* states ("a plain set of confirmed ticks; anything older than the 64     *)
(* tick window counts as confirmed"; "ticks less than half the counter     *)
(* range apart are ordered by their wrapping distance").                   *)
(*                                                                         *)
(*   ConfirmHistory    /repo/src/client/confirm_history.rs                 *)
(*   ServerMutateTicks /repo/src/client/server_mutate_ticks.rs             *)
(*   RepliconTick::cmp /repo/src/shared/replicon_tick.rs                   *)
(*                                                                         *)
(* This module has no variables: it only defines functions on records.     *)
(* The bounded instances are TickConfirmCH / TickConfirmMT / TickConfirmTO.*)
(*                                                                         *)
(* Ticks of the two history mechanisms are small integers: OFFSETS from a  *)
(* base tick that only the Rust replayer adds (bases 0, 2^31-70, 2^32-70), *)
(* so the wrap of the u32 counter is exercised on the real types while TLC *)
(* integers stay small.  On offsets `<`, `-` are the integer ones; that    *)
(* this is what RepliconTick's wrapping `cmp` / `sub` compute for ticks    *)
(* less than half the range apart is the TickOrder part below.             *)
(***************************************************************************)
EXTENDS Integers, Sequences, FiniteSets

CONSTANTS
    ImplBug_F6_Shl,  \* FALSE: intended design.  TRUE: ConfirmHistory::set_last_tick as found on the
                     \*   pinned tree: mask.wrapping_shl(diff), which shifts by diff mod 64
    ImplBug_F6_Range,\* FALSE: intended design.  TRUE: ConfirmHistory::contains_any as found on the
                     \*   pinned tree: the range of len ones is built as (1 << len) - 1, len can be 64
    OverflowChecks   \* TRUE: debug build (shift overflow panics) -- what the harness builds;
                     \* FALSE: release arithmetic (shift amount is masked)

W    == 64                \* u64::BITS, the window
Bits == 0 .. (W - 1)

Max2(a, b) == IF a >= b THEN a ELSE b
Min2(a, b) == IF a <= b THEN a ELSE b

(***************************************************************************)
(* A u64 is modelled as the set of its set bit positions.                  *)
(***************************************************************************)
ShlBits(m, k) == {i + k : i \in m} \cap Bits          \* m << k for 0 <= k < 64 (high bits fall off)

\* Rust `m << k` (k: u32): panics with overflow checks when k >= 64, else the amount is masked.
Shl(m, k) ==
    IF k < W THEN [panic |-> FALSE, v |-> ShlBits(m, k)]
    ELSE IF OverflowChecks THEN [panic |-> TRUE, v |-> {}]
    ELSE [panic |-> FALSE, v |-> ShlBits(m, k % W)]

WrappingShl(m, k) == ShlBits(m, k % W)                \* u64::wrapping_shl: never panics, masks the amount
CheckedShlOr0(m, k) == IF k < W THEN ShlBits(m, k) ELSE {}

\* (1 << j) - 1 for a single set bit j: the j low bits.
LowOnes(j) == 0 .. (j - 1)

(***************************************************************************)
(* ConfirmHistory -- as implemented.   h = [last |-> tick, mask |-> bits]  *)
(***************************************************************************)
CH_New(t) == [last |-> t, mask |-> {0}]

\* set_last_tick (confirm_history.rs:120): precondition t >= h.last
CH_SetLastTick(h, t) ==
    LET diff    == t - h.last
        shifted == IF ImplBug_F6_Shl THEN WrappingShl(h.mask, diff)      \* as found: mask.wrapping_shl(diff)
                   ELSE CheckedShlOr0(h.mask, diff)                  \* design: everything falls off after >= 64
    IN  [last |-> t, mask |-> shifted \cup {0}]

\* confirm (confirm_history.rs:92)
CH_Confirm(h, t) ==
    IF t > h.last THEN CH_SetLastTick(h, t)
    ELSE LET ago == h.last - t
         IN  IF ago < W THEN [h EXCEPT !.mask = @ \cup {ago}] ELSE h

\* contains (confirm_history.rs:47)
CH_Contains(h, t) ==
    IF t > h.last THEN FALSE
    ELSE LET ago == h.last - t IN ago >= W \/ ago \in h.mask

\* contains_any (confirm_history.rs:65), precondition a <= b.  Result "T", "F" or "P" (panic).
CH_ContainsAny(h, a, b) ==
    IF a > h.last THEN "F"
    ELSE IF a <= h.last - W THEN "T"
    ELSE
      LET e      == IF b < h.last THEN b ELSE h.last
          len    == e - a + 1                                   \* 1 .. 64
          one    == IF ImplBug_F6_Range THEN Shl({0}, len)           \* as found: (1 << len) - 1
                    ELSE [panic |-> FALSE, v |-> {len}]         \* design: len low ones (u64::MAX >> (64 - len))
          range  == IF one.v = {} THEN {} ELSE LowOnes(CHOOSE j \in one.v : TRUE)
          offset == h.last - e
          sh     == Shl(range, offset)                          \* range << offset
      IN  IF one.panic \/ sh.panic THEN "P"
          ELSE IF (h.mask \cap sh.v) # {} THEN "T" ELSE "F"

(***************************************************************************)
(* Reference for both history mechanisms: a plain set S of confirmed ticks *)
(* and the newest tick seen.   r = [last |-> tick, S |-> set of ticks]     *)
(***************************************************************************)
Ref_New(t)        == [last |-> t, S |-> {t}]
Ref_Confirm(r, t) == [last |-> Max2(r.last, t), S |-> r.S \cup {t}]
Ref_Contains(r, t) == t <= r.last /\ (r.last - t >= W \/ t \in r.S)
Ref_ContainsAny(r, a, b) == \E t \in a .. b : Ref_Contains(r, t)
\* "bit i set <=> tick last - i confirmed"
Ref_Mask(r) == {i \in Bits : (r.last - i) \in r.S}

BoolStr(b) == IF b THEN "T" ELSE "F"

(***************************************************************************)
(* ServerMutateTicks -- as implemented.                                    *)
(*   m = [last |-> tick, ring |-> [Bits -> [mc, rc]], assert |-> BOOLEAN]  *)
(* ring[i] is VecDeque index i (tick last - i); assert = a debug_assert of *)
(* TickMessages::confirm fired (never, for legal inputs).                  *)
(***************************************************************************)
Slot0 == [mc |-> 0, rc |-> 0]
AllReceived(s) == s.mc # 0 /\ s.mc = s.rc
MT_Default == [last |-> 0, ring |-> [i \in Bits |-> Slot0], assert |-> FALSE]

\* TickMessages::confirm (server_mutate_ticks.rs:166)
Slot_Confirm(s, k) ==
    LET s2 == [mc |-> k, rc |-> s.rc + 1]
    IN  [slot |-> s2, ret |-> AllReceived(s2),
         assert |-> k = 0 \/ ~(s.mc = 0 \/ s.mc = k) \/ s2.rc > s2.mc]

\* confirm (server_mutate_ticks.rs:105).  Returns [m |-> new state, ret |-> BOOLEAN]
MT_Confirm(m, t, k) ==
    IF t > m.last THEN
      LET delta == t - m.last
          ring1 == IF delta >= W THEN [i \in Bits |-> Slot0]                     \* clear + resize
                   ELSE [i \in Bits |-> IF i < delta THEN Slot0 ELSE m.ring[i - delta]]  \* delta x (pop_back; push_front)
          c     == Slot_Confirm(ring1[0], k)
      IN  [m |-> [last |-> t, ring |-> [ring1 EXCEPT ![0] = c.slot], assert |-> m.assert \/ c.assert],
           ret |-> c.ret]
    ELSE
      LET delta == m.last - t
      IN  IF delta < W THEN
            LET c == Slot_Confirm(m.ring[delta], k)
            IN  [m |-> [m EXCEPT !.ring[delta] = c.slot, !.assert = @ \/ c.assert], ret |-> c.ret]
          ELSE [m |-> m, ret |-> FALSE]

\* mask (server_mutate_ticks.rs:34)
MT_Mask(m) == {i \in Bits : AllReceived(m.ring[i])}

\* contains (server_mutate_ticks.rs:49)
MT_Contains(m, t) ==
    IF t > m.last THEN FALSE
    ELSE LET ago == m.last - t IN IF ago \in Bits THEN AllReceived(m.ring[ago]) ELSE TRUE

\* contains_any (server_mutate_ticks.rs:71), precondition a <= b; "P" = VecDeque::range would panic
MT_ContainsAny(m, a, b) ==
    IF a > m.last THEN "F"
    ELSE IF a <= m.last - W THEN "T"
    ELSE LET e     == IF b < m.last THEN b ELSE m.last
             end   == m.last - a
             start == m.last - e
         IN  IF start > end \/ end >= W THEN "P"
             ELSE BoolStr(\E i \in start .. end : AllReceived(m.ring[i]))

(***************************************************************************)
(* Reference for the mutate-tick tracker: per tick, how many messages the  *)
(* server sent (fixed at the first message seen) and how many arrived.     *)
(*   r = [last, sent : tick -> k, rcv : tick -> n]  (functions on a finite *)
(* domain); the confirmed set is S = {t : rcv[t] = sent[t]}.               *)
(***************************************************************************)
MTRef_Default == [last |-> 0, sent |-> <<>>, rcv |-> <<>>]
MTRef_Known(r, t) == t \in DOMAIN r.sent
MTRef_Confirm(r, t, k) ==
    [last |-> Max2(r.last, t),
     sent |-> [x \in DOMAIN r.sent \cup {t} |-> IF x = t THEN k ELSE r.sent[x]],
     rcv  |-> [x \in DOMAIN r.rcv \cup {t} |->
                 IF x = t THEN (IF t \in DOMAIN r.rcv THEN r.rcv[t] + 1 ELSE 1) ELSE r.rcv[x]]]
MTRef_S(r)   == {t \in DOMAIN r.sent : r.rcv[t] = r.sent[t]}
MTRef_Set(r) == [last |-> r.last, S |-> MTRef_S(r)]      \* view as the plain-set reference above

(***************************************************************************)
(* TickOrder.  A counter of 2*LimbBits bits is a pair of limbs, so that    *)
(* the real width (LimbBits = 16, u32) fits TLC's 32-bit integers; small   *)
(* widths (LimbBits = 2, 4) are checked exhaustively.                      *)
(***************************************************************************)
CONSTANT LimbBits
LB == 2 ^ LimbBits                         \* limb base
U(hi, lo)  == [hi |-> hi, lo |-> lo]
UZero      == U(0, 0)
UMaxHalf   == U(LB \div 2 - 1, LB - 1)    \* u32::MAX / 2
UAll       == [hi : 0 .. (LB - 1), lo : 0 .. (LB - 1)]

\* n mod 2^(2*LimbBits) as limbs, for any TLC integer n with |n| < 2^(2*LimbBits)
UOfInt(n) ==
    IF n >= 0 THEN U((n \div LB) % LB, n % LB)
    ELSE LET c == (-n) - 1 IN U(LB - 1 - ((c \div LB) % LB), LB - 1 - (c % LB))   \* two's complement

UWrappingAdd(a, b) ==
    LET lo == a.lo + b.lo
        cy == IF lo >= LB THEN 1 ELSE 0
    IN  U((a.hi + b.hi + cy) % LB, lo % LB)
UWrappingSub(a, b) ==
    LET lo == a.lo - b.lo
        bw == IF lo < 0 THEN 1 ELSE 0
    IN  U((a.hi - b.hi - bw) % LB, lo % LB)
UGt(a, b) == a.hi > b.hi \/ (a.hi = b.hi /\ a.lo > b.lo)

\* Ord::cmp for RepliconTick (replicon_tick.rs:38) -- as implemented
TO_Cmp(a, b) ==
    LET difference == UWrappingSub(a, b)
    IN  IF difference = UZero THEN "Equal"
        ELSE IF UGt(difference, UMaxHalf) THEN "Less"
        ELSE "Greater"

\* Reference: b is d ticks ahead of a (d < 0: behind), |d| less than half the range:
\* a compared with b is ordered by that wrapping distance.
TO_RefCmp(d) == IF d = 0 THEN "Equal" ELSE IF d > 0 THEN "Less" ELSE "Greater"
=============================================================================
