----------------------------- MODULE TickConfirmTO -----------------------------
(***************************************************************************)
(* C12 / TickOrder: RepliconTick::cmp (wrapping compare, as implemented on *)
(* limbs) against the reference "ordered by wrapping distance" for any two *)
(* ticks less than half the counter range apart.                           *)
(*                                                                         *)
(* A state is one comparison: a = base + x, b = a + d (all wrapping), and  *)
(* the invariant says cmp(a, b) = TO_RefCmp(d).  Two kinds of instance:    *)
(*  - small counters (LimbBits = 2 or 4, i.e. 4 / 8 bit ticks): ALL a and  *)
(*    ALL distances |d| < half the range -- exhaustive;                    *)
(*  - the real width (LimbBits = 16): bases 0, 2^31-70, 2^32-70, x and d   *)
(*    over the boundary sets incl. the largest legal distances 2^31-1;     *)
(*    each state is printed as a case and replayed on the real type.       *)
(***************************************************************************)
EXTENDS TickConfirm, TLC, Json

CONSTANTS BaseSet, XSet, DSet, Emit

\* small-counter instances
Half       == (LB * LB) \div 2
BaseAll    == UAll
DAllLegal  == (1 - Half) .. (Half - 1)

\* 32-bit instance (LimbBits = 16)
Base32 == {U(0, 0), U(32767, 65466), U(65535, 65466)}      \* 0, 2^31 - 70, 2^32 - 70
X32    == {0, 1, 5, 6, 7, 69, 70, 71, 134, 198, 199}
Bnd    == {0, 1, 2, 31, 32, 33, 62, 63, 64, 65, 66, 127, 128, 129,
           65535, 65536, 65537, 1073741823, 1073741824, 1073741825,
           2147483577, 2147483578, 2147483579, 2147483645, 2147483646, 2147483647}
D32    == Bnd \cup {-d : d \in Bnd}

VARIABLES base, x, d
vars == <<base, x, d>>

Init == base \in BaseSet /\ x \in XSet /\ d \in DSet
Next == UNCHANGED vars
Spec == Init /\ [][Next]_vars

A == UWrappingAdd(base, UOfInt(x))
B == UWrappingAdd(A, UOfInt(d))

Flip(o) == CASE o = "Less" -> "Greater" [] o = "Greater" -> "Less" [] OTHER -> o

C12_TO == /\ TO_Cmp(A, B) = TO_RefCmp(d)
          /\ TO_Cmp(B, A) = Flip(TO_RefCmp(d))

EmitCase == Emit => PrintT(<<"CASE", ToJson([m |-> "TO", bhi |-> base.hi, blo |-> base.lo, x |-> x, d |-> d,
                                              exp |-> TO_RefCmp(d)])>>)
=============================================================================
