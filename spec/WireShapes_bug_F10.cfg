\* C06 non-vacuity: the mechanism as found on the pinned tree (F10) must violate JunkSafe
SPECIFICATION Spec
CHECK_DEADLOCK FALSE
CONSTANTS
  ImplBug_F5 = FALSE
  ImplBug_F10 = TRUE
  ImplBug_F16 = FALSE
  Wide = FALSE
  FullProduct = FALSE
  Deep = FALSE
  Emit = FALSE
INVARIANTS
  JunkSafeInv
  OthersUntouched
  SpliceConsistent
PROPERTIES
  JunkSafe
