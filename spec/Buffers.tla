------------------------------- MODULE Buffers -------------------------------
(* The message buffers between replicon and a messaging backend: `RepliconClient`
   (shared/backend/replicon_client.rs) and `RepliconServer` (shared/backend/replicon_server.rs).
   One action per public call of the two resources; a backend and replicon's own systems are the
   callers, in any order.  Every message carries the session (`epoch`) in which it was handed to
   the buffer, so "clean slate" (C09) is a state invariant: nothing buffered belongs to an ended
   session, nothing is buffered while there is no connection / the server is not running, and
   nothing of a client that has been removed stays behind.  `ops` is the history exported for the
   replay on the real resources (hidden from the state space by the VIEW). *)
EXTENDS Naturals, Sequences, FiniteSets, TLC, Json

CONSTANTS Chan,        \* channel ids
          Peer,        \* server side: client entities
          MaxOps,      \* length of a behaviour
          Impl         \* "Design" | "KeepOnConnecting" (seed C13_6) | "KeepOnStop" | "PurgeTwo" (seed C09_8)

Status == {"Disconnected", "Connecting", "Connected"}

VARIABLES cst,     \* client status
          cepoch,  \* client session counter: +1 on every transition into Connected
          cin,     \* client: received, per channel, sequence of <<epoch, n>>
          cout,    \* client: outgoing, sequence of <<chan, epoch, n>>
          run,     \* server running
          sepoch,  \* server session counter
          sin,     \* server: received per channel, sequence of <<peer, epoch, n>>
          sout,    \* server: outgoing, sequence of <<peer, chan, epoch, n>>
          cdirty,  \* client: the backend has written connection statistics (`stats_mut`) in this session
          n,       \* next message number (distinguishable payloads)
          ops      \* history: sequence of records

vars == <<cst, cepoch, cin, cout, cdirty, run, sepoch, sin, sout, n, ops>>
View == <<cst, cin, cout, cdirty, run, sin, sout, Len(ops)>>

Init == /\ cst = "Disconnected" /\ cepoch = 0
        /\ cin = [c \in Chan |-> <<>>] /\ cout = <<>> /\ cdirty = FALSE
        /\ run = FALSE /\ sepoch = 0
        /\ sin = [c \in Chan |-> <<>>] /\ sout = <<>>
        /\ n = 1 /\ ops = <<>>

Op(r) == ops' = Append(ops, r)
More == Len(ops) < MaxOps

Filter(s, P(_)) == SelectSeq(s, P)

(* ---------------------------------- client ---------------------------------- *)
CSetStatus(s) ==
    /\ More
    /\ LET leaving == cst = "Connected" /\ s # "Connected"
           keep == \/ ~leaving
                   \/ (Impl = "KeepOnConnecting" /\ s = "Connecting")
       IN /\ cin' = IF keep THEN cin
                  ELSE [c \in Chan |-> IF Impl = "PurgeTwo" /\ c >= 2 THEN cin[c] ELSE <<>>]  \* seed C09_8
          /\ cout' = IF keep THEN cout ELSE <<>>
          /\ cdirty' = IF keep THEN cdirty ELSE FALSE
    /\ cst' = s
    /\ cepoch' = IF s = "Connected" /\ cst # "Connected" THEN cepoch + 1 ELSE cepoch
    /\ Op([op |-> "c_status", s |-> s])
    /\ UNCHANGED <<run, sepoch, sin, sout, n>>

CSend(c) ==
    /\ More
    /\ cout' = IF cst = "Connected" THEN Append(cout, <<c, cepoch, n>>) ELSE cout
    /\ n' = n + 1
    /\ Op([op |-> "c_send", ch |-> c, n |-> n])
    /\ UNCHANGED <<cst, cepoch, cin, cdirty, run, sepoch, sin, sout>>

CInsert(c) ==
    /\ More
    /\ cin' = IF cst = "Connected" THEN [cin EXCEPT ![c] = Append(@, <<cepoch, n>>)] ELSE cin
    /\ n' = n + 1
    /\ Op([op |-> "c_insert", ch |-> c, n |-> n])
    /\ UNCHANGED <<cst, cepoch, cout, cdirty, run, sepoch, sin, sout>>

\* the backend updates the connection statistics (it does so only while connected)
CStat ==
    /\ More /\ cst = "Connected" /\ ~cdirty
    /\ cdirty' = TRUE
    /\ Op([op |-> "c_stat"])
    /\ UNCHANGED <<cst, cepoch, cin, cout, run, sepoch, sin, sout, n>>

CDrain ==
    /\ More /\ cout # <<>>
    /\ cout' = <<>>
    /\ Op([op |-> "c_drain", got |-> [i \in 1..Len(cout) |-> <<cout[i][1], cout[i][3]>>]])
    /\ UNCHANGED <<cst, cepoch, cin, cdirty, run, sepoch, sin, sout, n>>

CReceive(c) ==
    /\ More /\ cin[c] # <<>>
    /\ cin' = [cin EXCEPT ![c] = <<>>]
    /\ Op([op |-> "c_receive", ch |-> c, got |-> [i \in 1..Len(cin[c]) |-> cin[c][i][2]]])
    /\ UNCHANGED <<cst, cepoch, cout, cdirty, run, sepoch, sin, sout, n>>

(* ---------------------------------- server ---------------------------------- *)
SSetRunning(b) ==
    /\ More
    /\ LET keep == b \/ Impl = "KeepOnStop"
       IN /\ sin' = IF keep THEN sin ELSE [c \in Chan |-> <<>>]
          /\ sout' = IF keep THEN sout ELSE <<>>
    /\ run' = b
    /\ sepoch' = IF b /\ ~run THEN sepoch + 1 ELSE sepoch
    /\ Op([op |-> "s_running", b |-> b])
    /\ UNCHANGED <<cst, cepoch, cin, cout, cdirty, n>>

SSend(p, c) ==
    /\ More
    /\ sout' = IF run THEN Append(sout, <<p, c, sepoch, n>>) ELSE sout
    /\ n' = n + 1
    /\ Op([op |-> "s_send", peer |-> p, ch |-> c, n |-> n])
    /\ UNCHANGED <<cst, cepoch, cin, cout, cdirty, run, sepoch, sin>>

SInsert(p, c) ==
    /\ More
    /\ sin' = IF run THEN [sin EXCEPT ![c] = Append(@, <<p, sepoch, n>>)] ELSE sin
    /\ n' = n + 1
    /\ Op([op |-> "s_insert", peer |-> p, ch |-> c, n |-> n])
    /\ UNCHANGED <<cst, cepoch, cin, cout, cdirty, run, sepoch, sout>>

SRemove(p) ==
    /\ More
    /\ \/ \E i \in 1..Len(sout) : sout[i][1] = p
       \/ \E c \in Chan : \E i \in 1..Len(sin[c]) : sin[c][i][1] = p
    /\ LET NotP(m) == m[1] # p
       IN /\ sin' = [c \in Chan |-> Filter(sin[c], NotP)]
          /\ sout' = Filter(sout, NotP)
    /\ Op([op |-> "s_remove", peer |-> p])
    /\ UNCHANGED <<cst, cepoch, cin, cout, cdirty, run, sepoch, n>>

SDrain ==
    /\ More /\ sout # <<>>
    /\ sout' = <<>>
    /\ Op([op |-> "s_drain", got |-> [i \in 1..Len(sout) |-> <<sout[i][1], sout[i][2], sout[i][4]>>]])
    /\ UNCHANGED <<cst, cepoch, cin, cout, cdirty, run, sepoch, sin, n>>

SReceive(c) ==
    /\ More /\ sin[c] # <<>>
    /\ sin' = [sin EXCEPT ![c] = <<>>]
    /\ Op([op |-> "s_receive", ch |-> c, got |-> [i \in 1..Len(sin[c]) |-> <<sin[c][i][1], sin[c][i][3]>>]])
    /\ UNCHANGED <<cst, cepoch, cin, cout, cdirty, run, sepoch, sout, n>>

ClientNext == \/ \E s \in Status : CSetStatus(s)
              \/ \E c \in Chan : CSend(c) \/ CInsert(c) \/ CReceive(c)
              \/ CDrain \/ CStat
ServerNext == \/ \E b \in BOOLEAN : SSetRunning(b)
              \/ \E p \in Peer, c \in Chan : SSend(p, c) \/ SInsert(p, c)
              \/ \E p \in Peer : SRemove(p)
              \/ \E c \in Chan : SReceive(c)
              \/ SDrain

SpecC == Init /\ [][ClientNext]_vars
SpecS == Init /\ [][ServerNext]_vars
SpecB == Init /\ [][ClientNext \/ ServerNext]_vars

(* --------------------------------- properties -------------------------------- *)
Range(s) == {s[i] : i \in 1..Len(s)}

\* C09: no buffered message while there is no connection, none from an ended session
CleanClient ==
    /\ cst # "Connected" => cout = <<>> /\ \A c \in Chan : cin[c] = <<>>
    /\ cst # "Connected" => ~cdirty
    /\ \A m \in Range(cout) : m[2] = cepoch
    /\ \A c \in Chan : \A m \in Range(cin[c]) : m[1] = cepoch
CleanServer ==
    /\ ~run => sout = <<>> /\ \A c \in Chan : sin[c] = <<>>
    /\ \A m \in Range(sout) : m[3] = sepoch
    /\ \A c \in Chan : \A m \in Range(sin[c]) : m[2] = sepoch

\* C17-like: every buffer is in hand-over order (message numbers grow)
Ordered(s, k) == \A i, j \in 1..Len(s) : i < j => s[i][k] < s[j][k]
FifoAll == /\ Ordered(cout, 3) /\ \A c \in Chan : Ordered(cin[c], 2)
           /\ Ordered(sout, 4) /\ \A c \in Chan : Ordered(sin[c], 3)

Inv == CleanClient /\ CleanServer /\ FifoAll

\* one line per complete behaviour for the replay on the real resources
Export == Len(ops) = MaxOps =>
    PrintT(<<"BUF", ToJson([ops |-> ops, cdirty |-> cdirty,
                            cin |-> [c \in Chan |-> [i \in 1..Len(cin[c]) |-> cin[c][i][2]]],
                            cout |-> [i \in 1..Len(cout) |-> <<cout[i][1], cout[i][3]>>],
                            sin |-> [c \in Chan |-> [i \in 1..Len(sin[c]) |-> <<sin[c][i][1], sin[c][i][3]>>]],
                            sout |-> [i \in 1..Len(sout) |-> <<sout[i][1], sout[i][2], sout[i][4]>>]])>>)
=============================================================================
