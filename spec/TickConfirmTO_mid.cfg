\* C12 TickOrder, 10-bit counter (two 5-bit limbs): all 1024 ticks x all distances |d| < 512, exhaustive
SPECIFICATION Spec
CONSTANTS
  ImplBug_F6_Shl = FALSE
  ImplBug_F6_Range = FALSE
  OverflowChecks = TRUE
  LimbBits = 5
  BaseSet <- BaseAll
  XSet = {0}
  DSet <- DAllLegal
  Emit = FALSE
INVARIANTS C12_TO EmitCase
CHECK_DEADLOCK FALSE
