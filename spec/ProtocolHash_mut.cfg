\* C14 non-vacuity: the quick instance with a seeded defect of the mechanism (environment variable C14_MUTATION);
\* TLC must report a violated invariant for every mutation.
SPECIFICATION Spec
CONSTANTS
    NTypes = 2
    Prios = {1, 2}
    MaxLen = 2
    HsLen = 1
    HsFullLen = 1
    MaxCF = 3
    MaxSF = 2
    Mutation <- MutationFromEnv
    Emit = FALSE
INVARIANTS
    TypeOK
    HashProperty
    AuthOnlyOnMatch
    MismatchOnlyOnMismatch
    NotBoth
    NotifiedImpliesRequested
    DecidedOutcome
    InformedOutcome
    OutcomeMatches
    EmitPairs
    EmitHs
CHECK_DEADLOCK FALSE
