----------------------------- MODULE CurrentTree -----------------------------
(* generated from known_findings.json: a switch is TRUE iff its finding is open *)
ImplCurrentTree ==
    [ removalOverwrite |-> FALSE,
      staleRemovalOnDespawn |-> FALSE,
      noLostDespawnHidden |-> FALSE,
      whiteReAddForgetsLost |-> FALSE,
      ackOnReceipt |-> FALSE,
      periodicAckSwallow |-> FALSE,
      periodicBumpSwallow |-> FALSE,
      ackDiscarded |-> FALSE,
      lateJoinerMissesEmpty |-> FALSE,
      staleBuffersOnRestart |-> FALSE,
      emptyMutateWithGraphs |-> FALSE,
      refBeforeSpawnUnmarked |-> FALSE,
      clientLinkedDespawn |-> TRUE,
      mapOrphansPlaceholder |-> TRUE,
      seedLeakHidden |-> FALSE,
      seedIgnoreMapping |-> FALSE,
      seedEvNoQueue |-> FALSE,
      seedEvNoExclude |-> FALSE,
      seedEvUnauth |-> FALSE ]
=============================================================================
