\* C12 ConfirmHistory as designed: every confirm sequence of length <= 3 over the full delta alphabet (27 deltas)
SPECIFICATION Spec
CONSTANTS
  ImplBug_F6_Shl = FALSE
  ImplBug_F6_Range = FALSE
  OverflowChecks = TRUE
  LimbBits = 16
  N = 3
  Deltas <- DeltasFull
  QAgo <- QAgoFull
  Emit = TRUE
INVARIANTS C12_CH NoPanic EmitInit
ACTION_CONSTRAINT EmitEdge
CHECK_DEADLOCK FALSE
