SPECIFICATION Spec
CONSTANTS
  Alphabet = {0, 1, 4, 7, 8, 9, 12, 15, 16, 17, 20, 30, 33}
  MaxLen = 5
  Mtu = 20
  Headers = {4, 5}
  Variant = "impl"
INVARIANTS Inv_Legal
CHECK_DEADLOCK FALSE
