SPECIFICATION VMSpec
CONSTANTS
  Ent = {"e1", "e2", "e3", "e4"}
  Client = {"c1"}
  Policy = "black"
  Track = FALSE
  Timeout = 1000
  Marks = FALSE
  Impl <- ImplDesigned
INVARIANTS Query HeldExact HeldTruth Shape
CHECK_DEADLOCK FALSE
