\* C18 non-vacuity: the export as found on the pinned tree (F12, plain push). TLC must report a violated
\* invariant (a component exported twice: overlapping rules, or a component the scene already held).
CONSTANTS
    ImplBug_F12 = TRUE
    MaxEnt = 2
    RuleOpts = {0, 1, 2}
    SecondComps = {"A", "B"}
    SecondPre = {{}}
    TwoEntRuleOpts = {1}
SPECIFICATION Spec
CHECK_DEADLOCK FALSE
INVARIANTS
    Inv_NoDuplicate
    Inv_RoundTrips
    Inv_Conforms
    Inv_C18
