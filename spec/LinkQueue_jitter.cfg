\* design, conditioner with jitter: reordering is allowed by design; nothing lost, duplicated, altered or early.
CONSTANTS
    NumChannels = 2
    MaxMsgs = 4
    Delays = {0, 2}
    MaxClock = 4
    ImplBug_F7 = FALSE
    PartialReads = TRUE
    Gen = FALSE
    PermSizes = {}
SPECIFICATION Spec
CHECK_DEADLOCK FALSE
INVARIANTS TypeOK NoLossNoDup HeapShape NothingOverdue
