SPECIFICATION SpecC
CONSTANTS
    Chan = {0}
    Peer = {1}
    MaxOps = 5
    Impl = "KeepOnConnecting"
INVARIANT Inv
VIEW View
CHECK_DEADLOCK FALSE
