\* design, constant-latency conditioner (heap survives frames, mixed timestamps): order must still hold.
CONSTANTS
    NumChannels = 2
    MaxMsgs = 5
    Delays = {2}
    MaxClock = 4
    ImplBug_F7 = FALSE
    PartialReads = TRUE
    Gen = FALSE
    PermSizes = {}
SPECIFICATION Spec
CHECK_DEADLOCK FALSE
INVARIANTS TypeOK PerChannelFifo ExactlyOnce HeapShape NothingOverdue
