------------------------------ MODULE PackTrace ------------------------------
(* Binds Packing to the code: every record is one tick of a real server (chunk sizes as observed on the
   wire, header size, the client's maximum message size) together with the split the server chose;
   the split must be exactly what the algorithm model computes, and must be Legal. *)
EXTENDS Packing, TLC, Json, IOUtils

Rec == ndJsonDeserialize(IOEnv.TRACE)

VARIABLE l
Init == l = 1

Bad(r) ==
    LET predicted == Pack(r.sizes, r.H, r.max, r.track)
    IN {p \in {"split", "legal", "lens", "groups"} :
          CASE p = "split" -> predicted # r.msgs
            [] p = "legal" -> ~Legal(r.sizes, r.H, r.max, r.track, r.msgs)
            [] p = "lens"  -> \E k \in 1..Len(r.msgs) : MsgSize(r.sizes, r.H, r.msgs[k]) - r.slack # r.lens[k]
            [] OTHER       -> ~r.groupsTogether}

Next ==
    /\ l <= Len(Rec)
    /\ \A p \in Bad(Rec[l]) : PrintT(<<"PACKBAD", ToJson([i |-> Rec[l].i, what |-> p, sizes |-> Rec[l].sizes, H |-> Rec[l].H,
                                                          max |-> Rec[l].max, track |-> Rec[l].track, observed |-> Rec[l].msgs,
                                                          predicted |-> Pack(Rec[l].sizes, Rec[l].H, Rec[l].max, Rec[l].track)])>>)
    /\ l' = l + 1

Spec == Init /\ [][Next]_l
Done == (l = Len(Rec) + 1) => PrintT(<<"PACKDONE", ToJson([records |-> Len(Rec)])>>)
=============================================================================
