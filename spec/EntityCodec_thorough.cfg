\* C15 thorough tier: larger class sets, 24-byte alphabet up to length 4
SPECIFICATION Spec
CHECK_DEADLOCK FALSE
CONSTANTS
  ImplBug_F16 = FALSE
  Families = {"rt", "fields", "bytes"}
  IdxClasses <- IdxThorough
  GenClasses <- GenThorough
  Prefixes <- PrefixesThorough
  Suffixes <- SuffixesThorough
  FlagRaw <- FlagRawThorough
  FIdxClasses <- FIdxThorough
  GenRaw <- GenRawThorough
  Shapes <- ShapesAll
  FSuffixes <- FSuffixesThorough
  Alphabet <- AlphabetThorough
  MaxLen = 4
  Emit = TRUE
INVARIANTS
  Total
  Lossless
  RoundTrip
  EmitCase
