\* C12 TickOrder, 8-bit counter, distance EXACTLY half the range: outside the property; TLC must find that cmp is not
\* antisymmetric there (shows the "less than half" bound of the statement is tight and the invariant is not vacuous)
SPECIFICATION Spec
CONSTANTS
  ImplBug_F6_Shl = FALSE
  ImplBug_F6_Range = FALSE
  OverflowChecks = TRUE
  LimbBits = 4
  BaseSet <- BaseAll
  XSet = {0}
  DSet = {128}
  Emit = FALSE
INVARIANTS C12_TO EmitCase
CHECK_DEADLOCK FALSE
