SPECIFICATION SpecS
CONSTANTS
    Chan = {0, 1, 2}
    Peer = {1, 2}
    MaxOps = 7
    Impl = "Design"
INVARIANT Inv
VIEW View
CHECK_DEADLOCK FALSE
