------------------------------- MODULE Events -------------------------------
(***************************************************************************)
(* Remote events on top of the replication core: server events / triggers  *)
(* (buffered per frame, flushed after replication on ticks, stamped with   *)
(* the recipient's update tick, queued on the client until that tick has   *)
(* been applied; independent events bypass all that), client events /      *)
(* triggers (cursor-based sending, sender identity attached on receipt),   *)
(* entity mapping or refusal, late joiners, authorization.                 *)
(*                                                                         *)
(* Same style as Core: every step is a function on the state record, which *)
(* here carries one more field `ev`.  Game logic emits inside a frame's    *)
(* Update (the harness queues the emission, a system of the app performs   *)
(* it), so an emission is ordered after the connects processed before that *)
(* frame, exactly as in an application.                                    *)
(***************************************************************************)
EXTENDS Core

SEvTypes == <<"SOrd", "SInd", "SMap", "STrig", "SUnr", "SMTrig">>      \* registration order = channel order
CEvTypes == <<"COrd", "CMap", "CTrig", "CUnr">>
SEvSet == {"SOrd", "SInd", "SMap", "STrig", "SUnr", "SMTrig"}
CEvSet == {"COrd", "CMap", "CTrig", "CUnr"}
Unreliable(t) == t \in {"SUnr", "CUnr"}                 \* unreliable channel: loss and reordering
Independent(t) == t = "SInd"
Mapped(t) == t \in {"SMap", "STrig", "SMTrig", "CMap", "CTrig"}    \* carries an entity reference (when e # None)

\* server event  x == [t, id, mode, to, sess, e]   mode \in {"all", "except", "direct"}
\* message s->c  m == [t, id, stamp, e]            stamp = -1 for independent events
\* client event  y == [t, id, e]

EvNetInit == [sev |-> [t \in SEvSet |-> <<>>], rxSev |-> [t \in SEvSet |-> <<>>],
              cev |-> [t \in CEvSet |-> <<>>], srxCev |-> [t \in CEvSet |-> <<>>]]

EvInit == [spend |-> <<>>,                                  \* emissions queued for the next server frame
           sets |-> <<>>,                                   \* BufferedServerEvents: <<[evs, excl]>>
           cpend |-> [c \in Client |-> <<>>],               \* emissions queued for the client's next frame
           queue |-> [c \in Client |-> <<>>],               \* ClientEventQueue: <<m>> in arrival order
           sess |-> [c \in Client |-> 0],
           lastConn |-> [c \in Client |-> FALSE],           \* client_just_connected's memory
           net |-> [c \in Client |-> EvNetInit]]

InitStateE == [srv |-> InitState.srv, net |-> InitState.net, cli |-> InitState.cli, ev |-> EvInit]

----------------------------------------------------------------------------
EmitSF(st, x) == [st EXCEPT !.ev.spend = Append(@, [x EXCEPT !.sess = IF x.to \in Client THEN st.ev.sess[x.to] ELSE 0])]
EmitCF(st, c, y) == [st EXCEPT !.ev.cpend[c] = Append(@, y)]

ConnectEvF(st, c) ==
    [st EXCEPT !.ev.sess[c] = @ + 1,
               !.ev.sets = IF Impl.seedEvNoExclude THEN @
                           ELSE [i \in 1..Len(@) |-> [@[i] EXCEPT !.excl = @ \cup {c}]]]   \* late joiner: excluded
DisconnectEvF(st, c) == [st EXCEPT !.ev.net[c] = EvNetInit]
StopEvF(st) == [st EXCEPT !.ev.net = [c \in Client |-> EvNetInit]]

\* AuthMethod::Custom: the game authorizes by inserting AuthorizedClient
AuthorizeF(st, c) ==
    [st EXCEPT !.srv.cl[c].auth = TRUE, !.srv.cl[c].vis = [kind |-> Policy, list |-> EmptyFn, added |-> {}, removed |-> {}]]
ConnectUnauthF(st, c) ==
    [st EXCEPT !.srv.cl[c] = [SrvClientInit EXCEPT !.conn = TRUE], !.cli[c].status = "Connected"]

----------------------------------------------------------------------------
(* server frame: receive client events (PreUpdate), emit (Update), send_or_buffer + send_buffered (PostUpdate) *)

RECURSIVE SetToSeq(_)
SetToSeq(S) == IF S = {} THEN <<>> ELSE LET x == CHOOSE y \in S : TRUE IN <<x>> \o SetToSeq(S \ {x})
SetToSeqC == SetToSeq(Client)

OfType(s, t) == SelectSeq(s, LAMBDA x : x.t = t)
RECURSIVE Concat(_)
Concat(ss) == IF ss = <<>> THEN <<>> ELSE Head(ss) \o Concat(Tail(ss))
ByType(s, types) == Concat([i \in 1..Len(types) |-> OfType(s, types[i])])

Recipients(st, x, excl) ==
    LET conn == {c \in Client : st.srv.cl[c].conn}
    IN CASE x.mode = "all"    -> conn \ excl
         [] x.mode = "except" -> (conn \ excl) \ {x.to}
         [] OTHER             -> IF x.to \in conn /\ x.to \notin excl THEN {x.to} ELSE {}

SendEv(net, cs, m) == [c \in Client |-> IF c \in cs THEN [net[c] EXCEPT !.sev[m.t] = Append(@, m)] ELSE net[c]]

\* returns [st, delivered]: delivered = what server-side game logic observes in this frame
SrvFrameEv(st, stPreFrame, ran) ==
    LET running == stPreFrame.srv.running
        justStopped == stPreFrame.srv.wasRunning /\ ~running
        \* PreUpdate: FromClient<E> for every received client event, with the true sender
        rxd == Concat([i \in 1..Len(CEvTypes) |->
                  Concat([j \in 1..Len(SetToSeqC) |->
                      [k \in 1..Len(st.ev.net[SetToSeqC[j]].srxCev[CEvTypes[i]]) |->
                          [t |-> CEvTypes[i], id |-> st.ev.net[SetToSeqC[j]].srxCev[CEvTypes[i]][k].id,
                           from |-> SetToSeqC[j], e |-> st.ev.net[SetToSeqC[j]].srxCev[CEvTypes[i]][k].e]]])])
        net0 == [c \in Client |-> [st.ev.net[c] EXCEPT !.srxCev = [t \in CEvSet |-> <<>>]]]
        \* Update: the queued emissions happen; PostUpdate send_or_buffer reads them grouped by type
        emitted == IF running THEN ByType(st.ev.spend, SEvTypes) ELSE <<>>
        indep == SelectSeq(emitted, LAMBDA x : Independent(x.t))
        dep == SelectSeq(emitted, LAMBDA x : ~Independent(x.t))
        sendIndep(net, x) == SendEv(net, Recipients(st, x, {}), [t |-> x.t, id |-> x.id, stamp |-> -1, e |-> x.e])
        net1 == FoldSeq(sendIndep, net0, indep)
        sets1 == IF running THEN Append(st.ev.sets, [evs |-> dep, excl |-> {}]) ELSE st.ev.sets
        \* send_buffered: on ticks, after replication; dependent events need an authorized recipient
        flushSet(net, set) ==
            FoldSeq(LAMBDA n, x : LET rc == {c \in Recipients(st, x, set.excl) : st.srv.cl[c].auth \/ Impl.seedEvUnauth}
                                  IN [c \in Client |-> IF c \in rc
                                        THEN [n[c] EXCEPT !.sev[x.t] = Append(@, [t |-> x.t, id |-> x.id,
                                                                 stamp |-> st.srv.cl[c].updTick, e |-> x.e])]
                                        ELSE n[c]],
                    net, set.evs)
        net2 == IF ran THEN FoldSeq(flushSet, net1, sets1) ELSE net1
        sets2 == IF ran \/ justStopped THEN <<>> ELSE sets1
    IN [st |-> [st EXCEPT !.ev.net = net2, !.ev.sets = sets2, !.ev.spend = <<>>],
        delivered |-> IF running THEN rxd ELSE <<>>]

----------------------------------------------------------------------------
(* client frame: reset on connect, receive after replication, emit, send *)

\* entity references an event carries: the mapped field / the trigger target, and for the mapped trigger
\* SMTrig also its payload entity, which the harness always takes to be "e1"
Refs(m) == (IF Mapped(m.t) /\ m.e # None THEN {m.e} ELSE {}) \cup (IF m.t = "SMTrig" THEN {"e1"} ELSE {})
Resolvable(cs, m) == Refs(m) \subseteq DOMAIN cs.ents

\* per type: first the queued messages whose tick has arrived (tick order, then arrival), then the new ones
ReceiveType(acc, t, cs, rx) ==
    LET upd == cs.updTick
        q == OfType(acc.queue, t)
        ready == SelectSeq(q, LAMBDA m : m.stamp <= upd)
        ticks == {ready[i].stamp : i \in 1..Len(ready)}
        RECURSIVE InTickOrder(_)
        InTickOrder(T) == IF T = {} THEN <<>>
                          ELSE LET lo == CHOOSE x \in T : \A y \in T : x <= y
                               IN SelectSeq(ready, LAMBDA m : m.stamp = lo) \o InTickOrder(T \ {lo})
        released == InTickOrder(ticks)
        stay == SelectSeq(acc.queue, LAMBDA m : ~(m.t = t /\ m.stamp <= upd))
        late == SelectSeq(rx, LAMBDA m : ~Independent(t) /\ m.stamp > upd /\ ~Impl.seedEvNoQueue)
        now == SelectSeq(rx, LAMBDA m : Independent(t) \/ m.stamp <= upd \/ Impl.seedEvNoQueue)
        deliver == SelectSeq(released \o now, LAMBDA m : Resolvable(cs, m))
    IN [queue |-> stay \o late,
        delivered |-> acc.delivered \o [i \in 1..Len(deliver) |->
                          [t |-> t, id |-> deliver[i].id, upd |-> upd, e |-> deliver[i].e]]]

CliFrameEv(st, c) ==
    LET cs == st.cli[c]
        connected == cs.status = "Connected"
        justConn == connected /\ ~st.ev.lastConn[c]
        \* ResetEvents: unsent client events and queued server events of the previous session are discarded
        queue0 == IF justConn THEN <<>> ELSE st.ev.queue[c]
        cpend0 == st.ev.cpend[c]
        r == IF connected
             THEN FoldSeq(LAMBDA acc, t : ReceiveType(acc, t, cs, st.ev.net[c].rxSev[t]),
                          [queue |-> queue0, delivered |-> <<>>], SEvTypes)
             ELSE [queue |-> queue0, delivered |-> <<>>]
        \* PostUpdate send: mapped events whose entity the client cannot translate are not sent
        sendable == SelectSeq(ByType(cpend0, CEvTypes), LAMBDA y : Resolvable(cs, y))
        cev1 == IF connected
                THEN [t \in CEvSet |-> st.ev.net[c].cev[t] \o OfType(sendable, t)]
                ELSE st.ev.net[c].cev
    IN [st |-> [st EXCEPT !.ev.queue[c] = r.queue,
                          !.ev.cpend[c] = <<>>,
                          !.ev.lastConn[c] = connected,
                          !.ev.net[c].rxSev = IF connected THEN [t \in SEvSet |-> <<>>] ELSE @,
                          !.ev.net[c].cev = cev1],
        delivered |-> r.delivered]

----------------------------------------------------------------------------
DeliverEvSF(st, c, t, i) ==
    [st EXCEPT !.ev.net[c].sev[t] = RemoveAt(@, i), !.ev.net[c].rxSev[t] = Append(@, st.ev.net[c].sev[t][i])]
\* an ordered reliable channel hands over its head; an unreliable one any message, and may lose any
DeliverEvSEnabled(st, c, t, i) == i \in 1..Len(st.ev.net[c].sev[t]) /\ st.cli[c].status = "Connected" /\ (Unreliable(t) \/ i = 1)
DropEvSF(st, c, t, i) == [st EXCEPT !.ev.net[c].sev[t] = RemoveAt(@, i)]
DropEvSEnabled(st, c, t, i) == i \in 1..Len(st.ev.net[c].sev[t]) /\ Unreliable(t)
DropEvCF(st, c, t, i) == [st EXCEPT !.ev.net[c].cev[t] = RemoveAt(@, i)]
DropEvCEnabled(st, c, t, i) == i \in 1..Len(st.ev.net[c].cev[t]) /\ Unreliable(t)
DeliverEvCF(st, c, t, i) ==
    [st EXCEPT !.ev.net[c].cev[t] = RemoveAt(@, i), !.ev.net[c].srxCev[t] = Append(@, st.ev.net[c].cev[t][i])]
DeliverEvCEnabled(st, c, t, i) == i \in 1..Len(st.ev.net[c].cev[t]) /\ st.srv.cl[c].conn /\ st.srv.running /\ (Unreliable(t) \/ i = 1)

=============================================================================
