----------------------------- MODULE TickConfirmCH -----------------------------
(***************************************************************************)
(* C12 / ConfirmHistory: bounded instance.                                 *)
(*                                                                         *)
(* Behaviours: ConfirmHistory::new(0) followed by up to N calls of         *)
(* confirm(last + delta), delta drawn from the boundary alphabet `Deltas`  *)
(* (negative = older than the newest tick).  After every step the history  *)
(* as implemented (mask arithmetic) must answer last_tick, mask, every     *)
(* point query and every range query over the boundary set `QAgo` (taken   *)
(* relative to the newest tick) plus all ticks confirmed so far exactly as *)
(* the plain set of confirmed ticks does, without panicking.               *)
(*                                                                         *)
(* Every explored transition (and the initial state) is printed as one     *)
(* JSON case: the confirm sequence and what the REFERENCE answers; the     *)
(* Rust replayer (harness/src/bin/c12_replay.rs) runs it on the real type  *)
(* at every base.                                                          *)
(***************************************************************************)
EXTENDS TickConfirm, TLC, Json, SequencesExt

CONSTANTS N,          \* max number of confirm calls after new()
          Deltas,     \* alphabet of tick deltas relative to the newest tick
          QAgo,       \* query points, as "ticks ago" relative to the newest tick (negative = future)
          Emit        \* TRUE: print cases

DeltasFull    == {-129, -128, -127, -66, -65, -64, -63, -62, -33, -32, -31, -2, -1, 0,
                  1, 2, 31, 32, 33, 62, 63, 64, 65, 66, 127, 128, 129}
DeltasMid     == {-65, -64, -63, -33, -32, -1, 0, 1, 2, 31, 32, 33, 63, 64, 65, 128}
DeltasReduced == {-64, -63, -1, 0, 1, 2, 63, 64, 65}
QAgoFull      == {-2, -1, 0, 1, 2, 31, 32, 33, 62, 63, 64, 65, 66, 127, 128, 129}

VARIABLES hist,   \* <<0, t1, ..., tn>>: new(0) then confirm(t1) ... confirm(tn)  (tick offsets)
          h,      \* ConfirmHistory as implemented
          r       \* reference: plain set of confirmed ticks
vars == <<hist, h, r>>

Init == hist = <<0>> /\ h = CH_New(0) /\ r = Ref_New(0)

Confirm(d) ==
    LET t == r.last + d
    IN  /\ hist' = Append(hist, t)
        /\ h' = CH_Confirm(h, t)
        /\ r' = Ref_Confirm(r, t)

Next == Len(hist) <= N /\ \E d \in Deltas : Confirm(d)

Spec == Init /\ [][Next]_vars

------------------------------------------------------------------------------
QP(rr) == {rr.last - a : a \in QAgo} \cup rr.S

LastOK  == h.last = r.last
MaskOK  == h.mask = Ref_Mask(r)                      \* bit i set <=> tick last - i confirmed
PointOK == \A t \in QP(r) : CH_Contains(h, t) = Ref_Contains(r, t)
RangeOK == \A a, b \in QP(r) : a <= b => CH_ContainsAny(h, a, b) = BoolStr(Ref_ContainsAny(r, a, b))
NoPanic == \A a, b \in QP(r) : a <= b => CH_ContainsAny(h, a, b) # "P"

C12_CH == LastOK /\ MaskOK /\ PointOK /\ RangeOK

------------------------------------------------------------------------------
\* Case export.  qp sorted ascending; pt[i] answers contains(qp[i]);
\* rg[i][j] answers contains_any(qp[i], qp[i + j - 1]).  1 = true, 0 = false.
B01(b) == IF b THEN 1 ELSE 0
CaseRec(hh, rr) ==
    LET qp == SetToSortSeq(QP(rr), LAMBDA x, y : x < y)
        n  == Len(qp)
    IN  [m    |-> "CH",
         hist |-> hh,
         last |-> rr.last,
         mask |-> SetToSortSeq(Ref_Mask(rr), LAMBDA x, y : x < y),
         qp   |-> qp,
         pt   |-> [i \in 1 .. n |-> B01(Ref_Contains(rr, qp[i]))],
         rg   |-> [i \in 1 .. n |-> [j \in 1 .. (n - i + 1) |-> B01(Ref_ContainsAny(rr, qp[i], qp[i + j - 1]))]]]

EmitInit == (Emit /\ Len(hist) = 1) => PrintT(<<"CASE", ToJson(CaseRec(hist, r))>>)
EmitEdge == Emit => PrintT(<<"CASE", ToJson(CaseRec(hist', r'))>>)
=============================================================================
