------------------------------ MODULE MC_Event ------------------------------
(***************************************************************************)
(* Bounded model of remote events on top of the replication core: all      *)
(* emission points (any frame, on or between ticks), send modes, clients   *)
(* connecting / authorizing at any point, every relative delay between the *)
(* update channel and each event channel, followed by a settle phase.      *)
(* The monitors of PropsE are evaluated on every step; `bad` collects the  *)
(* names of the violated ones.                                             *)
(***************************************************************************)
EXTENDS PropsE

CONSTANTS
    AuthMode,      \* "none": authorized on connect; "custom": by an explicit Authorize step
    SEmitTypes,    \* server event types the model emits
    CEmitTypes,    \* client event types the model emits
    Modes,         \* send modes the model uses
    MaxEmits, MaxTicks, MaxIdle, MaxCliFrames, MaxOps,
    Reconnects,    \* number of disconnect / reconnect cycles allowed
    SpawnComps,    \* the component sets entities are spawned with
    InitConnected, \* clients connected (and, with AuthMode "none", authorized) from the start
    SettleRounds

VARIABLES st, g, ge, b, bad

vars == <<st, g, ge, b, bad>>

ImplAsDesigned == ImplDesigned
ImplF21 == [ImplDesigned EXCEPT !.lateJoinerMissesEmpty = TRUE]
\* seeded deviations of the event machinery (non-vacuity of the monitors)
ImplNoQueue == [ImplDesigned EXCEPT !.seedEvNoQueue = TRUE]
ImplNoExclude == [ImplDesigned EXCEPT !.seedEvNoExclude = TRUE]
ImplEvUnauth == [ImplDesigned EXCEPT !.seedEvUnauth = TRUE]

Frame(s, doTick) == SrvFrameR(s, doTick, 0, <<>>, 0)

ConnectIt(s, c) == ConnectEvF(IF AuthMode = "none" THEN ConnectF(s, c) ELSE ConnectUnauthF(s, c), c)

Init ==
    /\ st = FoldSet(ConnectIt, Then(Frame(InitStateE, FALSE), LAMBDA r : r.st), InitConnected)
    /\ g = GhostSnap(GhostInit, Then(Frame(InitStateE, FALSE), LAMBDA r : r.st))
    /\ ge = EvGhostInit
    /\ b = [emits |-> 0, ticks |-> 0, idle |-> 0, cframes |-> 0, ops |-> 0, recon |-> 0, nextId |-> 1, phase |-> "run"]
    /\ bad = {}

Running == b.phase = "run"

\* event messages appended to the wire between two states: [c, t, id, stamp, e]
NewSev(s1, s2) ==
    UNION {UNION {{[c |-> c, t |-> t, id |-> s2.ev.net[c].sev[t][i].id, stamp |-> s2.ev.net[c].sev[t][i].stamp,
                    e |-> s2.ev.net[c].sev[t][i].e]
                   : i \in (Len(s1.ev.net[c].sev[t]) + 1)..Len(s2.ev.net[c].sev[t])} : t \in SEvSet} : c \in Client}
NewRepl(s1, s2) ==
    UNION {{[c |-> c, ch |-> "upd", t |-> "-"] : i \in (Len(s1.net[c].upd) + 1)..Len(s2.net[c].upd)}
           \cup {[c |-> c, ch |-> "mut", t |-> "-"] : i \in (Len(s1.net[c].mut) + 1)..Len(s2.net[c].mut)} : c \in Client}
SentAllOf(s1, s2) == NewRepl(s1, s2) \cup {[c |-> m.c, ch |-> "ev", t |-> m.t] : m \in NewSev(s1, s2)}

\* one server frame with all monitors: returns [st, g, ge, bad]
SrvStep(s, gg, gge, doTick) ==
    Then(Frame(s, doTick), LAMBDA r :
    Then(SrvFrameEv(r.st, s, r.ran), LAMBDA er :
        LET s2 == er.st
            sentEv == NewSev(s, s2)
            gge2 == EvGhostSrvFrame(gge, s, s2, sentEv, er.delivered)
            viol == {p \in {"C04stamp", "C05recipients", "C05server", "C07unauth"} :
                        CASE p = "C04stamp" -> ~C04_Stamp(s2, sentEv)
                          [] p = "C05recipients" -> ~C05_Recipients(s, gge2, sentEv)
                          [] p = "C05server" -> ~C05_ServerDelivery(s2, gge, er.delivered)
                          [] OTHER -> ~C07_Unauthorized(s2, SentAllOf(s, s2))}
        IN [st |-> s2, g |-> IF r.ran THEN GhostSnap(gg, s2) ELSE gg, ge |-> gge2, bad |-> viol]))

CliStep(s, gg, gge, c) ==
    Then(CliFrameF(s, c), LAMBDA s1 :
    Then(CliFrameEv(s1, c), LAMBDA er :
        LET s2 == er.st
            viol == {p \in {"C04delivery", "C05delivery"} :
                        CASE p = "C04delivery" -> ~C04_Delivery(s2, gge, c, er.delivered)
                          [] OTHER -> ~C05_Delivery(s2, gge, c, er.delivered)}
        IN [st |-> s2, g |-> gg, ge |-> EvGhostCliFrame(gge, s, s2, c, er.delivered), bad |-> viol]))

Apply(r) == st' = r.st /\ g' = r.g /\ ge' = r.ge /\ bad' = bad \cup r.bad

----------------------------------------------------------------------------
Connect(c) ==
    /\ Running /\ ConnectEnabled(st, c)
    /\ ~st.cli[c].lastNotDisc        \* the client runs a frame (its reset) before it connects again, as in MC_Core
    /\ st.ev.sess[c] = 0 \/ b.recon < Reconnects
    /\ st' = ConnectIt(st, c)
    /\ ge' = EvGhostConnect(ge, c)
    /\ b' = IF st.ev.sess[c] = 0 THEN b ELSE [b EXCEPT !.recon = @ + 1]
    /\ UNCHANGED <<g, bad>>
Authorize(c) ==
    /\ Running /\ AuthMode = "custom" /\ st.srv.cl[c].conn /\ ~st.srv.cl[c].auth
    /\ st' = AuthorizeF(st, c) /\ UNCHANGED <<g, ge, b, bad>>
Disconnect(c) ==
    /\ Running /\ DisconnectEnabled(st, c) /\ b.recon < Reconnects
    /\ st' = DisconnectEvF(DisconnectF(st, c), c) /\ UNCHANGED <<g, ge, b, bad>>

Spawn(e) ==
    /\ Running /\ b.ops < MaxOps /\ SpawnEnabled(st, e)
    /\ \E ks \in SpawnComps : st' = SpawnF(st, e, ks, TRUE) /\ b' = [b EXCEPT !.ops = @ + 1] /\ UNCHANGED <<g, ge, bad>>
Despawn(e) ==
    /\ Running /\ b.ops < MaxOps /\ DespawnEnabled(st, e)
    /\ st' = DespawnF(st, e) /\ b' = [b EXCEPT !.ops = @ + 1] /\ UNCHANGED <<g, ge, bad>>

EmitS(t, mode, to, e) ==
    /\ Running /\ b.emits < MaxEmits
    /\ mode = "all" <=> to = None
    /\ Mapped(t) => (e # None /\ st.srv.world[e].used)
    /\ t = "SMTrig" => st.srv.world["e1"].used        \* its payload entity is slot e1, which must exist by then
    /\ ~Mapped(t) => e = None
    /\ st' = EmitSF(st, [t |-> t, id |-> b.nextId, mode |-> mode, to |-> to, sess |-> 0, e |-> e])
    /\ b' = [b EXCEPT !.emits = @ + 1, !.nextId = @ + 1] /\ UNCHANGED <<g, ge, bad>>
EmitC(c, t, e) ==
    /\ Running /\ b.emits < MaxEmits
    /\ Mapped(t) <=> e # None
    /\ st' = EmitCF(st, c, [t |-> t, id |-> b.nextId, e |-> e])
    /\ b' = [b EXCEPT !.emits = @ + 1, !.nextId = @ + 1] /\ UNCHANGED <<g, ge, bad>>

SrvFrame(doTick) ==
    /\ Running
    /\ IF doTick THEN b.ticks < MaxTicks /\ b' = [b EXCEPT !.ticks = @ + 1]
                 ELSE b.idle < MaxIdle /\ b' = [b EXCEPT !.idle = @ + 1]
    /\ \E r \in {SrvStep(st, g, ge, doTick)} : Apply(r)
CliFrame(c) ==
    /\ Running /\ b.cframes < MaxCliFrames /\ b' = [b EXCEPT !.cframes = @ + 1]
    /\ \E r \in {CliStep(st, g, ge, c)} : Apply(r)

DeliverUpd(c) == Running /\ DeliverUpdEnabled(st, c) /\ st' = DeliverUpdF(st, c) /\ UNCHANGED <<g, ge, b, bad>>
DeliverEvS(c, t, i) == Running /\ DeliverEvSEnabled(st, c, t, i) /\ st' = DeliverEvSF(st, c, t, i) /\ UNCHANGED <<g, ge, b, bad>>
DeliverEvC(c, t, i) == Running /\ DeliverEvCEnabled(st, c, t, i) /\ st' = DeliverEvCF(st, c, t, i) /\ UNCHANGED <<g, ge, b, bad>>
DropEvS(c, t, i) == Running /\ DropEvSEnabled(st, c, t, i) /\ st' = DropEvSF(st, c, t, i) /\ UNCHANGED <<g, ge, b, bad>>
DropEvC(c, t, i) == Running /\ DropEvCEnabled(st, c, t, i) /\ st' = DropEvCF(st, c, t, i) /\ UNCHANGED <<g, ge, b, bad>>

----------------------------------------------------------------------------
(* settle: perfect link *)
RECURSIVE DrainUpd(_, _), DrainMut(_, _), DrainAck(_, _), DrainSev(_, _, _), DrainCev(_, _, _)
DrainUpd(s, c) == IF s.net[c].upd = <<>> \/ s.cli[c].status # "Connected" THEN s ELSE Then(DeliverUpdF(s, c), LAMBDA x : DrainUpd(x, c))
DrainMut(s, c) == IF s.net[c].mut = <<>> \/ s.cli[c].status # "Connected" THEN s ELSE Then(DeliverMutF(s, c, 1), LAMBDA x : DrainMut(x, c))
DrainAck(s, c) == IF s.net[c].ack = <<>> \/ ~s.srv.cl[c].conn THEN s ELSE Then(DeliverAckF(s, c), LAMBDA x : DrainAck(x, c))
DrainSev(s, c, t) == IF s.ev.net[c].sev[t] = <<>> \/ s.cli[c].status # "Connected" THEN s ELSE Then(DeliverEvSF(s, c, t, 1), LAMBDA x : DrainSev(x, c, t))
DrainCev(s, c, t) == IF s.ev.net[c].cev[t] = <<>> \/ ~s.srv.cl[c].conn THEN s ELSE Then(DeliverEvCF(s, c, t, 1), LAMBDA x : DrainCev(x, c, t))

ClientRound(p, c) ==
    Then(DrainUpd(p.st, c), LAMBDA s1 :
    Then(DrainMut(s1, c), LAMBDA s2 :
    Then(FoldSet(LAMBDA s, t : DrainSev(s, c, t), s2, SEvSet), LAMBDA s3 :
    Then(CliStep(s3, p.g, p.ge, c), LAMBDA r :
    Then(DrainAck(r.st, c), LAMBDA s4 :
    Then(FoldSet(LAMBDA s, t : DrainCev(s, c, t), s4, CEvSet), LAMBDA s5 :
        [st |-> s5, g |-> r.g, ge |-> r.ge, bad |-> p.bad \cup r.bad]))))))

Round(p) ==
    Then(SrvStep(p.st, p.g, p.ge, TRUE), LAMBDA r :
        FoldSet(ClientRound, [st |-> r.st, g |-> r.g, ge |-> r.ge, bad |-> p.bad \cup r.bad], Client))

RECURSIVE Rounds(_, _)
Rounds(p, n) == IF n = 0 THEN p ELSE Then(Round(p), LAMBDA q : Rounds(q, n - 1))

Settle ==
    /\ Running
    /\ \E p \in {Rounds([st |-> st, g |-> g, ge |-> ge, bad |-> {}], SettleRounds)} :
       \E r \in {SrvStep(p.st, p.g, p.ge, FALSE)} :
          /\ st' = r.st /\ g' = r.g /\ ge' = r.ge
          /\ bad' = bad \cup p.bad \cup r.bad
                    \cup (IF C05_Complete(r.st, r.ge) THEN {} ELSE {"C05complete"})
                    \cup (IF C05_ServerComplete(r.st, r.ge) THEN {} ELSE {"C05serverComplete"})
                    \cup (IF C01_AtQuiescence(r.st) THEN {} ELSE {"C01"})
    /\ b' = [b EXCEPT !.phase = "settled"]

Next ==
    \/ \E c \in Client : Connect(c) \/ Authorize(c) \/ Disconnect(c) \/ CliFrame(c) \/ DeliverUpd(c)
    \/ \E e \in Ent : Spawn(e) \/ Despawn(e)
    \/ \E t \in SEmitTypes, mode \in Modes, to \in Client \cup {None}, e \in Ent \cup {None} : EmitS(t, mode, to, e)
    \/ \E c \in Client, t \in CEmitTypes, e \in Ent \cup {None} : EmitC(c, t, e)
    \/ \E doTick \in BOOLEAN : SrvFrame(doTick)
    \/ \E c \in Client, t \in SEvSet, i \in 1..2 : DeliverEvS(c, t, i) \/ DropEvS(c, t, i)
    \/ \E c \in Client, t \in CEvSet, i \in 1..2 : DeliverEvC(c, t, i) \/ DropEvC(c, t, i)
    \/ Settle

Spec == Init /\ [][Next]_vars

\* properties: the monitors never fire; structural invariants of the core keep holding
NoViolation == bad = {}
Inv_C04 == bad \cap {"C04stamp", "C04delivery"} = {}
Inv_C05 == bad \cap {"C05recipients", "C05delivery", "C05server", "C05complete", "C05serverComplete"} = {}
Inv_C07 == bad \cap {"C07unauth"} = {} /\ (b.phase = "settled" => "C01" \notin bad)
Inv_C03 == C03(st, g)

=============================================================================
