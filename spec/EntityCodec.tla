------------------------------- MODULE EntityCodec -------------------------------
(***************************************************************************)
(* C15 - "Entity wire encoding is lossless and decoding is total".         *)
(*                                                                         *)
(* Bit/byte-level model of src/shared/entity_serde.rs on top of postcard's *)
(* LEB128 varints (postcard 1.1.3 src/varint.rs, src/de/deserializer.rs).  *)
(*                                                                         *)
(* Numbers never become TLC integers: a u32 / u64 is a little-endian       *)
(* sequence of 32 / 64 bits (function 1..w -> {0,1}); only bytes (0..255)  *)
(* and positions are integers.  Number *classes* (2^p + d, small ints,     *)
(* explicit little-endian byte patterns) are expanded into bits here; the  *)
(* JSON handed to the Rust replayer carries numbers as little-endian bytes.*)
(*                                                                         *)
(* The module holds                                                        *)
(*   (a) the REFERENCE meaning of the property: the set of valid           *)
(*       identifiers, and the wire grammar written declaratively           *)
(*       (RefParse: "these bytes start with the minimal encoding of the    *)
(*       valid identifier e, which is n bytes long");                      *)
(*   (b) the MECHANISM as the code implements it, transcribed loop by loop *)
(*       (Serialize / Deserialize, EncVarint / DecVarint), with the        *)
(*       deviation found on the pinned tree behind ImplBug_F16.            *)
(* and three case families enumerated by TLC (see Init / Next).            *)
(***************************************************************************)
EXTENDS Integers, Sequences, FiniteSets, TLC, Json

CONSTANTS
    ImplBug_F16,   \* FALSE: intended design (bad generation field -> Err).  TRUE: pinned tree
                   \* (`+ 1` overflow / Entity::from_bits panic).
    Families,      \* subset of {"rt", "fields", "bytes"}
    IdxClasses,    \* number classes for the entity index (u32)
    GenClasses,    \* number classes for VALID generations (1 .. 2^31-1)
    Prefixes,      \* byte strings already consumed before the cursor
    Suffixes,      \* byte strings following the entity
    FlagRaw,       \* extra raw u64 classes for the flagged-index field (family "fields")
    FIdxClasses,   \* index classes used by family "fields"
    GenRaw,        \* raw u32 classes for the generation-1 field (family "fields"; valid and invalid)
    Shapes,        \* encoding shapes applied to each field (family "fields")
    FSuffixes,     \* suffixes of family "fields"
    Alphabet,      \* byte alphabet of family "bytes"
    MaxLen,        \* maximal length of family "bytes"
    Emit           \* TRUE: print one CASE line per state

VARIABLE c         \* the current case (a record; field fam selects the family)

-----------------------------------------------------------------------------
(* Bits *)

Pow2(n) == 2 ^ n                                  \* only used for n <= 30
BitOf(n, i) == (n \div Pow2(i)) % 2               \* bit i (0-based) of a small integer
Zero(w) == [i \in 1..w |-> 0]
Or(a, b) == IF a = 1 \/ b = 1 THEN 1 ELSE 0
FromInt(n, w) == [i \in 1..w |-> IF i <= 31 THEN BitOf(n, i - 1) ELSE 0]
FromBytesLE(bs, w) ==                             \* explicit little-endian byte pattern
    [i \in 1..w |-> IF (i - 1) \div 8 < Len(bs) THEN BitOf(bs[((i - 1) \div 8) + 1], (i - 1) % 8) ELSE 0]
\* 2^p + d for d in {-2,-1,0,1}, 1 <= p <= w (d < 0 when p = w)
PowBits(p, d, w) ==
    [i \in 1..w |->
        CASE d = 0  -> IF i = p + 1 THEN 1 ELSE 0
          [] d = 1  -> IF i = p + 1 \/ i = 1 THEN 1 ELSE 0
          [] d = -1 -> IF i <= p THEN 1 ELSE 0
          [] d = -2 -> IF i <= p /\ i >= 2 THEN 1 ELSE 0]
\* number classes: <<"v", n>>  <<"p", p, d>>  <<"b", <<little-endian bytes>>>>
ClassBits(k, w) ==
    CASE k[1] = "v" -> FromInt(k[2], w)
      [] k[1] = "p" -> PowBits(k[2], k[3], w)
      [] k[1] = "b" -> FromBytesLE(k[2], w)

ByteAt(bits, k) ==                                \* k-th byte (1-based) of a bit sequence
    LET o == 8 * (k - 1) IN
    bits[o+1] + 2*bits[o+2] + 4*bits[o+3] + 8*bits[o+4] + 16*bits[o+5] + 32*bits[o+6]
      + 64*bits[o+7] + 128*bits[o+8]
BytesLE(bits, n) == [k \in 1..n |-> ByteAt(bits, k)]
Low7(bits) == bits[1] + 2*bits[2] + 4*bits[3] + 8*bits[4] + 16*bits[5] + 32*bits[6] + 64*bits[7]
Lt128(bits, w) == \A i \in 8..w : bits[i] = 0
Shr7(bits, w) == [i \in 1..w |-> IF i + 7 <= w THEN bits[i + 7] ELSE 0]
AllOnes(bits, w) == \A i \in 1..w : bits[i] = 1
IsOne(bits, w) == bits[1] = 1 /\ \A i \in 2..w : bits[i] = 0
\* +1 / -1 on bit sequences (callers exclude overflow / zero)
Inc(bits, w) ==
    LET k == CHOOSE j \in 1..w : bits[j] = 0 /\ \A i \in 1..(j-1) : bits[i] = 1 IN
    [i \in 1..w |-> IF i < k THEN 0 ELSE IF i = k THEN 1 ELSE bits[i]]
Dec(bits, w) ==
    LET k == CHOOSE j \in 1..w : bits[j] = 1 /\ \A i \in 1..(j-1) : bits[i] = 0 IN
    [i \in 1..w |-> IF i < k THEN 1 ELSE IF i = k THEN 0 ELSE bits[i]]

-----------------------------------------------------------------------------
(* (a) Reference: valid identifiers and the wire grammar *)

\* Bevy 0.16: an Entity is any u32 index with a generation in 1 ..= 0x7FFF_FFFF.
Valid(idx, gen) == gen # Zero(32) /\ gen[32] = 0

\* A minimal LEB128 number at b[pos..]: continuation bytes, then one byte < 0x80 that is not a
\* redundant zero group.  Returns the set of possible lengths (empty or a singleton).
CanonLens(b, pos, maxBytes) ==
    {n \in 1..maxBytes :
        /\ pos + n - 1 <= Len(b)
        /\ b[pos + n - 1] < 128
        /\ \A j \in 1..(n-1) : b[pos + j - 1] >= 128
        /\ (n > 1 => b[pos + n - 1] # 0)}
\* its value as 7*maxBytes bits
CanonValue(b, pos, n, maxBytes) ==
    [i \in 1..(7 * maxBytes) |->
        IF (i - 1) \div 7 < n THEN BitOf(b[pos + ((i - 1) \div 7)] % 128, (i - 1) % 7) ELSE 0]

Free == [st |-> "free", idx |-> <<>>, gen |-> <<>>, n |-> 0]
\* RefParse(b, pos): "b[pos..] starts with the encoding of the valid identifier (idx, gen),
\* n bytes long" - the grammar: flagged index (index*2 + has_generation) < 2^33 as a minimal
\* varint; iff has_generation, generation-1 in 1 .. 2^31-2 as a minimal varint.
RefParse(b, pos) ==
    LET L1 == CanonLens(b, pos, 5) IN
    IF L1 = {} THEN Free ELSE
    LET n1 == CHOOSE n \in L1 : TRUE
        f  == CanonValue(b, pos, n1, 5)                  \* 35 bits
    IN
    IF f[34] = 1 \/ f[35] = 1 THEN Free ELSE
    LET idx == [i \in 1..32 |-> f[i + 1]] IN
    IF f[1] = 0 THEN [st |-> "exact", idx |-> idx, gen |-> FromInt(1, 32), n |-> n1] ELSE
    LET L2 == CanonLens(b, pos + n1, 5) IN
    IF L2 = {} THEN Free ELSE
    LET n2 == CHOOSE n \in L2 : TRUE
        g  == CanonValue(b, pos + n1, n2, 5)             \* 35 bits: generation - 1
        g32 == [i \in 1..32 |-> g[i]]
    IN
    IF g[33] = 1 \/ g[34] = 1 \/ g[35] = 1 \/ g32 = Zero(32) \/ g32[32] = 1 \/ AllOnes(g32, 31)
    THEN Free                                            \* not in 1 .. 2^31-2
    ELSE [st |-> "exact", idx |-> idx, gen |-> Inc(g32, 32), n |-> n1 + n2]

-----------------------------------------------------------------------------
(* (b) Mechanism: postcard varints *)

\* postcard::varint::varint_u64 / varint_u32
RECURSIVE EncLoop(_, _, _, _)
EncLoop(v, w, i, maxBytes) ==
    IF i = maxBytes THEN <<>>
    ELSE IF Lt128(v, w) THEN <<ByteAt(v, 1)>>
    ELSE <<Low7(v) + 128>> \o EncLoop(Shr7(v, w), w, i + 1, maxBytes)
EncVarint(v, w, maxBytes) == EncLoop(v, w, 0, maxBytes)

Res(st, why, v, n) == [st |-> st, why |-> why, v |-> v, n |-> n]
\* postcard Deserializer::try_take_varint_u64 / _u32 over BufFlavor::pop (cursor advances per byte)
RECURSIVE DecLoop(_, _, _, _, _, _, _)
DecLoop(b, pos, w, maxBytes, maxLast, i, out) ==
    IF i = maxBytes THEN Res("err", "badvarint", <<>>, i)
    ELSE IF pos + i > Len(b) THEN Res("err", "end", <<>>, i)
    ELSE
        LET val  == b[pos + i]
            out2 == [j \in 1..w |-> IF j > 7 * i /\ j <= 7 * i + 7
                                    THEN Or(out[j], BitOf(val % 128, j - 7 * i - 1)) ELSE out[j]]
        IN  IF val < 128
            THEN IF i = maxBytes - 1 /\ val > maxLast
                 THEN Res("err", "badvarint", <<>>, i + 1)
                 ELSE Res("ok", "", out2, i + 1)
            ELSE DecLoop(b, pos, w, maxBytes, maxLast, i + 1, out2)
DecVarint(b, pos, w, maxBytes, maxLast) == DecLoop(b, pos, w, maxBytes, maxLast, 0, Zero(w))

(* entity_serde::serialize_entity *)
Serialize(idx, gen) ==
    LET flag    == IF IsOne(gen, 32) THEN 0 ELSE 1             \* entity.generation() > 1
        flagged == [i \in 1..64 |-> IF i = 1 THEN flag ELSE IF i <= 33 THEN idx[i - 1] ELSE 0]
    IN  EncVarint(flagged, 64, 10)
          \o (IF flag = 1 THEN EncVarint(Dec(gen, 32), 32, 5) ELSE <<>>)

ERes(st, why, idx, gen, n) == [st |-> st, why |-> why, idx |-> idx, gen |-> gen, n |-> n]
(* entity_serde::deserialize_entity *)
Deserialize(b, pos) ==
    LET r1 == DecVarint(b, pos, 64, 10, 1) IN
    IF r1.st # "ok" THEN ERes("err", r1.why, <<>>, <<>>, r1.n) ELSE
    LET has == r1.v[1] = 1
        r2  == IF has THEN DecVarint(b, pos + r1.n, 32, 5, 15) ELSE Res("ok", "", Zero(32), 0)
        n   == r1.n + r2.n
    IN
    IF r2.st # "ok" THEN ERes("err", r2.why, <<>>, <<>>, n) ELSE
    IF has /\ AllOnes(r2.v, 32)                                  \* `+ 1` on u32::MAX
    THEN (IF ImplBug_F16 THEN ERes("panic", "add-overflow", <<>>, <<>>, n)
                         ELSE ERes("err", "generation", <<>>, <<>>, n))
    ELSE
    LET generation == IF has THEN Inc(r2.v, 32) ELSE FromInt(1, 32)
        \* bits = (generation << 32) | (flagged_index >> 1): index bits above 2^32 spill into
        \* the generation word
        lo == [j \in 1..32 |-> r1.v[j + 1]]
        hi == [j \in 1..32 |-> Or(generation[j], IF j <= 31 THEN r1.v[33 + j] ELSE 0)]
    IN
    IF Valid(lo, hi) THEN ERes("ok", "", lo, hi, n)
    ELSE IF ImplBug_F16 THEN ERes("panic", "from_bits", <<>>, <<>>, n)    \* Entity::from_bits
    ELSE ERes("err", "generation", <<>>, <<>>, n)                       \* Entity::try_from_bits

-----------------------------------------------------------------------------
(* Encoding shapes for family "fields" (all stay well-defined byte strings; what they decode *)
(* to is computed by Deserialize / RefParse, not assumed)                                    *)

Rep(x, k) == [i \in 1..k |-> x]
Front(s) == SubSeq(s, 1, Len(s) - 1)
Last(s) == s[Len(s)]
\* extend a varint by k redundant groups (value unchanged)
Extend(enc, k) == IF k = 0 THEN enc ELSE Front(enc) \o <<(Last(enc) % 128) + 128>> \o Rep(128, k - 1) \o <<0>>
Shape(enc, s, maxBytes, maxLast) ==
    LET room == maxBytes - Len(enc)
        full == Extend(enc, room)
    IN CASE s = "canon" -> enc
         [] s = "over1" -> Extend(enc, IF room > 0 THEN 1 ELSE 0)        \* overlong by one group
         [] s = "pad"   -> full                                          \* overlong to the maximum
         [] s = "hi"    -> Front(full) \o <<maxLast + 1>>                \* exceeds the integer type
         [] s = "cont"  -> Front(full) \o <<(Last(full) % 128) + 128, 0>> \* too many groups
         [] s = "trunc" -> Front(enc)                                    \* last byte missing

-----------------------------------------------------------------------------
(* Case families.  A case carries its inputs and, computed once, what the reference grammar  *)
(* (ref) and the transcribed mechanism (impl) say about them.                                *)

Mk(r) == r @@ [ref |-> RefParse(r.b, r.pos), impl |-> Deserialize(r.b, r.pos)]

RtCase(ik, gk, pre, suf) ==
    LET idx == ClassBits(ik, 32)
        gen == ClassBits(gk, 32)
        enc == Serialize(idx, gen)
    IN Mk([fam |-> "rt", ik |-> ToString(ik), gk |-> ToString(gk), s1 |-> "", s2 |-> "",
           idx |-> idx, gen |-> gen, enc |-> enc,
           b |-> pre \o enc \o suf, pos |-> Len(pre) + 1, suf |-> suf])

FieldFlagged ==       \* raw 64-bit flagged-index values: every index class with both flags + extras
    {[k |-> ToString(<<ik, fl>>), v |-> [i \in 1..64 |-> IF i = 1 THEN fl ELSE IF i <= 33 THEN ClassBits(ik, 32)[i - 1] ELSE 0]]
        : ik \in FIdxClasses, fl \in {0, 1}}
    \cup {[k |-> ToString(fk), v |-> ClassBits(fk, 64)] : fk \in FlagRaw}

FieldCase(f, gk, s1, s2, suf) ==
    LET e1 == Shape(EncVarint(f.v, 64, 10), s1, 10, 1)
        e2 == Shape(EncVarint(ClassBits(gk, 32), 32, 5), s2, 5, 15)
    IN Mk([fam |-> "fields", ik |-> f.k, gk |-> ToString(gk), s1 |-> s1, s2 |-> s2,
           idx |-> <<>>, gen |-> <<>>, enc |-> <<>>,
           b |-> e1 \o e2 \o suf, pos |-> 1, suf |-> suf])

BytesCase(b) ==
    Mk([fam |-> "bytes", ik |-> "", gk |-> "", s1 |-> "", s2 |-> "",
        idx |-> <<>>, gen |-> <<>>, enc |-> <<>>, b |-> b, pos |-> 1, suf |-> <<>>])

Init ==
    \/ /\ "rt" \in Families
       /\ c \in {RtCase(ik, gk, pre, suf) : ik \in IdxClasses, gk \in GenClasses,
                                           pre \in Prefixes, suf \in Suffixes}
    \/ /\ "fields" \in Families
       /\ c \in {FieldCase(f, gk, s1, s2, suf) : f \in FieldFlagged, gk \in GenRaw,
                                                s1 \in Shapes, s2 \in Shapes, suf \in FSuffixes}
    \/ /\ "bytes" \in Families
       /\ c = BytesCase(<<>>)

\* family "bytes": the tree of all strings over Alphabet up to MaxLen
Next ==
    /\ c.fam = "bytes"
    /\ Len(c.b) < MaxLen
    /\ \E x \in Alphabet : c' = BytesCase(Append(c.b, x))

Spec == Init /\ [][Next]_c

-----------------------------------------------------------------------------
(* The property *)

Impl == c.impl
Ref  == c.ref
Remaining == Len(c.b) - c.pos + 1

\* Decoding arbitrary bytes yields a valid identifier (consuming only bytes that exist) or an
\* error - never a panic.
Total ==
    /\ Impl.st \in {"ok", "err"}
    /\ Impl.st = "ok" => Valid(Impl.idx, Impl.gen) /\ Impl.n <= Remaining

\* Whatever starts with the encoding of a valid identifier decodes to exactly that identifier,
\* consuming exactly the encoding (so the rest of the message is untouched).
Lossless ==
    Ref.st = "exact" =>
        /\ Valid(Ref.idx, Ref.gen)
        /\ Impl.st = "ok" /\ Impl.idx = Ref.idx /\ Impl.gen = Ref.gen /\ Impl.n = Ref.n

\* Every valid identifier survives Serialize;Deserialize inside any context, and the encoder's
\* output is exactly what the reference grammar calls "the encoding of e".
RoundTrip ==
    c.fam = "rt" =>
        /\ Valid(c.idx, c.gen)
        /\ Ref.st = "exact" /\ Ref.idx = c.idx /\ Ref.gen = c.gen /\ Ref.n = Len(c.enc)
        /\ Impl.st = "ok" /\ Impl.idx = c.idx /\ Impl.gen = c.gen /\ Impl.n = Len(c.enc)
        /\ SubSeq(c.b, c.pos + Impl.n, Len(c.b)) = c.suf

C15 == Total /\ Lossless /\ RoundTrip

-----------------------------------------------------------------------------
(* Case export: numbers as little-endian bytes.  must = what the property demands of the real *)
(* code; model = what the transcribed mechanism (as designed) does, exactly.                  *)

OutId(st, idx, gen, n, why) ==
    [st |-> st, why |-> why, n |-> n,
     idx |-> IF idx = <<>> THEN <<>> ELSE BytesLE(idx, 4),
     gen |-> IF gen = <<>> THEN <<>> ELSE BytesLE(gen, 4)]

CaseJson ==
    [fam |-> c.fam, bytes |-> c.b, pos |-> c.pos,
     cls |-> <<c.ik, c.gk, c.s1, c.s2>>,
     ent |-> IF c.fam = "rt" THEN [idx |-> BytesLE(c.idx, 4), gen |-> BytesLE(c.gen, 4)]
                             ELSE [idx |-> <<>>, gen |-> <<>>],
     pre |-> SubSeq(c.b, 1, c.pos - 1), enc |-> c.enc, suf |-> c.suf,
     must |-> OutId(Ref.st, Ref.idx, Ref.gen, Ref.n, ""),
     model |-> OutId(Impl.st, Impl.idx, Impl.gen, Impl.n, Impl.why)]

EmitCase == Emit => PrintT(<<"CASE", ToJson(CaseJson)>>)

-----------------------------------------------------------------------------
(* Constant sets used by the .cfg files (cfg syntax has no tuples, hence `<-` substitutions) *)

V(S) == {<<"v", n>> : n \in S}
P(p) == {<<"p", p, -1>>, <<"p", p, 0>>, <<"p", p, 1>>}          \* 2^p - 1, 2^p, 2^p + 1
Pat(S) == {<<"b", bs>> : bs \in S}

\* index: varint-length boundaries of index*2+flag are at 2^6, 2^13, 2^20, 2^27; of index at 2^7 ..
IdxTop == {<<"p", 31, -1>>, <<"p", 31, 0>>, <<"p", 31, 1>>, <<"p", 32, -2>>, <<"p", 32, -1>>}
IdxQuick == V({0, 1, 2, 63, 64, 127, 128}) \cup P(13) \cup P(14) \cup P(20) \cup P(21)
              \cup P(27) \cup P(28) \cup IdxTop
IdxThorough == IdxQuick \cup V({3, 62, 65, 126, 129, 255, 256}) \cup P(16) \cup P(24) \cup P(30)
              \cup Pat({<<239, 190, 173, 222>>, <<85, 85, 85, 85>>, <<170, 170, 170, 170>>, <<0, 0, 0, 128>>})
\* all valid generations are 1 .. 2^31-1; generation-1 changes varint length at 2^7, 2^14, 2^21, 2^28
GenTop == {<<"p", 31, -2>>, <<"p", 31, -1>>}
GenQuick == V({1, 2, 3, 127, 128, 129}) \cup P(14) \cup P(21) \cup P(28) \cup GenTop
GenThorough == GenQuick \cup V({4, 126, 130, 255, 256, 257}) \cup P(13) \cup P(20) \cup P(27) \cup P(30)
              \cup {<<"p", 14, -2>>, <<"p", 21, -2>>, <<"p", 28, -2>>}
              \cup Pat({<<239, 190, 173, 94>>, <<85, 85, 85, 85>>, <<170, 170, 170, 42>>})

PrefixesQuick == {<<>>, <<255>>, <<128, 1>>}
PrefixesThorough == PrefixesQuick \cup {<<1, 255, 255, 255, 255, 7>>, <<0>>}
SuffixesQuick == {<<>>, <<0>>, <<255>>, <<128, 127>>}
SuffixesThorough == SuffixesQuick \cup {<<1>>, <<255, 255, 255, 255, 255, 255, 255, 255, 255, 255, 255>>}

\* family "fields": raw field values, valid and invalid
FIdxQuick == V({0, 1, 64}) \cup {<<"p", 20, 0>>, <<"p", 32, -1>>}
FIdxThorough == FIdxQuick \cup V({63, 127}) \cup {<<"p", 13, -1>>, <<"p", 27, 0>>, <<"p", 31, 0>>}
FlagRawQuick == {<<"p", 33, 0>>, <<"p", 33, 1>>, <<"p", 34, -1>>, <<"p", 63, 0>>, <<"p", 63, 1>>,
                 <<"p", 64, -1>>, <<"p", 64, -2>>}
FlagRawThorough == FlagRawQuick \cup P(35) \cup P(42) \cup P(49) \cup P(56) \cup {<<"p", 63, -1>>}
                 \cup Pat({<<170, 170, 170, 170, 170, 170, 170, 170>>, <<85, 85, 85, 85, 85, 85, 85, 85>>})
GenRawQuick == V({0, 1, 127, 128}) \cup {<<"p", 14, 0>>, <<"p", 28, -1>>, <<"p", 31, -2>>, <<"p", 31, -1>>,
                 <<"p", 31, 0>>, <<"p", 31, 1>>, <<"p", 32, -2>>, <<"p", 32, -1>>}
GenRawThorough == GenRawQuick \cup P(21) \cup P(28) \cup P(30)
                 \cup Pat({<<239, 190, 173, 222>>, <<255, 255, 255, 127>>, <<0, 0, 0, 192>>})
ShapesAll == {"canon", "over1", "pad", "hi", "cont", "trunc"}
FSuffixesQuick == {<<>>, <<255>>}
FSuffixesThorough == {<<>>, <<255>>, <<0>>}

\* family "bytes": boundary bytes of the varint grammar (0x80 continuation bit, last-byte limits
\* 0x01 / 0x0f, flag bit)
AlphabetQuick == {0, 1, 2, 3, 15, 16, 126, 127, 128, 129, 254, 255}
AlphabetThorough == AlphabetQuick \cup {4, 7, 8, 63, 64, 85, 143, 144, 170, 191, 192, 240}
AlphabetDeep == {1, 7, 255}       \* long enough (6 bytes) to reach a 5-byte generation field

=============================================================================
