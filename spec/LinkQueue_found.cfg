\* C17 on the code as found (heap keyed by timestamp only, F7): TLC must find PerChannelFifo violated.
CONSTANTS
    NumChannels = 2
    MaxMsgs = 6
    Delays = {0}
    MaxClock = 2
    ImplBug_F7 = TRUE
    PartialReads = TRUE
    Gen = FALSE
    PermSizes = {}
SPECIFICATION Spec
CHECK_DEADLOCK FALSE
INVARIANTS TypeOK PerChannelFifo ExactlyOnce NothingHeld HeapShape NothingOverdue
