\* C12 ConfirmHistory with contains_any as found ((1 << len) - 1), debug build: TLC must find a violation (panic)
SPECIFICATION Spec
CONSTANTS
  ImplBug_F6_Shl = FALSE
  ImplBug_F6_Range = TRUE
  OverflowChecks = TRUE
  LimbBits = 16
  N = 2
  Deltas <- DeltasFull
  QAgo <- QAgoFull
  Emit = FALSE
INVARIANTS C12_CH NoPanic EmitInit
ACTION_CONSTRAINT EmitEdge
CHECK_DEADLOCK FALSE
