\* C14 quick tier, second instance: sequences of length <= 3 with one priority and no handshake, so that edits that
\* need two registered events (e.g. moving an independence mark from one event to another) are covered.
SPECIFICATION Spec
CONSTANTS
    NTypes = 2
    Prios = {1}
    MaxLen = 3
    HsLen = 0
    HsFullLen = 0
    MaxCF = 3
    MaxSF = 2
    Mutation = "none"
    Emit = TRUE
INVARIANTS
    TypeOK
    HashProperty
    AuthOnlyOnMatch
    MismatchOnlyOnMismatch
    NotBoth
    NotifiedImpliesRequested
    DecidedOutcome
    InformedOutcome
    OutcomeMatches
    EmitPairs
    EmitHs
CHECK_DEADLOCK FALSE
