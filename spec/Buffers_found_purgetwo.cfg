SPECIFICATION SpecC
CONSTANTS
    Chan = {0, 2}
    Peer = {1}
    MaxOps = 5
    Impl = "PurgeTwo"
INVARIANT Inv
VIEW View
CHECK_DEADLOCK FALSE
