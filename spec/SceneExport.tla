---------------------------- MODULE SceneExport ----------------------------
(***************************************************************************)
(* C18 - "Scene export contains exactly the replicated state".             *)
(*                                                                         *)
(* Worlds, replication rule sets and pre-filled scenes as data; next to    *)
(* each other                                                              *)
(*   (a) Expected: the scene the property statement demands, and           *)
(*   (b) Export:   `scene::replicate_into` (src/scene.rs) transcribed loop *)
(*                 by loop, together with `ReplicationRules::insert` and   *)
(*                 `ReplicationRule::matches`                              *)
(*                 (src/shared/replication/replication_rules.rs).          *)
(*                                                                         *)
(* ImplBug_F12 = TRUE  : the export as found on the pinned tree: every     *)
(*                       matching rule pushes its components, whatever the *)
(*                       scene entity already holds (finding F12).         *)
(* ImplBug_F12 = FALSE : the intended design: a component the scene entity *)
(*                       already holds is replaced by the current value.   *)
(*                                                                         *)
(* One TLC state of phase "case" = one case (rule set, world, pre-filled   *)
(* scene); the initial states are the rule sets and one step completes the *)
(* case, so the bounded space is enumerated completely at depth 2.         *)
(***************************************************************************)
EXTENDS Naturals, Sequences, FiniteSets, TLC, Json, SequencesExt, FiniteSetsExt, Functions

CONSTANTS
    ImplBug_F12,   \* BOOLEAN, see above
    MaxEnt,        \* 1 or 2 world entities (0 entities is always included)
    RuleOpts,      \* per rule of the pool: subset of {0 absent, 1 default priority, 2 custom priority}
    SecondComps,   \* components the second entity may carry
    SecondPre,     \* pre-filled contents the second entity may have (sets of components)
    TwoEntRuleOpts \* two-entity worlds are explored for the rule sets whose options all lie in this set

ASSUME ImplBug_F12 \in BOOLEAN /\ MaxEnt \in 1..2

(***************************************************************************)
(* Component pool and the facts `replicate_into` asks the type registry.   *)
(***************************************************************************)
Comp      == {"A", "B", "C", "D"}
CompOrder == <<"A", "B", "C", "D">>
Idx(c)    == CHOOSE i \in 1..4 : CompOrder[i] = c
InTypeRegistry   == {"A", "B", "C"}   \* `App::register_type` was called (D: never registered)
HasReflectComp   == {"A", "B", "D"}   \* `#[reflect(Component)]`     (C: plain `Reflect` only)
PreComp   == {"A", "B"}               \* what a pre-filled scene entity may hold (serialisable types)

Val(e, c)   == 10 * e + Idx(c)        \* current value of c on world entity e
Stale(e, c) == 100 + Val(e, c)        \* value a pre-filled scene holds for it (differs from the current one)

SetSeq(S) == SelectSeq(CompOrder, LAMBDA c : c \in S)   \* a set of components in pool order

(***************************************************************************)
(* Rule pool: singles, bundles, overlapping ones, rules over components    *)
(* the scene cannot hold.  Default priority = number of components;        *)
(* `replicate_with_priority` gives the custom one (singles above bundles). *)
(***************************************************************************)
Pool == << <<"A">>, <<"B">>, <<"A", "B">>, <<"C">>, <<"A", "D">> >>
RuleId == DOMAIN Pool
DefaultPrio(r) == Len(Pool[r])
CustomPrio(r)  == IF Len(Pool[r]) = 1 THEN 3 ELSE 1
Prio(r, opt)   == IF opt = 1 THEN DefaultPrio(r) ELSE CustomPrio(r)

VARIABLES
    phase,    \* "rules": only the rule set is chosen yet; "case": a complete case
    ruleOpt,  \* [RuleId -> 0..2]
    ents,     \* sequence (length 0..MaxEnt) of [comps : SUBSET Comp, marked : BOOLEAN]
    pre       \* same length: [in : BOOLEAN, comps : SUBSET PreComp]  (the scene before the call)
vars == <<phase, ruleOpt, ents, pre>>

EntRec == [comps : SUBSET Comp, marked : BOOLEAN]
PreRec == {[in |-> FALSE, comps |-> {}]} \cup [in : {TRUE}, comps : SUBSET PreComp]

\* Initial states: the rule sets.  One step: choose the world and the scene before the call.  (Two levels
\* only so that TLC's workers share the enumeration; every case is reached, at depth 2.)
Init ==
    /\ phase = "rules"
    /\ ruleOpt \in [RuleId -> RuleOpts]
    /\ ents = <<>> /\ pre = <<>>

OneEntityOrNone ==
    \/ ents' = <<>> /\ pre' = <<>>
    \/ \E e \in EntRec, p \in PreRec : ents' = <<e>> /\ pre' = <<p>>

TwoEntities ==
    /\ MaxEnt = 2
    /\ \A r \in RuleId : ruleOpt[r] \in TwoEntRuleOpts
    /\ \E e1 \in EntRec, p1 \in PreRec,
          e2 \in [comps : SUBSET SecondComps, marked : BOOLEAN],
          p2 \in {p \in PreRec : p.in => p.comps \in SecondPre} :
          ents' = <<e1, e2>> /\ pre' = <<p1, p2>>

Next ==
    /\ phase = "rules"
    /\ phase' = "case"
    /\ UNCHANGED ruleOpt
    /\ (OneEntityOrNone \/ TwoEntities)

Spec == Init /\ [][Next]_vars

Ent == DOMAIN ents

(***************************************************************************)
(* ReplicationRules::insert - keeps the list sorted by priority,           *)
(* descending; a rule goes behind the rules of the same priority.          *)
(* (The binary search of the real `insert` may place it elsewhere among    *)
(* rules of equal priority; that order is not observable in a scene read   *)
(* as a multiset.)  Rules are registered in pool order.                    *)
(***************************************************************************)
InsertRule(list, r) ==
    LET p == Prio(r, ruleOpt[r])
        k == Cardinality({i \in DOMAIN list : Prio(list[i], ruleOpt[list[i]]) >= p})
    IN  SubSeq(list, 1, k) \o <<r>> \o SubSeq(list, k + 1, Len(list))

Registered == SelectSeq(<<1, 2, 3, 4, 5>>, LAMBDA r : ruleOpt[r] # 0)
Rules == FoldLeft(InsertRule, <<>>, Registered)

(* ReplicationRule::matches: the archetype contains every component of the rule. *)
Matches(r, arch) == ToSet(Pool[r]) \subseteq arch

(***************************************************************************)
(* (a) The reference: what the statement says the scene must be.           *)
(* A scene is a function  entity -> bag of <<component, value>>.           *)
(***************************************************************************)
Marked == {e \in Ent : ents[e].marked}
PreEnt == {e \in Ent : pre[e].in}

\* components the replication rules select for e
Selected(e) == {c \in ents[e].comps :
                   \E r \in ToSet(Rules) : c \in ToSet(Pool[r]) /\ Matches(r, ents[e].comps)}
\* ... of which a scene can hold the reflected ones
Reflected(c) == c \in InTypeRegistry /\ c \in HasReflectComp
Exported(e)  == {c \in Selected(e) : Reflected(c)}

BagOfSet(S) == [x \in S |-> 1]

ExpectedEntity(e) ==
    IF e \in Marked
    THEN BagOfSet({<<c, Val(e, c)>> : c \in Exported(e)}
                  \cup {<<c, Stale(e, c)>> : c \in pre[e].comps \ Exported(e)})
    ELSE BagOfSet({<<c, Stale(e, c)>> : c \in pre[e].comps})   \* not touched

Expected == [e \in Marked \cup PreEnt |-> ExpectedEntity(e)]

(***************************************************************************)
(* (b) scene::replicate_into as implemented.                               *)
(* `entities`: entity -> sequence of components (an EntityHashMap drained  *)
(* from the scene, so one entry per entity).                               *)
(***************************************************************************)
Archetypes == {ents[e].comps : e \in Marked}          \* archetypes containing the marker, non-empty ones
ArchEnts(arch) == {e \in Marked : ents[e].comps = arch}

\* `components.push(component)` - as found (bug); as designed an entry of the same type is replaced.
PushComp(bug, seq, inst) ==
    IF bug \/ ~\E i \in DOMAIN seq : seq[i][1] = inst[1]
    THEN Append(seq, inst)
    ELSE LET i == CHOOSE j \in DOMAIN seq : seq[j][1] = inst[1] /\ \A k \in 1..(j - 1) : seq[k][1] # inst[1]
         IN  [seq EXCEPT ![i] = inst]

\* for entity in archetype.entities() { ... components.push(component) }
PushToAll(bug, entities, arch, c) ==
    [e \in DOMAIN entities |->
        IF e \in ArchEnts(arch) THEN PushComp(bug, entities[e], <<c, Val(e, c)>>) ELSE entities[e]]

\* for component in &rule.components { registry lookups; continue / push }
ExportComponent(bug, entities, arch, c) ==
    IF c \notin InTypeRegistry THEN entities            \* "ignoring ... because it's not registered"
    ELSE IF c \notin HasReflectComp THEN entities       \* "ignoring ... missing #[reflect(Component)]"
    ELSE PushToAll(bug, entities, arch, c)

ExportRule(bug, entities, arch, r) ==
    FoldLeft(LAMBDA acc, c : ExportComponent(bug, acc, arch, c), entities, Pool[r])

\* one iteration of `for archetype in world.archetypes().iter().filter(contains(marker))`
ExportArchetype(bug, arch, entities) ==
    LET populated == [e \in DOMAIN entities \cup ArchEnts(arch) |->
                         IF e \in DOMAIN entities THEN entities[e] ELSE <<>>]   \* entry(..).or_default()
        matching  == SelectSeq(Rules, LAMBDA r : Matches(r, arch))
    IN  FoldLeft(LAMBDA acc, r : ExportRule(bug, acc, arch, r), populated, matching)

PreSeq(e) == [i \in 1..Len(SetSeq(pre[e].comps)) |->
                 <<SetSeq(pre[e].comps)[i], Stale(e, SetSeq(pre[e].comps)[i])>>]

\* The archetypes are disjoint sets of entities, so the order of the outer loop does not matter.
ExportSeqsOf(bug) ==
    FoldSet(LAMBDA arch, acc : ExportArchetype(bug, arch, acc), [e \in PreEnt |-> PreSeq(e)], Archetypes)

SeqToBag(s) == [x \in ToSet(s) |-> Cardinality({i \in DOMAIN s : s[i] = x})]
BagsOf(seqs) == [e \in DOMAIN seqs |-> SeqToBag(seqs[e])]

ExportSeqs == ExportSeqsOf(ImplBug_F12)     \* the export under check
Export     == BagsOf(ExportSeqs)

(***************************************************************************)
(* Serialising and reading back (bevy_scene): the components of an entity  *)
(* are written as a map keyed by type path, entry by entry; the reader     *)
(* rejects a repeated key ("duplicate reflect type").                      *)
(***************************************************************************)
HasRepeatedKey(seqs) == \E e \in DOMAIN seqs : \E i, j \in DOMAIN seqs[e] :
                            i # j /\ seqs[e][i][1] = seqs[e][j][1]
Written   == ExportSeqs
ReadFails == HasRepeatedKey(Written)
ReadBack  == BagsOf(Written)

(***************************************************************************)
(* The property.                                                           *)
(***************************************************************************)
Conforms == Export = Expected
NoDuplicateComponent ==
    \A e \in DOMAIN ExportSeqs : \A c \in Comp :
        Cardinality({i \in DOMAIN ExportSeqs[e] : ExportSeqs[e][i][1] = c}) <= 1
RoundTrips == ~ReadFails /\ ReadBack = Expected
NoMarkerNoUnreplicated ==   \* implied by Conforms; spelled out for the reader
    \A e \in DOMAIN ExportSeqs : \A i \in DOMAIN ExportSeqs[e] :
        LET c == ExportSeqs[e][i][1] IN c \in Comp /\ (e \in Marked => c \in Exported(e) \cup pre[e].comps)

C18 == Conforms /\ NoDuplicateComponent /\ RoundTrips /\ NoMarkerNoUnreplicated
C18_Conforms == Conforms
C18_NoDuplicate == NoDuplicateComponent
C18_RoundTrips == RoundTrips

(***************************************************************************)
(* Case export for the replayer (harness/src/bin/c18_replay.rs).           *)
(***************************************************************************)
Pairs(S, f(_)) == [i \in 1..Len(SetSeq(S)) |-> <<SetSeq(S)[i], f(SetSeq(S)[i])>>]

CaseRules == [i \in 1..Len(Registered) |->
                 [c |-> Pool[Registered[i]],
                  p |-> Prio(Registered[i], ruleOpt[Registered[i]]),
                  d |-> ruleOpt[Registered[i]] = 1]]

CaseEnts == [e \in Ent |->
                [m   |-> ents[e].marked,
                 c   |-> Pairs(ents[e].comps, LAMBDA c : Val(e, c)),
                 pin |-> pre[e].in,
                 pc  |-> Pairs(pre[e].comps, LAMBDA c : Stale(e, c))]]

\* Expected holds at most one copy per component; list it in pool order.
ExpPairs(e) ==
    LET cs == {c \in Comp : \E x \in DOMAIN Expected[e] : x[1] = c}
    IN  Pairs(cs, LAMBDA c : (CHOOSE x \in DOMAIN Expected[e] : x[1] = c)[2])

\* "one": exactly one scene entity; "none": no scene entity; "opt": an entity that is not marked but
\* was in the scene before - the statement does not say whether it stays; if it does, unchanged.
CaseExp == [e \in Ent |->
               IF e \in Marked THEN [s |-> "one", c |-> ExpPairs(e)]
               ELSE IF e \in PreEnt THEN [s |-> "opt", c |-> ExpPairs(e)]
               ELSE [s |-> "none", c |-> <<>>]]

\* f12: the export as found (plain push) puts some component twice in this case - what finding F12
\* predicts for the pinned tree.  Not used by the verdict on a repaired tree.
CaseF12 == HasRepeatedKey(ExportSeqsOf(TRUE))

CaseJson == ToJson([rules |-> CaseRules, ents |-> CaseEnts, exp |-> CaseExp, f12 |-> CaseF12])

\* The properties are stated on complete cases.
IsCase == phase = "case"
Inv_C18          == IsCase => C18
Inv_Conforms     == IsCase => C18_Conforms
Inv_NoDuplicate  == IsCase => C18_NoDuplicate
Inv_RoundTrips   == IsCase => C18_RoundTrips
Emit             == IsCase => PrintT(<<"CASE", CaseJson>>)
=============================================================================
