\* C14 thorough tier: every valid registration sequence of length <= 3 over 9 kinds x 2 types x 2 priorities,
\* every single-step edit; handshake interleavings for all pairs with Len(s1) <= 2.
SPECIFICATION Spec
CONSTANTS
    NTypes = 2
    Prios = {1, 2}
    MaxLen = 3
    HsLen = 2
    HsFullLen = 1
    MaxCF = 3
    MaxSF = 2
    Mutation = "none"
    Emit = TRUE
INVARIANTS
    TypeOK
    HashProperty
    AuthOnlyOnMatch
    MismatchOnlyOnMismatch
    NotBoth
    NotifiedImpliesRequested
    DecidedOutcome
    InformedOutcome
    OutcomeMatches
    EmitPairs
    EmitHs
CHECK_DEADLOCK FALSE
