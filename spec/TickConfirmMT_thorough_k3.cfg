\* C12 ServerMutateTicks: every legal confirm sequence of length <= 3, reduced alphabet (9 deltas), 1..3 messages per tick
SPECIFICATION Spec
CONSTANTS
  ImplBug_F6_Shl = FALSE
  ImplBug_F6_Range = FALSE
  OverflowChecks = TRUE
  LimbBits = 16
  N = 3
  KMax = 3
  Deltas <- DeltasReduced
  QAgo <- QAgoFull
  Emit = TRUE
INVARIANTS C12_MT EmitInit
ACTION_CONSTRAINT EmitEdge
CHECK_DEADLOCK FALSE
