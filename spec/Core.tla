-------------------------------- MODULE Core --------------------------------
(***************************************************************************)
(* Replication core of bevy_replicon: server world and change clock,       *)
(* despawn / removal buffers, per-client ticks, visibility, update and     *)
(* mutate messages, acknowledgements, the network between the apps, and    *)
(* the client (entity map, confirm history, buffered mutate messages).     *)
(*                                                                         *)
(* Written to be bound to the code: every action is a *function on the     *)
(* state record* (XF(st, args)), so that the same definitions are used by  *)
(*   - the model-checking specs (MC_*.tla):  st' = XF(st, args)            *)
(*   - the trace validator (CoreTrace.tla):  pred = XF(observed, args)     *)
(*   - behaviour generation for replay into the real apps.                 *)
(* One action = one harness step = one critical section of the code        *)
(* (nothing interleaves inside App::update()).                             *)
(*                                                                         *)
(* Time is measured in server frames: an operation performed between       *)
(* frame f-1 and f stamps change tick f ("window f"); send_replication of  *)
(* frame f runs with this_run = f.                                         *)
(***************************************************************************)
EXTENDS Integers, Sequences, FiniteSets, TLC

CONSTANTS
    Ent,        \* entity slots (strings); each is spawned at most once
    Client,     \* clients (strings)
    Policy,     \* "all" | "black" | "white"
    Track,      \* TrackMutateMessages
    Timeout,    \* mutations_timeout in ms
    Impl        \* record of deviation switches, see below

(***************************************************************************)
(* Deviation switches.  FALSE everywhere = the intended design, under      *)
(* which the listed properties hold.  A switch is TRUE where the code (as  *)
(* found) does something else; CurrentTree = what the tree does today.     *)
(***************************************************************************)
ImplDesigned ==
    [ removalOverwrite      |-> FALSE,  \* F9: second removal in a window overwrites the first
      staleRemovalOnDespawn |-> FALSE,  \* F3: removal record survives despawn/unmark of the entity
      noLostDespawnHidden   |-> FALSE,  \* F2: hide + despawn in one window: no despawn sent
      whiteReAddForgetsLost |-> FALSE,  \* F14: whitelist hide, show, hide in one window
      ackOnReceipt          |-> FALSE,  \* F1: client acknowledges mutate messages it only buffered
      periodicAckSwallow    |-> FALSE,  \* F4: ack of a message advances the tick past an unsent periodic change
      periodicBumpSwallow   |-> FALSE,
      staleBuffersOnRestart |-> FALSE,  \* F15: despawn / removal buffers survive a server stop
      lateJoinerMissesEmpty |-> FALSE,  \* F21: an entity without replicated components is not sent to a client that connects later
      ackDiscarded          |-> FALSE,  \* F19: a message whose data was discarded as outdated is still acknowledged  \* F18: a structural change advances the tick past an unsent periodic change
      emptyMutateWithGraphs |-> FALSE,  \* F11: empty mutate message per tick once relation graphs exist
      refBeforeSpawnUnmarked|-> FALSE,  \* F8: entity first seen as a reference never gets the marker
      clientLinkedDespawn   |-> FALSE,  \* F17: a despawn on the client takes the client-side children along, replicated or not
      mapOrphansPlaceholder |-> FALSE,  \* F24: a mapping for a server entity the client knows as a placeholder leaves the placeholder behind; references keep pointing to it
      seedLeakHidden        |-> FALSE,  \* seeded defect (no finding): hidden entities are not filtered from changes
      seedIgnoreMapping     |-> FALSE,  \* seeded: the client ignores entity mappings (a second entity is spawned)
      seedEvNoQueue         |-> FALSE,  \* seeded: the client hands dependent events to game logic without waiting for their tick
      seedEvNoExclude       |-> FALSE,  \* seeded: a late joiner is not excluded from already buffered events
      seedEvUnauth          |-> FALSE ] \* seeded: dependent events are flushed to unauthorized clients

Comp == {"A", "B", "P", "O"}
Rate(k) == CASE k = "P" -> "periodic" [] k = "O" -> "once" [] OTHER -> "every"
SendMut(k, tick) == CASE Rate(k) = "every" -> TRUE
                      [] Rate(k) = "once"  -> FALSE
                      [] OTHER             -> tick % 2 = 0

None == "none"

----------------------------------------------------------------------------
(* helpers on partial functions and bags *)
Restrict(f, S) == [x \in S |-> f[x]]
Without(f, x)  == [y \in (DOMAIN f) \ {x} |-> f[y]]
WithoutAll(f, S) == [y \in (DOMAIN f) \ S |-> f[y]]
With(f, x, v)  == [y \in (DOMAIN f) \cup {x} |-> IF y = x THEN v ELSE f[y]]
Get(f, x, d)   == IF x \in DOMAIN f THEN f[x] ELSE d
BagAdd(b, x, n) == IF n = 0 THEN b ELSE With(b, x, Get(b, x, 0) + n)
Max(a, b) == IF a >= b THEN a ELSE b
EmptyFn == <<>>
SeqToSet(s) == {s[i] : i \in 1..Len(s)}

\* TLC passes operator arguments lazily and re-evaluates them at every use; binding through a
\* quantified variable forces one evaluation.  Then(x, F) = F(x), strictly.
Then(x, F(_)) == CHOOSE r \in {F(y) : y \in {x}} : TRUE

RECURSIVE FoldSeq(_, _, _)
FoldSeq(Op(_, _), acc, s) ==
    IF s = <<>> THEN acc ELSE Then(Op(acc, Head(s)), LAMBDA a : FoldSeq(Op, a, Tail(s)))

\* some fixed enumeration of a set (the order of records inside a message when it is not observed)
RECURSIVE SeqOf(_)
SeqOf(S) == IF S = {} THEN <<>> ELSE LET x == CHOOSE y \in S : TRUE IN <<x>> \o SeqOf(S \ {x})

RECURSIVE FoldSet(_, _, _)
FoldSet(Op(_, _), acc, S) ==
    IF S = {} THEN acc
    ELSE LET x == CHOOSE y \in S : TRUE
         IN Then(Op(acc, x), LAMBDA a : FoldSet(Op, a, S \ {x}))

----------------------------------------------------------------------------
(* initial state *)

VisInit == [kind |-> Policy, list |-> EmptyFn, added |-> {}, removed |-> {}]

SrvClientInit ==
    [conn |-> FALSE, auth |-> FALSE, updTick |-> 0, mutTick |-> EmptyFn, inflight |-> {},
     nextIdx |-> 0, vis |-> [VisInit EXCEPT !.kind = "all"], pendingMap |-> <<>>]

EntInit == [used |-> FALSE, alive |-> FALSE, repl |-> FALSE, markerAdd |-> 0, comps |-> EmptyFn,
            ver |-> [k \in Comp |-> 0]]

NetInit == [upd |-> <<>>, mut |-> <<>>, ack |-> <<>>, rxUpd |-> <<>>, rxMut |-> <<>>, srxAck |-> <<>>]

CliInit == [status |-> "Disconnected", updTick |-> 0, ents |-> EmptyFn, buf |-> <<>>,
            pre |-> EmptyFn,        \* entities the client spawned in advance: name |-> alive
            preUsed |-> {},         \* pre-spawned entities the server has already mapped (one mapping each)
            extra |-> 0,            \* replicated client entities that are not in the entity map
            mt |-> EmptyFn,         \* ServerMutateTicks: tick |-> number of mutate messages of that tick processed
            notif |-> <<>>,         \* MutateTickReceived notifications fired by the last client frame
            lastNotDisc |-> FALSE, panicked |-> FALSE]

InitState ==
    [srv |-> [tick |-> 0, frame |-> 0, lastRun |-> 0, running |-> TRUE, wasRunning |-> FALSE, tickChanged |-> TRUE, tickMaybe |-> FALSE,
              timerAcc |-> 0, now |-> 0,
              world |-> [e \in Ent |-> EntInit],
              remEv |-> [e \in Ent |-> {}],
              remEvOld |-> [e \in Ent |-> {}],   \* Bevy keeps removal events for two frames
              despawnBuf |-> EmptyFn, removalBuf |-> EmptyFn,
              cl |-> [c \in Client |-> SrvClientInit]],
     net |-> [c \in Client |-> NetInit],
     cli |-> [c \in Client |-> CliInit]]

----------------------------------------------------------------------------
(* server world operations (performed by game logic between frames) *)

Win(st) == st.srv.frame + 1          \* the change-tick window of an operation performed now

Alive(st, e) == st.srv.world[e].alive
Has(st, e, k) == Alive(st, e) /\ k \in DOMAIN st.srv.world[e].comps

SpawnF(st, e, ks, repl) ==
    LET w == Win(st)
        ent == [used |-> TRUE, alive |-> TRUE, repl |-> repl, markerAdd |-> IF repl THEN w ELSE 0,
                comps |-> [k \in ks |-> [val |-> 1, chg |-> w, add |-> w]],
                ver |-> [k \in Comp |-> IF k \in ks THEN 1 ELSE 0]]
    IN [st EXCEPT !.srv.world[e] = ent]
SpawnEnabled(st, e) == ~st.srv.world[e].used

(* relations: `ChildOf` (Bevy's hierarchy relation, replicated as a mapped component and registered with
   sync_related_entities).  The relation is the component "ChildOf" whose value is the name of the parent. *)

REL == "ChildOf"
ParentOf(world, e) == IF world[e].alive /\ REL \in DOMAIN world[e].comps THEN world[e].comps[REL].val ELSE None

RECURSIVE AncestorsOf(_, _, _)
AncestorsOf(world, e, seen) ==
    LET p == ParentOf(world, e)
    IN IF p = None \/ p \in seen THEN seen ELSE AncestorsOf(world, p, seen \cup {p})

\* e and everything below it (Bevy's linked despawn)
Subtree(world, e) == {d \in DOMAIN world : d = e \/ e \in AncestorsOf(world, d, {})}

\* inserting the relation on an entity that has one replaces it in place (no removal event)
RelateF(st, e, p) ==
    LET w == Win(st)
        old == st.srv.world[e].comps
    IN [st EXCEPT !.srv.world[e].comps =
            With(old, REL, IF REL \in DOMAIN old THEN [old[REL] EXCEPT !.val = p, !.chg = w]
                           ELSE [val |-> p, chg |-> w, add |-> w])]
RelateEnabled(st, e, p) ==
    Alive(st, e) /\ Alive(st, p) /\ e # p /\ e \notin AncestorsOf(st.srv.world, p, {})

UnrelateF(st, e) ==
    [st EXCEPT !.srv.world[e].comps = Without(@, REL), !.srv.remEv[e] = @ \cup {REL}]
UnrelateEnabled(st, e) == Alive(st, e) /\ REL \in DOMAIN st.srv.world[e].comps

\* relation graphs as `RelatedEntities` maintains them: connected components of the relations whose source
\* is replicated (the target need not be)
RelEdges(srv) == {<<c, srv.world[c].comps[REL].val>> :
                    c \in {x \in DOMAIN srv.world : srv.world[x].alive /\ srv.world[x].repl /\ REL \in DOMAIN srv.world[x].comps}}
RECURSIVE Reach(_, _)
Reach(edges, S) ==
    LET nxt == S \cup {ed[2] : ed \in {x \in edges : x[1] \in S}} \cup {ed[1] : ed \in {x \in edges : x[2] \in S}}
    IN IF nxt = S THEN S ELSE Reach(edges, nxt)
GroupOf(srv, e) == Reach(RelEdges(srv), {e})
NumGraphs(srv) == LET ed == RelEdges(srv)
                      nodes == {x[1] : x \in ed} \cup {x[2] : x \in ed}
                  IN Cardinality({Reach(ed, {n}) : n \in nodes})

\* OnRemove<Replicated> observer: buffers the despawn while the server is running
\* (and drops removal records buffered for the entity in earlier frames of the window, unless F3)
BufferDespawn(srv, e) ==
    IF srv.running
    THEN [srv EXCEPT !.despawnBuf = BagAdd(@, e, 1),
                     !.removalBuf = IF Impl.staleRemovalOnDespawn THEN @ ELSE Without(@, e)]
    ELSE srv

DespawnOne(srv, e) ==
    LET ent == srv.world[e]
        s1 == [srv EXCEPT !.world[e] = [ent EXCEPT !.alive = FALSE, !.repl = FALSE, !.markerAdd = 0, !.comps = EmptyFn]]
    IN IF ent.repl THEN BufferDespawn(s1, e) ELSE s1

\* despawning an entity despawns everything below it in the hierarchy
DespawnF(st, e) == [st EXCEPT !.srv = FoldSet(DespawnOne, st.srv, Subtree(st.srv.world, e))]
DespawnEnabled(st, e) == Alive(st, e)

MarkF(st, e) == [st EXCEPT !.srv.world[e].repl = TRUE, !.srv.world[e].markerAdd = Win(st)]
MarkEnabled(st, e) == Alive(st, e) /\ ~st.srv.world[e].repl

UnmarkF(st, e) ==
    [st EXCEPT !.srv = BufferDespawn([st.srv EXCEPT !.world[e].repl = FALSE, !.world[e].markerAdd = 0], e)]
UnmarkEnabled(st, e) == Alive(st, e) /\ st.srv.world[e].repl

InsertF(st, e, k) ==
    LET w == Win(st)
        v == st.srv.world[e].ver[k] + 1
    IN [st EXCEPT !.srv.world[e].ver[k] = v,
                  !.srv.world[e].comps = With(@, k, [val |-> v, chg |-> w, add |-> w])]
InsertEnabled(st, e, k) == Alive(st, e) /\ ~Has(st, e, k)

MutateF(st, e, k) ==
    LET v == st.srv.world[e].ver[k] + 1
    IN [st EXCEPT !.srv.world[e].ver[k] = v,
                  !.srv.world[e].comps[k].val = v,
                  !.srv.world[e].comps[k].chg = Win(st)]
MutateEnabled(st, e, k) == Has(st, e, k)

\* Bevy records a removal event; buffer_removals reads it in the next server frame
RemoveF(st, e, k) ==
    [st EXCEPT !.srv.world[e].comps = Without(@, k),
               !.srv.remEv[e] = @ \cup {k}]
RemoveEnabled(st, e, k) == Has(st, e, k)

----------------------------------------------------------------------------
(* ClientVisibility, transcribed from src/server/client_visibility.rs.
   list codes: blacklist 0 = Hidden, 1 = QueuedForRemoval; whitelist 0 = Visible, 1 = JustAdded *)

VisState(vis, e) ==
    CASE vis.kind = "all"   -> "Visible"
      [] vis.kind = "black" -> IF e \in DOMAIN vis.list
                               THEN (IF vis.list[e] = 1 THEN "Gained" ELSE "Hidden") ELSE "Visible"
      [] OTHER              -> IF e \in DOMAIN vis.list
                               THEN (IF vis.list[e] = 1 THEN "Gained" ELSE "Visible") ELSE "Hidden"
IsVisible(vis, e) == VisState(vis, e) # "Hidden"

SetVisibility(vis, e, visible) ==
    IF vis.kind = "black" THEN
        IF visible THEN
            IF e \notin DOMAIN vis.list THEN vis
            ELSE IF e \in vis.added
                 THEN [vis EXCEPT !.added = @ \ {e}, !.list = Without(@, e)]
                 ELSE [vis EXCEPT !.list = With(@, e, 1), !.removed = @ \cup {e}]
        ELSE
            IF e \in DOMAIN vis.list
            THEN [vis EXCEPT !.list = With(@, e, 0), !.removed = @ \ {e}]
            ELSE [vis EXCEPT !.list = With(@, e, 0), !.added = @ \cup {e}]
    ELSE IF vis.kind = "white" THEN
        IF visible THEN
            IF ~Impl.whiteReAddForgetsLost /\ e \in vis.removed
            THEN \* removed in this window: undo it, the client still holds the entity
                 [vis EXCEPT !.list = With(@, e, 0), !.removed = @ \ {e}]
            ELSE
            LET isNewOrJust == e \notin DOMAIN vis.list \/ vis.list[e] = 1
                list1 == IF e \in DOMAIN vis.list THEN vis.list ELSE With(vis.list, e, 1)
            IN [vis EXCEPT !.list = list1,
                           !.added = IF isNewOrJust THEN @ \cup {e} ELSE @,
                           !.removed = @ \ {e}]
        ELSE
            IF e \notin DOMAIN vis.list THEN vis
            ELSE IF e \in vis.added
                 THEN [vis EXCEPT !.list = Without(@, e), !.added = @ \ {e}]
                 ELSE [vis EXCEPT !.list = Without(@, e), !.removed = @ \cup {e}]
    ELSE vis

RemoveDespawned(vis, e) ==
    IF e \in DOMAIN vis.list
    THEN [vis EXCEPT !.list = Without(@, e), !.added = @ \ {e}, !.removed = @ \ {e}]
    ELSE vis

Lost(vis) == IF vis.kind = "black" THEN vis.added ELSE IF vis.kind = "white" THEN vis.removed ELSE {}
DrainLost(vis) == IF vis.kind = "black" THEN [vis EXCEPT !.added = {}]
                  ELSE IF vis.kind = "white" THEN [vis EXCEPT !.removed = {}] ELSE vis

VisCommit(vis) ==
    IF vis.kind = "black"
    THEN [vis EXCEPT !.list = WithoutAll(@, vis.removed), !.removed = {}, !.added = {}]
    ELSE IF vis.kind = "white"
    THEN [vis EXCEPT !.list = [e \in DOMAIN @ |-> IF e \in vis.added THEN 0 ELSE @[e]],
                     !.added = {}, !.removed = {}]
    ELSE vis

SetVisF(st, c, e, v) == [st EXCEPT !.srv.cl[c].vis = SetVisibility(@, e, v)]
SetVisEnabled(st, c) == st.srv.cl[c].conn /\ st.srv.cl[c].auth /\ Policy # "all"

----------------------------------------------------------------------------
(* acknowledgements: ClientTicks::ack_mutate_message, cleanup_older_mutations *)

AckOne(scl, idx) ==
    LET hit == {m \in scl.inflight : m.idx = idx}
    IN IF hit = {} THEN scl       \* unknown index: ignored
       ELSE LET m == CHOOSE x \in hit : TRUE
            IN [scl EXCEPT !.inflight = @ \ {m},
                           !.mutTick = [e \in DOMAIN @ |-> IF e \in m.ents THEN Max(@[e], m.f) ELSE @[e]]]

AckMsg(scl, msg) == FoldSeq(AckOne, scl, msg)

ReceiveAcks(st) ==
    [st EXCEPT !.srv.cl = [c \in Client |->
                              IF st.srv.cl[c].auth THEN FoldSeq(AckMsg, st.srv.cl[c], st.net[c].srxAck)
                              ELSE st.srv.cl[c]],
               !.net = [c \in Client |-> [st.net[c] EXCEPT !.srxAck = <<>>]]]

CleanupAcks(scl, now) ==
    LET min == IF now >= Timeout THEN now - Timeout ELSE 0
    IN [scl EXCEPT !.inflight = {m \in @ : m.ts >= min}]

----------------------------------------------------------------------------
(* buffer_removals: runs every frame while the server is running *)

BufferRemovals(srv) ==
    LET ev == [e \in Ent |-> srv.remEv[e] \cup srv.remEvOld[e]]
        touched == {e \in Ent : ev[e] # {} /\ srv.world[e].alive /\ srv.world[e].repl}
        newBuf == [e \in (DOMAIN srv.removalBuf) \cup touched |->
                      IF e \in touched
                      THEN IF Impl.removalOverwrite THEN ev[e]
                           ELSE Get(srv.removalBuf, e, {}) \cup ev[e]
                      ELSE srv.removalBuf[e]]
    IN [srv EXCEPT !.removalBuf = newBuf, !.remEv = [e \in Ent |-> {}], !.remEvOld = [e \in Ent |-> {}]]

----------------------------------------------------------------------------
(* send_replication for one client.  Returns the new per-client record, the update message
   (or None) and the entity |-> components map of pure mutations. *)

ReplEnts(srv) == {e \in Ent : srv.world[e].alive /\ srv.world[e].repl}

LiveRemovals(srv) == srv.removalBuf

CollectDespawnsFor(srv, scl) ==
    LET vis0 == scl.vis
        dead == DOMAIN srv.despawnBuf
        cnt(e) == LET n == srv.despawnBuf[e]
                      first == IF IsVisible(vis0, e) THEN 1
                               ELSE IF ~Impl.noLostDespawnHidden /\ vis0.kind = "black" /\ e \in vis0.added
                                    THEN 1 ELSE 0    \* blacklisted in this window: the client still holds it
                  IN CASE vis0.kind = "all"   -> n
                       [] vis0.kind = "black" -> first + (n - 1)
                       [] OTHER               -> first
        vis1 == FoldSet(RemoveDespawned, vis0, dead)
        lost == Lost(vis1)
        vis2 == DrainLost(vis1)
        despBag == [e \in {x \in dead : cnt(x) > 0} \cup lost |->
                       (IF e \in dead THEN cnt(e) ELSE 0) + (IF e \in lost THEN 1 ELSE 0)]
    IN [vis |-> vis2, desp |-> despBag, mutTick |-> WithoutAll(scl.mutTick, dead \cup lost)]

ReplicateFor(srv, scl, f) ==
    LET d == CollectDespawnsFor(srv, scl)
        vis == d.vis
        mt0 == d.mutTick
        remBuf == LiveRemovals(srv)
        rems == Restrict(remBuf, {e \in DOMAIN remBuf : IsVisible(vis, e)})
        ents == {e \in ReplEnts(srv) : VisState(vis, e) # "Hidden" \/ Impl.seedLeakHidden}
        \* per-entity classification, computed once
        info == [e \in ents |->
            LET comps == srv.world[e].comps
                known == e \in DOMAIN mt0
                newEnt == srv.world[e].markerAdd > srv.lastRun \/ VisState(vis, e) = "Gained"
                          \/ (~Impl.lateJoinerMissesEmpty /\ ~known)
                ins == {k \in DOMAIN comps : ~known \/ newEnt \/ comps[k].add > srv.lastRun}
                changed == {k \in (DOMAIN comps) \ ins : comps[k].chg > mt0[e]}
                mut == {k \in changed : SendMut(k, srv.tick)}
                structural == newEnt \/ ins # {} \/ e \in DOMAIN srv.removalBuf
                \* F4 / designed: an entity whose periodic component has an unsent change is not
                \* listed for acknowledgement
                pendingPeriodic == \E k \in changed \ mut : Rate(k) = "periodic"
            IN [newEnt |-> newEnt, ins |-> ins, mut |-> mut, structural |-> structural,
                pendingPeriodic |-> pendingPeriodic,
                vals |-> [k \in ins \cup mut |-> comps[k].val]]]
        chgEnts == {e \in ents : info[e].structural /\ (info[e].newEnt \/ info[e].ins \cup info[e].mut # {})}
        chg == [e \in chgEnts |-> info[e].vals]
        mutEnts == {e \in ents : ~info[e].structural /\ info[e].mut # {}}
        muts == [e \in mutEnts |-> info[e].vals]
        ackable == IF Impl.periodicAckSwallow THEN mutEnts
                   ELSE {e \in mutEnts : ~info[e].pendingPeriodic}
        structEnts == {e \in ents : info[e].structural}
        \* structural changes carry every pending mutation, so the entity's tick is advanced -
        \* unless (designed / F18) a periodic component still has an unsent change
        bumped == IF Impl.periodicBumpSwallow THEN structEnts
                  ELSE {e \in structEnts : ~info[e].pendingPeriodic}
        mt1 == [e \in (DOMAIN mt0) \cup bumped |-> IF e \in bumped THEN f ELSE mt0[e]]
        maps == SeqToSet(scl.pendingMap)
        nonEmpty == maps # {} \/ DOMAIN d.desp # {} \/ DOMAIN rems # {} \/ chgEnts # {}
        upd == [tick |-> srv.tick, maps |-> maps, desp |-> d.desp, rems |-> rems, chg |-> chg,
                rord |-> SeqOf(DOMAIN rems), ord |-> SeqOf(DOMAIN chg)]   \* record order on the wire: any
    IN [scl |-> [scl EXCEPT !.vis = vis, !.mutTick = mt1, !.pendingMap = <<>>,
                            !.updTick = IF nonEmpty THEN srv.tick ELSE @],
        upd |-> IF nonEmpty THEN <<upd>> ELSE <<>>,
        muts |-> muts,
        ackable |-> ackable]

\* is `part` (a sequence of sets of entities) an acceptable split of the mutated entities?
PartOK(part, mutEnts, graphs, srv) ==
    /\ \A i \in 1..Len(part) : part[i] \subseteq mutEnts
    \* the mutated entities of one relation graph travel in one message
    /\ \A i \in 1..Len(part) : \A e \in part[i] : (GroupOf(srv, e) \cap mutEnts) \subseteq part[i]
    /\ UNION {part[i] : i \in 1..Len(part)} = mutEnts
    /\ \A i, j \in 1..Len(part) : i # j => part[i] \cap part[j] = {}
    /\ (Len(part) = 0) <=> (mutEnts = {} /\ ~Track /\ ~(Impl.emptyMutateWithGraphs /\ graphs > 0))
    /\ mutEnts = {} => Len(part) <= 1

CanonPart(mutEnts, graphs) ==
    IF mutEnts = {} /\ ~Track /\ ~(Impl.emptyMutateWithGraphs /\ graphs > 0) THEN <<>> ELSE <<mutEnts>>

\* The replication run for every authorized client.  `parts[c]` is the split of the mutated
\* entities into mutate messages chosen for client c; parts = <<>> selects the canonical split
\* (everything in one message).  Returns the new state and whether the given split was acceptable.
Replicate(st, f, parts, extraGraphs) ==
    LET srv == st.srv
        graphs == extraGraphs + NumGraphs(srv)
        R == [c \in Client |-> IF srv.cl[c].auth THEN ReplicateFor(srv, srv.cl[c], f) ELSE <<>>]
        part == [c \in Client |->
                    IF ~srv.cl[c].auth THEN <<>>
                    ELSE IF parts = <<>> THEN CanonPart(DOMAIN R[c].muts, graphs) ELSE parts[c]]
        msgs == [c \in Client |->
                    [i \in 1..Len(part[c]) |->
                        [upd |-> R[c].scl.updTick, tick |-> srv.tick,
                         cnt |-> IF Track THEN Len(part[c]) ELSE -1,
                         idx |-> (srv.cl[c].nextIdx + i - 1) % 65536,
                         ents |-> Restrict(R[c].muts, part[c][i] \cap DOMAIN R[c].muts),
                         ord |-> SeqOf(part[c][i] \cap DOMAIN R[c].muts)]]]
        newCl == [c \in Client |->
            IF ~srv.cl[c].auth THEN srv.cl[c]
            ELSE [R[c].scl EXCEPT
                    !.inflight = @ \cup {[idx |-> msgs[c][i].idx, f |-> f,
                                          ents |-> part[c][i] \cap R[c].ackable, ts |-> srv.now]
                                         : i \in 1..Len(part[c])},
                    !.nextIdx = (@ + Len(part[c])) % 65536,
                    !.vis = VisCommit(@)]]
        newNet == [c \in Client |->
            IF ~srv.cl[c].auth THEN st.net[c]
            ELSE [st.net[c] EXCEPT !.upd = @ \o R[c].upd, !.mut = @ \o msgs[c]]]
        partsOK == \A c \in Client : srv.cl[c].auth => PartOK(part[c], DOMAIN R[c].muts, graphs, srv)
    IN [st |-> [st EXCEPT !.srv.cl = newCl,
                          !.srv.despawnBuf = EmptyFn,
                          !.srv.removalBuf = EmptyFn,
                          !.srv.lastRun = f,
                          !.net = newNet],
        partsOK |-> partsOK]

----------------------------------------------------------------------------
(* one server frame *)

\* everything before send_replication; returns the state in which the split is chosen
SrvFramePre(st, doTick, dt) ==
    LET f == st.srv.frame + 1
        acc == st.srv.timerAcc + dt
        fire == acc >= Timeout
        A0(s) == [s EXCEPT !.srv.frame = f,
                           !.srv.now = @ + dt,
                           !.srv.tick = IF doTick THEN @ + 1 ELSE @,
                           !.srv.tickChanged = @ \/ doTick]
        A1(s) == IF s.srv.running THEN ReceiveAcks(s) ELSE s
        A2(s) == IF s.srv.running
                 THEN [s EXCEPT !.srv.timerAcc = IF fire THEN acc % Timeout ELSE acc,
                                !.srv.cl = IF fire THEN [c \in Client |-> CleanupAcks(@[c], s.srv.now)] ELSE @]
                 ELSE s
        \* while the server is stopped nobody reads the removal events and they expire after two frames
        A3(s) == IF s.srv.running THEN [s EXCEPT !.srv = BufferRemovals(@)]
                 ELSE [s EXCEPT !.srv.remEvOld = s.srv.remEv, !.srv.remEv = [e \in Ent |-> {}]]
    IN Then(A0(st), LAMBDA s0 : Then(A1(s0), LAMBDA s1 : Then(A2(s1), A3)))

WillReplicate(stPre) == stPre.srv.running /\ stPre.srv.tickChanged

\* `reset` (which writes the tick) and the run condition of send_replication are not ordered within the
\* frame in which the server stops: whether the next frame sees the tick as changed depends on the order
\* the scheduler happens to pick (it differs between apps with and without sync_related_entities).
\* `visible` resolves it; it only matters in the frame after the one in which `reset` ran.
ResolveReset(stPre, doTick, visible) ==
    IF stPre.srv.tickMaybe /\ ~visible THEN [stPre EXCEPT !.srv.tickChanged = doTick] ELSE stPre

\* the run condition is evaluated (and its change tick consumed) every frame
SrvFramePost(stPre, parts, graphs) ==
    LET r == IF WillReplicate(stPre) THEN Replicate(stPre, stPre.srv.frame, parts, graphs)
             ELSE [st |-> stPre, partsOK |-> TRUE]
        \* `reset` runs in the first frame after the server stopped: tick back to 0 (which marks it
        \* changed), buffers cleared, client entities despawned
        justStopped == stPre.srv.wasRunning /\ ~stPre.srv.running
        s1 == [r.st EXCEPT !.srv.tickChanged = FALSE, !.srv.tickMaybe = FALSE, !.srv.wasRunning = stPre.srv.running]
        s2 == IF justStopped
              THEN [s1 EXCEPT !.srv.tick = 0, !.srv.tickChanged = TRUE, !.srv.tickMaybe = TRUE,
                              !.srv.despawnBuf = IF Impl.staleBuffersOnRestart THEN @ ELSE EmptyFn,
                              !.srv.removalBuf = IF Impl.staleBuffersOnRestart THEN @ ELSE EmptyFn,
                              !.srv.cl = [c \in Client |-> SrvClientInit]]
              ELSE s1
    IN [st |-> s2, partsOK |-> r.partsOK, ran |-> WillReplicate(stPre), justStopped |-> justStopped]

\* full result record: [st, partsOK, ran]
SrvFrameR(st, doTick, dt, parts, graphs) ==
    Then(SrvFramePre(st, doTick, dt), LAMBDA pre : SrvFramePost(pre, parts, graphs))
\* the same with the scheduler's choice about a pending reset made explicit
SrvFrameRV(st, doTick, dt, parts, graphs, visible) ==
    Then(SrvFramePre(st, doTick, dt), LAMBDA pre : SrvFramePost(ResolveReset(pre, doTick, visible), parts, graphs))

\* the frame with the canonical split (one mutate message per client)
SrvFrameCanonR(st, doTick, dt) == SrvFrameR(st, doTick, dt, <<>>, 0)
SrvFrameCanon(st, doTick, dt) == Then(SrvFrameCanonR(st, doTick, dt), LAMBDA r : r.st)

----------------------------------------------------------------------------
(* network *)

DeliverUpdF(st, c) ==
    [st EXCEPT !.net[c].upd = Tail(@), !.net[c].rxUpd = Append(@, Head(st.net[c].upd))]
DeliverUpdEnabled(st, c) == st.net[c].upd # <<>> /\ st.cli[c].status = "Connected"

RemoveAt(s, i) == SubSeq(s, 1, i - 1) \o SubSeq(s, i + 1, Len(s))

DeliverMutF(st, c, i) ==
    [st EXCEPT !.net[c].mut = RemoveAt(@, i), !.net[c].rxMut = Append(@, st.net[c].mut[i])]
DropMutF(st, c, i) == [st EXCEPT !.net[c].mut = RemoveAt(@, i)]
MutEnabled(st, c, i) == i \in 1..Len(st.net[c].mut) /\ st.cli[c].status = "Connected"

DeliverAckF(st, c) ==
    [st EXCEPT !.net[c].ack = Tail(@), !.net[c].srxAck = Append(@, Head(st.net[c].ack))]
DeliverAckEnabled(st, c) == st.net[c].ack # <<>> /\ st.srv.cl[c].conn /\ st.srv.running

----------------------------------------------------------------------------
(* client: receive_replication *)

NewEnt(tick, marker) == [alive |-> TRUE, marker |-> marker, comps |-> EmptyFn, hist |-> tick, pre |-> None]

\* mappings are applied before anything else in the message: a live pre-spawned entity is adopted
\* (marker inserted, no confirm history yet), a dead one is ignored and a fresh entity is spawned later
\* ("?": a reference to a client entity that no server entity maps to any more)
Orphan == "?"
ApplyMappings(cs, m) ==
    LET one(ents, mp) ==
            IF Get(cs.pre, mp[2], FALSE)
            THEN LET known == mp[1] \in DOMAIN ents
                     \* as found (F24): the entity reserved earlier for references to mp[1] is left behind and the
                     \* components that referenced it keep pointing to it
                     e1 == IF Impl.mapOrphansPlaceholder /\ known
                           THEN [x \in DOMAIN ents |->
                                   IF REL \in DOMAIN ents[x].comps /\ ents[x].comps[REL] = mp[1]
                                   THEN [ents[x] EXCEPT !.comps[REL] = Orphan] ELSE ents[x]]
                           ELSE ents
                 IN With(e1, mp[1], [alive |-> TRUE, marker |-> TRUE, comps |-> EmptyFn, hist |-> -1, pre |-> mp[2]])
            ELSE ents
    IN IF Impl.seedIgnoreMapping THEN cs ELSE [cs EXCEPT !.ents = FoldSet(one, @, m.maps)]

\* client-side hierarchy, by the relations the client holds
RECURSIVE CliAncestors(_, _, _)
CliAncestors(ents, e, seen) ==
    LET p == IF e \in DOMAIN ents /\ ents[e].alive /\ REL \in DOMAIN ents[e].comps THEN ents[e].comps[REL] ELSE None
    IN IF p = None \/ p \in seen THEN seen ELSE CliAncestors(ents, p, seen \cup {p})
Dead(ent) == [ent EXCEPT !.alive = FALSE, !.marker = FALSE, !.comps = EmptyFn, !.hist = -1]

ApplyDespawns(cs, m) ==
    LET killed == {e \in (DOMAIN m.desp) \cap (DOMAIN cs.ents) : cs.ents[e].alive}
        \* Bevy's linked despawn on the client: everything below a despawned entity dies with it; the map
        \* entry of such an entity stays until its own despawn record is processed (F17 when there is none)
        below == IF Impl.clientLinkedDespawn
                 THEN {d \in DOMAIN cs.ents : CliAncestors(cs.ents, d, {}) \cap killed # {}} ELSE {}
        \* pre-spawned client entities that cease to exist: adopted ones that are despawned, directly or along
        gone == {cs.ents[e].pre : e \in ((DOMAIN m.desp) \cap (DOMAIN cs.ents)) \cup below} \ {None}
    IN [cs EXCEPT !.ents = [e \in (DOMAIN @) \ (DOMAIN m.desp) |-> IF e \in below THEN Dead(@[e]) ELSE @[e]],
                  !.pre = [p \in DOMAIN @ |-> IF p \in gone THEN FALSE ELSE @[p]]]

\* removals / changes for one entity: resolve (or spawn on first sight), confirm the tick, edit components
\* (an entity reserved earlier for a reference gets the marker with its own first record, unless F8)
TouchEnt(ents, e, tick) ==
    IF e \in DOMAIN ents
    THEN [ents EXCEPT ![e].hist = tick, ![e].marker = IF Impl.refBeforeSpawnUnmarked THEN @ ELSE TRUE]
    ELSE With(ents, e, NewEnt(tick, TRUE))

\* a component that references another server entity: an unknown one is given a placeholder entity
Placeholder == [alive |-> TRUE, marker |-> FALSE, comps |-> EmptyFn, hist |-> -1, pre |-> None]
WithRefs(ents, new) ==
    IF REL \in DOMAIN new /\ new[REL] \notin DOMAIN ents THEN With(ents, new[REL], Placeholder) ELSE ents

\* A record for a mapped entity that is dead on the client cannot be applied: the client logs an error and
\* drops the rest of the message (this only happens once a mapped entity died behind the protocol's back:
\* F17, or game logic despawning a replicated entity).  Records are applied in wire order.
DeadMapped(ents, e) == e \in DOMAIN ents /\ ~ents[e].alive

\* components of a record written over those the entity has.  A relation whose target is mapped but dead on
\* the client cannot be established: Bevy removes a relationship component that points to a missing entity
\* (again only reachable after F17 / F24 or a locally killed pre-spawned entity)
Merge(ents, old, new) ==
    LET all == [k \in (DOMAIN old) \cup (DOMAIN new) |-> IF k \in DOMAIN new THEN new[k] ELSE old[k]]
    IN IF REL \in DOMAIN new /\ DeadMapped(ents, new[REL]) THEN Without(all, REL) ELSE all

\* [ents, ok]
ApplyRecords(ents0, ord, One(_, _)) ==
    FoldSeq(LAMBDA acc, e : IF ~acc.ok THEN acc
                            ELSE IF DeadMapped(acc.ents, e) THEN [acc EXCEPT !.ok = FALSE]
                            ELSE [acc EXCEPT !.ents = One(@, e)],
            [ents |-> ents0, ok |-> TRUE], ord)

ApplyUpdate(cs, m) ==
    LET oneRem(ents, e) ==
            LET e1 == TouchEnt(ents, e, m.tick)
            IN [e1 EXCEPT ![e].comps = WithoutAll(@, m.rems[e])]
        oneChg(ents, e) ==
            LET new == m.chg[e]
                e1 == TouchEnt(WithRefs(ents, new), e, m.tick)
            IN [e1 EXCEPT ![e].comps = Merge(ents, @, new)]
    IN Then(ApplyDespawns(ApplyMappings([cs EXCEPT !.updTick = m.tick], m), m), LAMBDA c1 :
       Then(ApplyRecords(c1.ents, m.rord, oneRem), LAMBDA r1 :
       Then(IF r1.ok THEN ApplyRecords(r1.ents, m.ord, oneChg) ELSE r1, LAMBDA r2 :
            [c1 EXCEPT !.ents = r2.ents])))

\* BufferedMutations::insert keeps the buffer sorted by message tick, newest first;
\* a new message goes before older-or-equal ones
BufInsert(buf, b) ==
    LET n == Cardinality({i \in 1..Len(buf) : b.tick < buf[i].tick})
    IN SubSeq(buf, 1, n) \o <<b>> \o SubSeq(buf, n + 1, Len(buf))

ToBuf(m) == [upd |-> m.upd, tick |-> m.tick, cnt |-> m.cnt, ents |-> m.ents, idx |-> m.idx, ord |-> m.ord]

\* apply one buffered mutate message, entity by entity in wire order: [ents, ok, outdated]
\*   unknown entity: skipped;  dead or without history: error, the rest of the message is dropped;
\*   not newer than what the entity has: discarded for this entity
ApplyMutate(ents, b) ==
    LET one(acc, e) ==
            LET es == acc.ents IN
            IF ~acc.ok \/ e \notin DOMAIN es THEN acc
            ELSE IF ~es[e].alive \/ es[e].hist < 0 THEN [acc EXCEPT !.ok = FALSE]
            ELSE IF b.tick > es[e].hist
                 THEN [acc EXCEPT !.ents = [WithRefs(es, b.ents[e]) EXCEPT ![e].hist = b.tick,
                                                                       ![e].comps = Merge(es, @, b.ents[e])]]
                 ELSE [acc EXCEPT !.outdated = TRUE]
    IN FoldSeq(one, [ents |-> ents, ok |-> TRUE, outdated |-> FALSE], b.ord)

\* ServerMutateTicks: per tick the number of mutate messages processed, for the 64 ticks up to the newest
\* tick seen; a tick 64 or more behind the newest is not tracked any more (it counts as received, no
\* notification).  The newest tick is the largest key (0 initially).
MtLast(mt) == LET S == (DOMAIN mt) \cup {0} IN CHOOSE x \in S : \A y \in S : y <= x
MtConfirm(mt, T) ==
    LET last == MtLast(mt)
    IN IF T > last THEN [mt |-> With(Restrict(mt, {k \in DOMAIN mt : k > T - 64}), T, 1), n |-> 1]
       ELSE IF last - T < 64 THEN [mt |-> With(mt, T, Get(mt, T, 0) + 1), n |-> Get(mt, T, 0) + 1]
       ELSE [mt |-> mt, n |-> 0]

\* processes the buffer newest first; `done` = processed messages, `acked` = those acknowledged
ApplyMutates(cs) ==
    LET ready(b) == b.upd <= cs.updTick
        step(acc, b) ==
            IF ready(b)
            THEN Then(ApplyMutate(acc.ents, b), LAMBDA r :
                 [acc EXCEPT !.ents = r.ents, !.done = Append(@, b),
                             !.mt = IF Track THEN MtConfirm(@, b.tick).mt ELSE @,
                             !.notif = IF Track /\ MtConfirm(acc.mt, b.tick).n = b.cnt THEN Append(@, b.tick) ELSE @,
                             \* only a message that was applied completely is acknowledged (unless F19)
                             !.acked = IF Impl.ackDiscarded \/ (r.ok /\ ~r.outdated) THEN Append(@, b.idx) ELSE @])
            ELSE [acc EXCEPT !.keep = Append(@, b)]
        r == FoldSeq(step, [ents |-> cs.ents, keep |-> <<>>, done |-> <<>>, acked |-> <<>>, mt |-> cs.mt, notif |-> <<>>], cs.buf)
    IN [cs |-> [cs EXCEPT !.ents = r.ents, !.buf = r.keep, !.mt = r.mt, !.notif = r.notif], done |-> r.done, acked |-> r.acked]

CliFrameConnected(st, c, cs2) ==
    LET rx == st.net[c].rxMut
        Fin(r) ==
            LET acks == IF Impl.ackOnReceipt
                        THEN IF rx = <<>> THEN <<>> ELSE <<[i \in 1..Len(rx) |-> rx[i].idx]>>
                        ELSE IF r.acked = <<>> THEN <<>> ELSE <<r.acked>>
            IN [st EXCEPT !.cli[c] = r.cs,
                          !.net[c].rxUpd = <<>>,
                          !.net[c].rxMut = <<>>,
                          !.net[c].ack = @ \o acks]
    IN Then(FoldSeq(ApplyUpdate, cs2, st.net[c].rxUpd), LAMBDA cs3 :
       Then([cs3 EXCEPT !.buf = FoldSeq(BufInsert, @, [i \in 1..Len(rx) |-> ToBuf(rx[i])])], LAMBDA cs4 :
       Then(ApplyMutates(cs4), Fin)))

CliFrameF(st, c) ==
    LET cs0 == st.cli[c]
        disc == cs0.status = "Disconnected"
        justDisc == cs0.lastNotDisc /\ disc
        cs1 == [cs0 EXCEPT !.lastNotDisc = ~disc]
        cs2a == IF justDisc THEN [cs1 EXCEPT !.updTick = 0, !.ents = EmptyFn, !.buf = <<>>, !.mt = EmptyFn] ELSE cs1
        cs2 == [cs2a EXCEPT !.notif = <<>>]
    IN IF cs2.status # "Connected" THEN [st EXCEPT !.cli[c] = cs2]
       ELSE Then(cs2, LAMBDA x : CliFrameConnected(st, c, x))

----------------------------------------------------------------------------
(* pre-spawned client entities (ClientEntityMap) *)

PrespawnF(st, c, p) == [st EXCEPT !.cli[c].pre = With(@, p, TRUE)]
PrespawnEnabled(st, c, p) == p \notin DOMAIN st.cli[c].pre /\ st.cli[c].status = "Connected"

\* the client despawns its own entity (before or after it was adopted)
KillPreF(st, c, p) ==
    [st EXCEPT !.cli[c].pre[p] = FALSE,
               !.cli[c].ents = [e \in DOMAIN @ |-> IF @[e].pre = p
                                                    THEN [@[e] EXCEPT !.alive = FALSE, !.marker = FALSE,
                                                                      !.comps = EmptyFn, !.hist = -1]
                                                    ELSE @[e]]]
\* (only before adoption: despawning a replicated entity on the client is outside every property)
KillPreEnabled(st, c, p) ==
    p \in DOMAIN st.cli[c].pre /\ st.cli[c].pre[p] /\ \A e \in DOMAIN st.cli[c].ents : st.cli[c].ents[e].pre # p

\* server game logic registers the correspondence; it travels with the next update message
MapPreF(st, c, e, p) == [st EXCEPT !.srv.cl[c].pendingMap = Append(@, <<e, p>>), !.cli[c].preUsed = @ \cup {p, e}]
MapPreEnabled(st, c, e, p) ==
    /\ st.srv.cl[c].conn /\ st.srv.cl[c].auth /\ st.srv.world[e].alive /\ p \in DOMAIN st.cli[c].pre
    /\ e \notin DOMAIN st.srv.cl[c].mutTick      \* the premise of C16: not later than first visibility
    \* one mapping per server entity and per pre-spawned entity
    /\ \A i \in 1..Len(st.srv.cl[c].pendingMap) : st.srv.cl[c].pendingMap[i][1] # e /\ st.srv.cl[c].pendingMap[i][2] # p
    /\ p \notin st.cli[c].preUsed /\ e \notin st.cli[c].preUsed

----------------------------------------------------------------------------
(* sessions *)

ConnectF(st, c) ==
    [st EXCEPT !.srv.cl[c] = [SrvClientInit EXCEPT !.conn = TRUE, !.auth = TRUE, !.vis = VisInit],
               !.cli[c].status = "Connected"]
ConnectEnabled(st, c) == ~st.srv.cl[c].conn /\ st.cli[c].status = "Disconnected" /\ st.srv.running

\* the client side of a lost connection: status, purge, the game forgets the entities of the session
ClientDropOf(cs) ==
    [cs EXCEPT !.status = "Disconnected",
               !.pre = EmptyFn, !.preUsed = {},
               !.ents = [e \in DOMAIN @ |-> [@[e] EXCEPT !.alive = FALSE, !.marker = FALSE,
                                                         !.comps = EmptyFn, !.hist = -1, !.pre = None]]]

\* both ends drop the connection; the transport and everything in flight is gone; the game
\* forgets the replicated entities of the ended session
DisconnectF(st, c) ==
    [st EXCEPT !.srv.cl[c] = SrvClientInit,
               !.net[c] = NetInit,
               !.cli[c] = ClientDropOf(@)]
DisconnectEnabled(st, c) == st.srv.cl[c].conn

\* the connection is lost while the backend already tries to reconnect: the client goes to Connecting
\* (leaving Connected purges its message queues), and later either gives up (Disconnected) or connects
LoseToConnectingF(st, c) ==
    [st EXCEPT !.srv.cl[c] = SrvClientInit,
               !.net[c] = NetInit,
               !.cli[c] = [ClientDropOf(@) EXCEPT !.status = "Connecting"]]
GiveUpF(st, c) == [st EXCEPT !.cli[c].status = "Disconnected"]
GiveUpEnabled(st, c) == st.cli[c].status = "Connecting"

ClientDrop(cs) == ClientDropOf(cs)

\* the server stops: every connection is gone with it (the client entities on the server are
\* despawned by `reset` in the server's next frame)
StopF(st) ==
    [st EXCEPT !.srv.running = FALSE,
               !.net = [c \in Client |-> NetInit],
               !.cli = [c \in Client |-> ClientDrop(@[c])]]
\* environment assumption: the running flag changes at most once per server frame (a backend sets it in
\* its own systems); replicon detects the change by comparing with the previous frame's value
StopEnabled(st) == st.srv.running /\ st.srv.wasRunning

StartF(st) == [st EXCEPT !.srv.running = TRUE]
StartEnabled(st) == ~st.srv.running /\ ~st.srv.wasRunning      \* at least one frame ran since the stop

=============================================================================
