\* C17 on the intended design (stable time-ordered queue): must hold. No conditioner.
CONSTANTS
    NumChannels = 2
    MaxMsgs = 6
    Delays = {0}
    MaxClock = 2
    ImplBug_F7 = FALSE
    PartialReads = TRUE
    Gen = FALSE
    PermSizes = {}
SPECIFICATION Spec
CHECK_DEADLOCK FALSE
INVARIANTS TypeOK PerChannelFifo ExactlyOnce NothingHeld HeapShape NothingOverdue
