---------------------------- MODULE LocalEvents ----------------------------
(***************************************************************************)
(* Property C13: "Singleplayer and listen-server logic sees each local     *)
(* event exactly once" (bevy_replicon 0.34.3, Bevy 0.16).                  *)
(*                                                                         *)
(* ONE app.  Its configuration is (cp, running, status):                   *)
(*   cp       the app was built with the client-side plugins (ClientPlugin *)
(*            and ClientEventPlugin); cp = FALSE is the dedicated-server   *)
(*            build (no RepliconClient resource at all)                    *)
(*   running  RepliconServer::is_running                                   *)
(*   status   RepliconClient::status: "D" Disconnected, "Cg" Connecting,   *)
(*            "Cd" Connected                                               *)
(*   singleplayer = cp, ~running, D     listen server = cp, running, D     *)
(*   dedicated    = ~cp, running        client        = cp, ~running, Cg/Cd*)
(* and changes BETWEEN frames (set_running, set_status, a remote peer      *)
(* connecting to / leaving the local server).  The hybrid "server running  *)
(* and client not Disconnected" is not a supported configuration and is    *)
(* never entered.                                                          *)
(*                                                                         *)
(* One behaviour exercises one event kind (the kinds use disjoint Bevy     *)
(* resources, so they do not interact):                                    *)
(*   cev   client event E                    add_client_event              *)
(*   ctr   client trigger without targets    add_client_trigger            *)
(*   ctt   client trigger with one target                                  *)
(*   phash the built-in ProtocolHash client trigger of the default         *)
(*         AuthMethod::ProtocolCheck; not emitted by the driver but by     *)
(*         send_protocol_hash in the frame the client is just connected    *)
(*   sev   server event ToClients<E>         add_server_event              *)
(*   sevi  the same, made independent        make_event_independent        *)
(*   str   server trigger without targets    add_server_trigger            *)
(*   stt   server trigger with one target                                  *)
(* Server kinds are emitted with one of the five send modes                *)
(*   B Broadcast, BxS BroadcastExcept(SERVER), BxO BroadcastExcept(other), *)
(*   DS Direct(SERVER), DO Direct(other)                                   *)
(* where `other` is the remote peer connected at emission time (or an      *)
(* entity that never was a client if there is none).                       *)
(*                                                                         *)
(* Bevy's event buffers are explicit: Events<T> = two buffers `old`, `new` *)
(* and the running event count `cnt`; every stored event carries its       *)
(* sequence number n.  Events::update (Swap) drops `old`, moves `new` to   *)
(* `old`.  With TimePlugin it runs in First only in a frame FOLLOWING a    *)
(* frame in which the fixed-timestep schedule ran (ShouldUpdateEvents):    *)
(* `ready` is that flag, Frame(fx) sets it to fx (the driver chooses the   *)
(* virtual time step of the frame: 0 or exactly one fixed timestep).       *)
(* A cursor is a sequence number; reading yields the stored events with    *)
(* n >= cursor and moves the cursor to cnt; drain empties both buffers.    *)
(*   src  Events<E> (client kinds) / Events<ToClients<E>> (server kinds):  *)
(*        what the game wrote                                              *)
(*   dst  Events<FromClient<E>> (client kinds) / Events<E> (server kinds): *)
(*        the local re-emission, read by game logic                        *)
(* (for triggers E is the wrapper ClientTriggerEvent<E> /                  *)
(* ServerTriggerEvent<E> and `dst` is drained by the `trigger` systems     *)
(* that fire the observers).                                               *)
(*                                                                         *)
(* Game logic is observed the way game logic works: for plain events two   *)
(* reader systems with their own cursors, one in Update (rdU) and one in   *)
(* Last (rdL); for triggers a global observer.  Network: what the frame    *)
(* left in RepliconClient::drain_sent (c2s) / RepliconServer::drain_sent   *)
(* (s2c); the server's tick policy is EveryFrame, so buffered server       *)
(* events leave in the frame that buffered them.                           *)
(*                                                                         *)
(* Frame order (src/client/event.rs, src/server/event.rs, src/client.rs):  *)
(*   First      event_update_system (Swap, when ready)                     *)
(*   PreUpdate  ClientSet::ResetEvents  reset.run_if(client_just_connected)*)
(*                 drains Events<E> of every client event                  *)
(*              ClientSet::Receive      send_protocol_hash                 *)
(*                 .run_if(client_just_connected) (ProtocolCheck only);    *)
(*                 client `trigger` (no condition): drains                 *)
(*                 Events<ServerTriggerEvent<E>>, fires observers          *)
(*              ServerSet::Receive      server `trigger`                   *)
(*                 .run_if(server_or_singleplayer): drains                 *)
(*                 Events<FromClient<ClientTriggerEvent<E>>>, fires        *)
(*   Update     reader U                                                   *)
(*   PostUpdate ClientSet::Send  send.run_if(client_connected): reads      *)
(*                 Events<E> through the persistent ClientEventReader      *)
(*                 cursor (sendCur), does NOT drain;                       *)
(*                 resend_locally.run_if(server_or_singleplayer): drains   *)
(*                 Events<E> into FromClient{client: SERVER}               *)
(*              ServerSet::Send  send_or_buffer.run_if(server_running):    *)
(*                 reads ALL of Events<ToClients<E>> with a fresh cursor;  *)
(*                 send_buffered; resend_locally                           *)
(*                 .run_if(server_or_singleplayer): drains it into         *)
(*                 Events<E> for the modes that include SERVER             *)
(*   Last       reader L                                                   *)
(* server_or_singleplayer = no RepliconClient resource or Disconnected.    *)
(*                                                                         *)
(* Deviations of the pinned tree, each behind a switch (FALSE = intended   *)
(* design = the tree after the fix commits, TRUE = code as found):         *)
(*   ImplBug_F13    ClientEvent::resend_locally re-emits EVERYTHING that   *)
(*                  is in Events<E>, including events the send cursor has  *)
(*                  already sent to the remote server (they are not        *)
(*                  drained when sent): after a disconnect within the      *)
(*                  buffer's lifetime the event is handled a second time,  *)
(*                  locally; the re-emitted ProtocolHash makes             *)
(*                  check_protocol insert AuthorizedClient on SERVER =     *)
(*                  Entity::PLACEHOLDER, which panics.  Design (fix        *)
(*                  70e9c52): everything is drained, only the events the   *)
(*                  ClientEventReader cursor has not read are re-emitted.  *)
(*   ImplBug_Direct ServerEvent::send_independent_event with Direct(e)     *)
(*                  calls RepliconServer::send for any e # SERVER, also    *)
(*                  when e is not a connected client (nothing is connected,*)
(*                  or e has left).  Design (fix c1db45b): only for a      *)
(*                  connected client, as BufferedServerEvents::send_all    *)
(*                  does for ordinary events.                              *)
(*                                                                         *)
(* (a) Reference meaning: ClientEventOnce / ServerEventOnce over the ghost *)
(* record `em` (per emitted event: how often each kind of game logic saw   *)
(* it, how often it was put on the network, in which configuration the     *)
(* frame that handled it ran), NoNetWithoutConnection, NoPanic.            *)
(* (b) Mechanism: FrameResult, transcribed from the sources named above.   *)
(* The sender identity of a local re-emission is SERVER by construction of *)
(* resend_locally; the replayer checks it on every observation.            *)
(***************************************************************************)
EXTENDS Naturals, Sequences, FiniteSets, TLC, Json

CONSTANTS
    Kinds,          \* event kinds explored (one per behaviour)
    Builds,         \* subset of BOOLEAN: values of cp explored
    MaxFrames,      \* frames per behaviour (after the warm-up frame)
    MaxEmit,        \* emissions per behaviour
    MaxOps,         \* configuration changes per behaviour
    MaxGap,         \* emissions + configuration changes between two frames
    ImplBug_F13,
    ImplBug_Direct,
    Gen             \* TRUE: keep the history and print one CASE per complete behaviour

VARIABLES
    kind, cp,               \* fixed per behaviour
    running, status,        \* configuration
    peer, peerGen,          \* peer: 0 = no remote client, else its generation; peerGen: peers so far
    lastConn,               \* Local<bool> of client_just_connected
    ready,                  \* ShouldUpdateEvents::Ready
    src, dst,               \* event buffers
    sendCur, rdU, rdL,      \* cursors: ClientEventReader<E>, reader in Update, reader in Last
    em,                     \* ghost: one record per emitted event
    nf, nops, gap,          \* bounds: frames done, configuration changes done, actions since the last frame
    dead,                   \* the app panicked
    last,                   \* the last step and what it must show (compared by the replayer)
    hist                    \* Gen only: all steps so far

vars == <<kind, cp, running, status, peer, peerGen, lastConn, ready, src, dst, sendCur, rdU, rdL, em,
          nf, nops, gap, dead, last, hist>>

ClientKinds == {"cev", "ctr", "ctt", "phash"}
ServerKinds == {"sev", "sevi", "str", "stt"}
TriggerKinds == {"ctr", "ctt", "phash", "str", "stt"}
PlainKinds == {"cev", "sev", "sevi"}
Modes == {"B", "BxS", "BxO", "DS", "DO"}

---------------------------------------------------------------------------
(* Bevy Events<T> *)
EmptyEv == [old |-> <<>>, new |-> <<>>, cnt |-> 0]
Items(e) == e.old \o e.new
PushAll(e, ids) ==
    [e EXCEPT !.new = @ \o [k \in 1 .. Len(ids) |-> [n |-> e.cnt + k - 1, id |-> ids[k]]],
              !.cnt = @ + Len(ids)]
Drain(e) == [e EXCEPT !.old = <<>>, !.new = <<>>]
Swap(e) == [e EXCEPT !.old = e.new, !.new = <<>>]
Unread(e, c) == SelectSeq(Items(e), LAMBDA it : it.n >= c)
Ids(s) == [k \in DOMAIN s |-> s[k].id]
Count(s, x) == Cardinality({k \in DOMAIN s : s[k] = x})

---------------------------------------------------------------------------
(* (a) Reference: who is to receive a server event *)
LocalMode(m) == m \in {"B", "BxO", "DS"}          \* the local server is among the recipients
\* the remote peer p (a connected client) is among the recipients of emission e
PeerIsRecipient(e, p) ==
    CASE e.mode = "B" -> TRUE
      [] e.mode = "BxS" -> TRUE
      [] e.mode = "BxO" -> e.tgt # p
      [] e.mode = "DS" -> FALSE
      [] e.mode = "DO" -> e.tgt = p

NewEm(m, t) ==
    [mode |-> m, tgt |-> t, age |-> 0,
     u |-> 0, l |-> 0, t |-> 0, net |-> 0,        \* times seen by reader U / reader L / observer; times put on the network
     c1local |-> FALSE, c1conn |-> FALSE, c1jc |-> FALSE, c2sos |-> FALSE]

---------------------------------------------------------------------------
(* (b) The frame, as implemented *)
FrameResult(fx) ==
    LET isC == kind \in ClientKinds
        conn == cp /\ status = "Cd"                   \* client_connected
        sos == ~cp \/ status = "D"                    \* server_or_singleplayer
        jc == conn /\ ~lastConn                       \* client_just_connected
        \* First
        s0 == IF ready THEN Swap(src) ELSE src
        d0 == IF ready THEN Swap(dst) ELSE dst
        \* PreUpdate: ClientSet::ResetEvents
        s1 == IF jc /\ isC THEN Drain(s0) ELSE s0
        \* PreUpdate: send_protocol_hash -> commands.client_trigger(hash)
        hashNow == kind = "phash" /\ jc
        s2 == IF hashNow THEN PushAll(s1, <<Len(em) + 1>>) ELSE s1
        em1 == IF hashNow THEN Append(em, NewEm("-", 0)) ELSE em
        \* PreUpdate: the `trigger` systems (server side for client triggers, client side for server triggers)
        trigRuns == kind \in TriggerKinds /\ (IF isC THEN sos ELSE cp)
        fires == IF trigRuns THEN Ids(Items(d0)) ELSE <<>>
        d1 == IF trigRuns THEN Drain(d0) ELSE d0
        \* check_protocol on a local FromClient<ProtocolHash>: hashes are equal, so it inserts
        \* AuthorizedClient on trigger.client = SERVER = Entity::PLACEHOLDER; the command fails and the
        \* default error handler panics
        panic == kind = "phash" /\ fires # <<>>
        \* Update: reader U
        plain == kind \in PlainKinds
        readU == IF plain THEN Ids(Unread(d1, rdU)) ELSE <<>>
        rdU1 == IF plain THEN d1.cnt ELSE rdU
        \* PostUpdate, client kinds: send, resend_locally
        sending == isC /\ conn
        toSend == IF sending THEN Ids(Unread(s2, sendCur)) ELSE <<>>
        sendCur1 == IF sending THEN s2.cnt ELSE sendCur
        resendC == isC /\ cp /\ status = "D"
        reemitC == IF ~resendC THEN <<>>
                   ELSE IF ImplBug_F13 THEN Ids(Items(s2)) ELSE Ids(Unread(s2, sendCur1))
        \* PostUpdate, server kinds: send_or_buffer + send_buffered, resend_locally
        all == Ids(Items(s2))
        toPeer(i) == LET e == em1[i] IN
                     \/ peer # 0 /\ PeerIsRecipient(e, peer)
                     \/ ImplBug_Direct /\ kind = "sevi" /\ e.mode = "DO"
        netS == IF ~isC /\ running THEN SelectSeq(all, toPeer) ELSE <<>>
        resendS == ~isC /\ sos
        reemitS == IF resendS THEN SelectSeq(all, LAMBDA i : LocalMode(em1[i].mode)) ELSE <<>>
        s3 == IF resendC \/ resendS THEN Drain(s2) ELSE s2
        d2 == PushAll(d1, IF isC THEN reemitC ELSE reemitS)
        \* Last: reader L
        readL == IF plain THEN Ids(Unread(d2, rdL)) ELSE <<>>
        rdL1 == IF plain THEN d2.cnt ELSE rdL
        net == IF isC THEN toSend ELSE netS
        em2 == [i \in DOMAIN em1 |->
                  LET e == em1[i] IN
                  [e EXCEPT !.age = @ + 1,
                            !.u = @ + Count(readU, i), !.l = @ + Count(readL, i), !.t = @ + Count(fires, i),
                            !.net = @ + Count(net, i),
                            !.c1local = IF e.age = 0 THEN cp /\ status = "D" ELSE @,
                            !.c1conn = IF e.age = 0 THEN conn ELSE @,
                            !.c1jc = IF e.age = 0 THEN jc /\ kind # "phash" ELSE @,
                            !.c2sos = IF e.age = 1 THEN sos ELSE @]]
    IN  [panic |-> panic, src |-> s3, dst |-> d2, sendCur |-> sendCur1, rdU |-> rdU1, rdL |-> rdL1,
         em |-> em2, lastConn |-> conn,
         obs |-> [u |-> readU, l |-> readL, t |-> fires,
                  c2s |-> IF isC THEN toSend ELSE <<>>, s2c |-> IF isC THEN <<>> ELSE netS]]

---------------------------------------------------------------------------
Init ==
    /\ kind \in Kinds /\ cp \in Builds
    /\ (kind = "phash" => cp)
    /\ running = FALSE /\ status = "D" /\ peer = 0 /\ peerGen = 0
    /\ lastConn = FALSE /\ ready = FALSE
    /\ src = EmptyEv /\ dst = EmptyEv /\ sendCur = 0 /\ rdU = 0 /\ rdL = 0
    /\ em = <<>> /\ nf = 0 /\ nops = 0 /\ gap = 0 /\ dead = FALSE
    /\ last = [a |-> "init"] /\ hist = <<>>

Record(step) == /\ last' = step
                /\ hist' = IF Gen THEN Append(hist, step) ELSE hist

CanAct == ~dead /\ nf < MaxFrames
CanOp == CanAct /\ gap < MaxGap /\ nops < MaxOps

EmitEv(m) ==
    /\ CanAct /\ gap < MaxGap /\ Len(em) < MaxEmit /\ kind # "phash"
    /\ src' = PushAll(src, <<Len(em) + 1>>)
    /\ em' = Append(em, NewEm(m, peer))
    /\ gap' = gap + 1
    /\ Record([a |-> "emit", id |-> Len(em) + 1, mode |-> m])
    /\ UNCHANGED <<kind, cp, running, status, peer, peerGen, lastConn, ready, dst, sendCur, rdU, rdL,
                   nf, nops, dead>>

Emit == \E m \in (IF kind \in ServerKinds THEN Modes ELSE {"-"}) : EmitEv(m)

SetStatus(s) ==
    /\ CanOp /\ cp /\ s # status
    /\ s # "D" => ~running                       \* no hybrid
    /\ status' = s
    /\ nops' = nops + 1 /\ gap' = gap + 1
    /\ Record([a |-> "status", s |-> s])
    /\ UNCHANGED <<kind, cp, running, peer, peerGen, lastConn, ready, src, dst, sendCur, rdU, rdL, em,
                   nf, dead>>

SetRunning(b) ==
    /\ CanOp /\ b # running
    /\ b => (~cp \/ status = "D")                 \* no hybrid
    /\ running' = b
    /\ peer' = IF b THEN peer ELSE 0              \* the backend drops its connections when it stops
    /\ nops' = nops + 1 /\ gap' = gap + 1
    /\ Record([a |-> "run", b |-> b])
    /\ UNCHANGED <<kind, cp, status, peerGen, lastConn, ready, src, dst, sendCur, rdU, rdL, em, nf, dead>>

PeerConnect ==
    /\ CanOp /\ running /\ peer = 0
    /\ peerGen' = peerGen + 1 /\ peer' = peerGen + 1
    /\ nops' = nops + 1 /\ gap' = gap + 1
    /\ Record([a |-> "peer", on |-> TRUE])
    /\ UNCHANGED <<kind, cp, running, status, lastConn, ready, src, dst, sendCur, rdU, rdL, em, nf, dead>>

PeerDisconnect ==
    /\ CanOp /\ peer # 0
    /\ peer' = 0
    /\ nops' = nops + 1 /\ gap' = gap + 1
    /\ Record([a |-> "peer", on |-> FALSE])
    /\ UNCHANGED <<kind, cp, running, status, peerGen, lastConn, ready, src, dst, sendCur, rdU, rdL, em,
                   nf, dead>>

Frame(fx) ==
    /\ CanAct
    /\ LET r == FrameResult(fx) IN
       /\ nf' = nf + 1 /\ gap' = 0 /\ ready' = fx
       /\ IF r.panic
          THEN /\ dead' = TRUE
               /\ Record([a |-> "frame", fx |-> fx, panic |-> TRUE,
                          obs |-> [u |-> <<>>, l |-> <<>>, t |-> <<>>, c2s |-> <<>>, s2c |-> <<>>]])
               /\ UNCHANGED <<src, dst, sendCur, rdU, rdL, em, lastConn>>
          ELSE /\ dead' = FALSE
               /\ src' = r.src /\ dst' = r.dst /\ sendCur' = r.sendCur /\ rdU' = r.rdU /\ rdL' = r.rdL
               /\ em' = r.em /\ lastConn' = r.lastConn
               /\ Record([a |-> "frame", fx |-> fx, panic |-> FALSE, obs |-> r.obs])
    /\ UNCHANGED <<kind, cp, running, status, peer, peerGen, nops>>

Next ==
    \/ Emit
    \/ \E s \in {"D", "Cg", "Cd"} : SetStatus(s)
    \/ \E b \in BOOLEAN : SetRunning(b)
    \/ PeerConnect \/ PeerDisconnect
    \/ \E fx \in BOOLEAN : Frame(fx)

Spec == Init /\ [][Next]_vars

---------------------------------------------------------------------------
(* Property C13 *)
Max3(a, b, c) == IF a >= b /\ a >= c THEN a ELSE IF b >= c THEN b ELSE c

\* An event sent towards the server: never twice, never through both paths; exactly once locally
\* when the app acted as singleplayer / listen server in the frame that handled it; exactly once to
\* the network when it acted as a connected client (the frame in which the connection is
\* established discards what was written before it - ClientSet::ResetEvents - which the statement
\* does not forbid; while Connecting, and on a dedicated-server build, only "never twice").
\* Observers of a client trigger fire in the PreUpdate of the following frame, if the app still acts
\* as server or singleplayer then; if it has become a client in between the promise has lapsed
\* (only "at most once" is required).
ClientEventOnce(e) ==
    /\ e.u <= 1 /\ e.l <= 1 /\ e.t <= 1 /\ e.net <= 1
    /\ Max3(e.u, e.l, e.t) + e.net <= 1
    /\ (e.c1local /\ e.age >= 1) => (e.net = 0 /\ (kind = "cev" => e.l = 1))
    /\ (e.c1local /\ e.age >= 2) => /\ kind = "cev" => e.u = 1
                                    /\ (kind \in TriggerKinds /\ e.c2sos) => e.t = 1
    /\ (e.c1conn /\ ~e.c1jc /\ e.age >= 1) => (e.net = 1 /\ e.u = 0 /\ e.l = 0 /\ e.t = 0)

\* An event sent towards clients: never seen twice locally, never put twice on the network; on an app
\* with the client-side plugins seen locally exactly once precisely when the local server is among
\* the recipients (exactly once if the app acted as server or singleplayer in the frame that
\* handled it, never if the server is not a recipient).
ServerEventOnce(e) ==
    /\ e.u <= 1 /\ e.l <= 1 /\ e.t <= 1 /\ e.net <= 1
    /\ (cp /\ ~LocalMode(e.mode)) => (e.u = 0 /\ e.l = 0 /\ e.t = 0)
    /\ (cp /\ LocalMode(e.mode) /\ e.c1local /\ e.age >= 1) => (kind \in PlainKinds => e.l = 1)
    /\ (cp /\ LocalMode(e.mode) /\ e.c1local /\ e.age >= 2) =>
            IF kind \in PlainKinds THEN e.u = 1 ELSE e.t = 1

ExactlyOnce ==
    \A i \in DOMAIN em :
        IF kind \in ClientKinds THEN ClientEventOnce(em[i]) ELSE ServerEventOnce(em[i])

\* nothing is put on the network when there is no connection (evaluated on the frame just executed;
\* configuration does not change inside a frame)
NoNetWithoutConnection ==
    (last.a = "frame" /\ ~last.panic) =>
        /\ last.obs.c2s # <<>> => (cp /\ status = "Cd")
        /\ last.obs.s2c # <<>> => (running /\ peer # 0)

NoPanic == ~dead

NoHybrid == ~(cp /\ running /\ status # "D")

TypeOK ==
    /\ kind \in Kinds /\ cp \in BOOLEAN /\ running \in BOOLEAN /\ status \in {"D", "Cg", "Cd"}
    /\ peer \in 0 .. peerGen /\ (~running => peer = 0)
    /\ nf \in 0 .. MaxFrames /\ nops \in 0 .. MaxOps /\ gap \in 0 .. MaxGap
    /\ sendCur <= src.cnt /\ rdU <= dst.cnt /\ rdL <= dst.cnt

---------------------------------------------------------------------------
(* Export *)
Complete == dead \/ nf = MaxFrames
EmitCase ==
    (Gen /\ Complete) =>
        PrintT(<<"CASE", ToJson([kind |-> kind, cp |-> cp, steps |-> hist])>>)
=============================================================================
