------------------------------ MODULE Packing ------------------------------
(***************************************************************************)
(* Splitting of one tick's mutations into mutate messages                  *)
(* (Mutations::send, src/server/replication_messages/mutations.rs).        *)
(*                                                                         *)
(* A chunk is what must not be split: the mutations of one entity, or of   *)
(* all mutated entities of one relation graph.  `Pack` is the greedy       *)
(* algorithm as implemented (try to pack back, then forward, with the      *)
(* modulo arithmetic of can_pack); `Legal` is what C10 promises.           *)
(***************************************************************************)
EXTENDS Integers, Sequences, FiniteSets

CONSTANT Variant    \* "impl": the algorithm as implemented; "never_split" / "always_split": seeded defects

\* can_pack(message_size, add, mtu): the dangling part of the message still has room for `add`
CanPack(msg, add, mtu) == LET d == msg % mtu IN d > 0 /\ d + add <= mtu

RECURSIVE SumSeq(_)
SumSeq(s) == IF s = <<>> THEN 0 ELSE Head(s) + SumSeq(Tail(s))

\* state of the loop: finished messages (as sequences of chunk indices), current message, its body size
RECURSIVE Loop(_, _, _, _, _, _, _)
Loop(sizes, i, H, mtu, msgs, curr, body) ==
    IF i > Len(sizes) THEN [msgs |-> msgs, curr |-> curr, body |-> body]
    ELSE LET m == sizes[i]
             split == CASE Variant = "never_split"  -> FALSE
                        [] Variant = "always_split" -> body # 0
                        [] OTHER -> body # 0 /\ ~CanPack(H + body, m, mtu) /\ ~CanPack(H + m, body, mtu)
         IN IF split
            THEN Loop(sizes, i + 1, H, mtu, Append(msgs, curr), <<i>>, m)
            ELSE Loop(sizes, i + 1, H, mtu, msgs, Append(curr, i), body + m)

\* the messages of one tick for one client: a sequence of sequences of chunk indices
Pack(sizes, H, mtu, track) ==
    LET r == Loop(sizes, 1, H, mtu, <<>>, <<>>, 0)
    IN IF r.curr # <<>> \/ track THEN Append(r.msgs, r.curr) ELSE r.msgs

MsgSize(sizes, H, msg) == H + SumSeq([j \in 1..Len(msg) |-> sizes[msg[j]]])

----------------------------------------------------------------------------
(* what C10 promises about a split `msgs` of chunks with the given sizes *)

Flatten(msgs) == LET RECURSIVE F(_) F(s) == IF s = <<>> THEN <<>> ELSE Head(s) \o F(Tail(s)) IN F(msgs)

\* every chunk in exactly one message, order kept (a chunk is never split by construction)
Partition(sizes, msgs) == Flatten(msgs) = [i \in 1..Len(sizes) |-> i]

\* when each chunk fits, no message exceeds the maximum
FitsEach(sizes, H, mtu, msgs) ==
    (\A i \in 1..Len(sizes) : H + sizes[i] <= mtu) => \A k \in 1..Len(msgs) : MsgSize(sizes, H, msgs[k]) <= mtu

\* when everything fits into one message, only one is sent
OneIfFits(sizes, H, mtu, msgs) ==
    (Len(sizes) > 0 /\ H + SumSeq(sizes) <= mtu) => Len(msgs) = 1

\* nothing is sent when there is nothing to send (unless per-tick tracking asks for an empty message)
SilentIfEmpty(sizes, track, msgs) == (Len(sizes) = 0) => Len(msgs) = (IF track THEN 1 ELSE 0)

Legal(sizes, H, mtu, track, msgs) ==
    /\ Partition(sizes, msgs)
    /\ FitsEach(sizes, H, mtu, msgs)
    /\ OneIfFits(sizes, H, mtu, msgs)
    /\ SilentIfEmpty(sizes, track, msgs)

=============================================================================
