\* C18 thorough tier: the export as designed.
\*  - every rule set (243) x every world of <= 1 entity x every pre-filled scene entry;
\*  - two-entity worlds: first entity as above, second over {A,B,D} x marked/unmarked x
\*    (absent from the scene, in it empty, in it with a stale A), the 32 rule sets with default priorities.
CONSTANTS
    ImplBug_F12 = FALSE
    MaxEnt = 2
    RuleOpts = {0, 1, 2}
    SecondComps = {"A", "B", "D"}
    SecondPre = {{}, {"A"}}
    TwoEntRuleOpts = {0, 1}
SPECIFICATION Spec
CHECK_DEADLOCK FALSE
INVARIANTS
    Inv_Conforms
    Inv_NoDuplicate
    Inv_RoundTrips
    Inv_C18
    Emit
