SPECIFICATION SpecB
CONSTANTS
    Chan = {0, 1, 2}
    Peer = {1, 2}
    MaxOps = 14
    Impl = "Design"
INVARIANT Inv
INVARIANT Export
CHECK_DEADLOCK FALSE
