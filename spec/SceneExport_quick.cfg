\* C18 quick tier: the export as designed.
\*  - every rule set (5 rules x {absent, default priority, custom priority} = 243) x every world of
\*    <= 1 entity (16 component sets x marked/unmarked) x every pre-filled scene entry (absent, or any subset of {A,B});
\*  - two-entity worlds: first entity as above, second over {A,B} (absent from / empty in the scene),
\*    with all five rules registered at their default priorities.
CONSTANTS
    ImplBug_F12 = FALSE
    MaxEnt = 2
    RuleOpts = {0, 1, 2}
    SecondComps = {"A", "B"}
    SecondPre = {{}}
    TwoEntRuleOpts = {1}
SPECIFICATION Spec
CHECK_DEADLOCK FALSE
INVARIANTS
    Inv_Conforms
    Inv_NoDuplicate
    Inv_RoundTrips
    Inv_C18
    Emit
