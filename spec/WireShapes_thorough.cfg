\* C06 thorough tier: as designed, wide class sets, every shape in every session state, second-order truncation / trailing bytes
SPECIFICATION Spec
CHECK_DEADLOCK FALSE
CONSTANTS
  ImplBug_F5 = FALSE
  ImplBug_F10 = FALSE
  ImplBug_F16 = FALSE
  Wide = TRUE
  FullProduct = TRUE
  Deep = TRUE
  Emit = TRUE
INVARIANTS
  JunkSafeInv
  OthersUntouched
  SpliceConsistent
  EmitCase
PROPERTIES
  JunkSafe
