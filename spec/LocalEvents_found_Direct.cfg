\* C13 non-vacuity: the quick instance with send_independent_event as found on the pinned tree (Direct to an entity that is not a connected client); TLC must report NoNetWithoutConnection violated.
SPECIFICATION Spec
CONSTANTS
    Kinds = {"cev", "ctr", "ctt", "phash", "sev", "sevi", "str", "stt"}
    Builds = {TRUE, FALSE}
    MaxFrames = 4
    MaxEmit = 2
    MaxOps = 2
    MaxGap = 2
    ImplBug_F13 = FALSE
    ImplBug_Direct = TRUE
    Gen = FALSE
INVARIANTS
    TypeOK
    NoHybrid
    ExactlyOnce
    NoNetWithoutConnection
    NoPanic

CHECK_DEADLOCK FALSE
