\* C13 quick tier, exhaustive verification of the as-designed model (no history): all kinds, both builds, 4 frames, <= 2 emissions, <= 2 configuration changes, <= 2 actions between frames.
SPECIFICATION Spec
CONSTANTS
    Kinds = {"cev", "ctr", "ctt", "phash", "sev", "sevi", "str", "stt"}
    Builds = {TRUE, FALSE}
    MaxFrames = 4
    MaxEmit = 2
    MaxOps = 2
    MaxGap = 2
    ImplBug_F13 = FALSE
    ImplBug_Direct = FALSE
    Gen = FALSE
INVARIANTS
    TypeOK
    NoHybrid
    ExactlyOnce
    NoNetWithoutConnection
    NoPanic

CHECK_DEADLOCK FALSE
