SPECIFICATION Spec
CONSTANT Variant = "impl"
INVARIANT Done
CHECK_DEADLOCK FALSE
