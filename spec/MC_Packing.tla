----------------------------- MODULE MC_Packing -----------------------------
(* Exhaustive check of the greedy split against what C10 promises, over all chunk-size lists of
   bounded length from a boundary alphabet around the maximum message size. *)
EXTENDS Packing, TLC

CONSTANTS Alphabet, MaxLen, Mtu, Headers

VARIABLES sizes, H, track

Init == sizes = <<>> /\ H \in Headers /\ track \in BOOLEAN
Next == Len(sizes) < MaxLen /\ \E a \in Alphabet : sizes' = Append(sizes, a) /\ UNCHANGED <<H, track>>
Spec == Init /\ [][Next]_<<sizes, H, track>>

Inv_Legal == Legal(sizes, H + (IF track THEN 1 ELSE 0), Mtu, track, Pack(sizes, H + (IF track THEN 1 ELSE 0), Mtu, track))
Inv_Partition == Partition(sizes, Pack(sizes, H, Mtu, track))
=============================================================================
