\* C12 ConfirmHistory with set_last_tick as found (wrapping_shl): TLC must find a violation
SPECIFICATION Spec
CONSTANTS
  ImplBug_F6_Shl = TRUE
  ImplBug_F6_Range = FALSE
  OverflowChecks = TRUE
  LimbBits = 16
  N = 2
  Deltas <- DeltasFull
  QAgo <- QAgoFull
  Emit = FALSE
INVARIANTS C12_CH NoPanic EmitInit
ACTION_CONSTRAINT EmitEdge
CHECK_DEADLOCK FALSE
