\* C13 quick tier, behaviour export: EVERY behaviour with 4 frames, <= 1 emission, <= 2 configuration changes, <= 1 action between frames, with what every frame must show.
SPECIFICATION Spec
CONSTANTS
    Kinds = {"cev", "ctr", "ctt", "phash", "sev", "sevi", "str", "stt"}
    Builds = {TRUE, FALSE}
    MaxFrames = 4
    MaxEmit = 1
    MaxOps = 2
    MaxGap = 1
    ImplBug_F13 = FALSE
    ImplBug_Direct = FALSE
    Gen = TRUE
INVARIANTS
    TypeOK
    NoHybrid
    ExactlyOnce
    NoNetWithoutConnection
    NoPanic
    EmitCase
CHECK_DEADLOCK FALSE
