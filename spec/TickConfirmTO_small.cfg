\* C12 TickOrder, 8-bit counter (two 4-bit limbs): all 256 ticks x all distances |d| < 128, exhaustive
SPECIFICATION Spec
CONSTANTS
  ImplBug_F6_Shl = FALSE
  ImplBug_F6_Range = FALSE
  OverflowChecks = TRUE
  LimbBits = 4
  BaseSet <- BaseAll
  XSet = {0}
  DSet <- DAllLegal
  Emit = FALSE
INVARIANTS C12_TO EmitCase
CHECK_DEADLOCK FALSE
