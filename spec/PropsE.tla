------------------------------- MODULE PropsE -------------------------------
(***************************************************************************)
(* Properties of remote events (C04, C05, C07 and the event half of C09)   *)
(* as monitors over the observed state, the ghost history and the          *)
(* observations of one step (messages put on the wire, events handed to    *)
(* game logic).  Used by the trace validator and by MC_Event.              *)
(***************************************************************************)
EXTENDS Props, Events

EvGhostInit ==
    [emitted |-> {},       \* [t, id, mode, to, e, allowed, must]  server events, at their emission frame
     sent |-> {},          \* [c, sess, t, id, stamp, e]           event messages put on the wire
     delivered |-> {},     \* [c, sess, t, id]                     handed to client game logic
     lastId |-> [c \in Client |-> [t \in SEvSet |-> 0]],           \* per-type FIFO watermark
     cemitted |-> {},      \* [c, sess, t, id, e, sendable]        client events at their emission frame
     sdelivered |-> {},    \* [c, t, id]                           handed to server game logic
     slastId |-> [c \in Client |-> [t \in CEvSet |-> 0]]]

ConnSess(st) == {<<c, st.ev.sess[c]>> : c \in {x \in Client : st.srv.cl[x].conn}}

\* recipients the statement allows / requires for a server event emitted in the frame that starts in `st`
Allowed(st, x) ==
    LET conn == {c \in Client : st.srv.cl[c].conn}
    IN CASE x.mode = "all"    -> conn
         [] x.mode = "except" -> conn \ {x.to}
         [] OTHER             -> IF x.to \in conn THEN {x.to} ELSE {}

----------------------------------------------------------------------------
(* observations of a server frame: `sentEv` = event messages of obs.sent as [c, t, id, stamp, e] *)

\* C04 (server half): a dependent event is stamped with the tick of the last update message sent to that client
C04_Stamp(obs, sentEv) ==
    \A m \in sentEv : ~Independent(m.t) => m.stamp = obs.srv.cl[m.c].updTick

\* C07: an unauthorized client is sent nothing but independent events
C07_Unauthorized(obs, sentAll) ==
    \A m \in sentAll : ~obs.srv.cl[m.c].auth => (m.ch = "ev" /\ Independent(m.t))

\* C05 (recipients): every event message goes to a client the send mode allows, that was connected
\* (in its current session) when the event was emitted
C05_Recipients(pre, gg, sentEv) ==
    \A m \in sentEv :
        \E x \in gg.emitted : x.t = m.t /\ x.id = m.id /\ <<m.c, pre.ev.sess[m.c]>> \in x.allowed

----------------------------------------------------------------------------
(* observations of a client frame: `dl` = sequence of deliveries [t, id, upd, e] at client c *)

Sess(st, c) == st.ev.sess[c]

\* C04 (client half): delivered only after the update tick it depends on; references resolved as sent
C04_Delivery(obs, gg, c, dl) ==
    \A i \in 1..Len(dl) :
        \E m \in gg.sent : /\ m.c = c /\ m.sess = Sess(obs, c) /\ m.t = dl[i].t /\ m.id = dl[i].id
                           /\ (~Independent(m.t) => dl[i].upd >= m.stamp)
                           /\ dl[i].e = m.e

\* C05 (client half): never twice, per-type FIFO, nothing that was not sent to this session
C05_Delivery(obs, gg, c, dl) ==
    /\ \A i \in 1..Len(dl) :
          /\ [c |-> c, sess |-> Sess(obs, c), t |-> dl[i].t, id |-> dl[i].id] \notin gg.delivered
          /\ \A j \in 1..Len(dl) : (i # j /\ dl[i].t = dl[j].t) => dl[i].id # dl[j].id
          /\ \E m \in gg.sent : m.c = c /\ m.sess = Sess(obs, c) /\ m.t = dl[i].t /\ m.id = dl[i].id
    /\ \A t \in {x \in SEvSet : ~Unreliable(x)} :         \* sending order on ordered channels
          LET s == SelectSeq(dl, LAMBDA d : d.t = t)
          IN /\ \A i \in 1..(Len(s) - 1) : s[i].id < s[i + 1].id
             /\ Len(s) > 0 => s[1].id > gg.lastId[c][t]

\* at quiescence: every reliable event reached each required recipient exactly once
\* (over an unreliable channel delivery is at most once: C05_Delivery alone applies)
C05_Complete(obs, gg) ==
    \A x \in {y \in gg.emitted : ~Unreliable(y.t)} : \A cs \in x.must :
        (obs.srv.cl[cs[1]].conn /\ obs.ev.sess[cs[1]] = cs[2] /\ obs.cli[cs[1]].status = "Connected") =>
            (\/ [c |-> cs[1], sess |-> cs[2], t |-> x.t, id |-> x.id] \in gg.delivered
             \/ ~(Refs(x) \subseteq DOMAIN obs.cli[cs[1]].ents))   \* withheld: unresolvable

----------------------------------------------------------------------------
(* client -> server events: `sdl` = sequence of deliveries [t, id, from, e] observed by server logic *)

C05_ServerDelivery(obs, gg, sdl) ==
    /\ \A i \in 1..Len(sdl) :
          /\ sdl[i].from \in Client
          /\ [c |-> sdl[i].from, t |-> sdl[i].t, id |-> sdl[i].id] \notin gg.sdelivered
          /\ \A j \in 1..Len(sdl) : (i # j /\ sdl[i].t = sdl[j].t) => sdl[i].id # sdl[j].id
          /\ \E y \in gg.cemitted : y.c = sdl[i].from /\ y.t = sdl[i].t /\ y.id = sdl[i].id /\ y.e = sdl[i].e
    /\ \A c \in Client, t \in {x \in CEvSet : ~Unreliable(x)} :
          LET s == SelectSeq(sdl, LAMBDA d : d.t = t /\ d.from = c)
          IN /\ \A i \in 1..(Len(s) - 1) : s[i].id < s[i + 1].id
             /\ Len(s) > 0 => s[1].id > gg.slastId[c][t]

C05_ServerComplete(obs, gg) ==
    \A y \in gg.cemitted :
        (y.sendable /\ ~Unreliable(y.t) /\ obs.srv.cl[y.c].conn /\ obs.ev.sess[y.c] = y.sess) =>
            [c |-> y.c, t |-> y.t, id |-> y.id] \in gg.sdelivered

----------------------------------------------------------------------------
(* ghost updates, shared by the trace validator (observations from the real apps) and MC_Event *)

\* sentEv: set of [c, t, id, stamp, e] put on the wire in this frame; sdl: deliveries to server logic
EvGhostSrvFrame(gg, pre, obs, sentEv, sdl) ==
    LET running == pre.srv.running
        newEmitted == {[t |-> x.t, id |-> x.id, mode |-> x.mode, to |-> x.to, e |-> x.e,
                        allowed |-> {<<c, pre.ev.sess[c]>> : c \in Allowed(pre, x)},
                        must |-> {<<c, pre.ev.sess[c]>> : c \in {y \in Allowed(pre, x) :
                                     pre.srv.cl[y].auth \/ Independent(x.t)}}]
                       : x \in IF running THEN SeqToSet(pre.ev.spend) ELSE {}}
    IN [gg EXCEPT !.emitted = @ \cup newEmitted,
                  !.sent = @ \cup {[c |-> m.c, sess |-> obs.ev.sess[m.c], t |-> m.t, id |-> m.id,
                                    stamp |-> m.stamp, e |-> m.e] : m \in sentEv},
                  !.sdelivered = @ \cup {[c |-> sdl[i].from, t |-> sdl[i].t, id |-> sdl[i].id] : i \in 1..Len(sdl)},
                  !.slastId = [c \in Client |-> [t \in CEvSet |->
                                 LET s == SelectSeq(sdl, LAMBDA d : d.t = t /\ d.from = c)
                                 IN IF Len(s) > 0 THEN s[Len(s)].id ELSE @[c][t]]]]

EvGhostCliFrame(gg, pre, obs, c, dl) ==
    LET connected == pre.cli[c].status = "Connected"
        newC == {[c |-> c, sess |-> pre.ev.sess[c], t |-> y.t, id |-> y.id, e |-> y.e,
                  sendable |-> connected /\ Resolvable(obs.cli[c], y)] : y \in SeqToSet(pre.ev.cpend[c])}
    IN [gg EXCEPT !.delivered = @ \cup {[c |-> c, sess |-> obs.ev.sess[c], t |-> dl[i].t, id |-> dl[i].id] : i \in 1..Len(dl)},
                  !.lastId[c] = [t \in SEvSet |->
                                   LET s == SelectSeq(dl, LAMBDA d : d.t = t)
                                   IN IF Len(s) > 0 THEN s[Len(s)].id ELSE @[t]],
                  !.cemitted = @ \cup newC]

EvGhostConnect(gg, c) == [gg EXCEPT !.lastId[c] = [t \in SEvSet |-> 0], !.slastId[c] = [t \in CEvSet |-> 0]]

=============================================================================
