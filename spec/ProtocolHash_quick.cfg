\* C14 quick tier: every valid registration sequence of length <= 2 over 9 kinds x 2 types x 2 priorities,
\* every single-step edit; handshake interleavings for all pairs with Len(s1) <= 1.
SPECIFICATION Spec
CONSTANTS
    NTypes = 2
    Prios = {1, 2}
    MaxLen = 2
    HsLen = 1
    HsFullLen = 1
    MaxCF = 3
    MaxSF = 2
    Mutation = "none"
    Emit = TRUE
INVARIANTS
    TypeOK
    HashProperty
    AuthOnlyOnMatch
    MismatchOnlyOnMismatch
    NotBoth
    NotifiedImpliesRequested
    DecidedOutcome
    InformedOutcome
    OutcomeMatches
    EmitPairs
    EmitHs
CHECK_DEADLOCK FALSE
