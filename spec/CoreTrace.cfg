SPECIFICATION Spec
INVARIANT Done
CHECK_DEADLOCK FALSE
