----------------------------- MODULE VisMachine -----------------------------
(***************************************************************************)
(* The visibility bookkeeping of one client (ClientVisibility, transcribed *)
(* in Core and bound to the code by trace validation) as a machine of its  *)
(* own: set_visibility calls, spawns, despawns and server frames in any    *)
(* order and number.  For a fixed set of entity names the state space is   *)
(* finite, so TLC decides the invariants for histories of every length     *)
(* (the bounded models of MC_Core only reach a few operations).            *)
(*                                                                         *)
(*  Query   the visibility query reports the last set_visibility argument  *)
(*          of every living entity (the policy default before any call);   *)
(*  Held    after every server frame the client holds exactly the living   *)
(*          entities visible to it: gaining visibility sends the entity in *)
(*          full, losing it (or the entity's despawn) sends a despawn.     *)
(***************************************************************************)
EXTENDS Core

\* as-found variants that must violate the invariants (non-vacuity)
ImplVF2  == [ImplDesigned EXCEPT !.noLostDespawnHidden = TRUE]
ImplVF14 == [ImplDesigned EXCEPT !.whiteReAddForgetsLost = TRUE]

CONSTANT Marks      \* TRUE: the replication marker may be removed from / given back to a living entity (F20)

VARIABLES vis, alive, fresh, desp, held, lastSet, unrepl
vmvars == <<vis, alive, fresh, desp, held, lastSet, unrepl>>

Default == Policy = "black"

VMInit ==
    /\ vis = [kind |-> Policy, list |-> EmptyFn, added |-> {}, removed |-> {}]
    /\ alive = {} /\ fresh = {} /\ desp = EmptyFn /\ held = {}
    /\ lastSet = [e \in Ent |-> Default]
    /\ unrepl = {}

\* a name is reused only when nothing remembers its previous holder (a new Entity id in reality)
VMSpawn(e) ==
    /\ e \notin alive /\ e \notin unrepl /\ e \notin DOMAIN desp /\ e \notin held /\ e \notin DOMAIN vis.list
    /\ alive' = alive \cup {e} /\ fresh' = fresh \cup {e}
    /\ lastSet' = [lastSet EXCEPT ![e] = Default]
    /\ UNCHANGED <<vis, desp, held, unrepl>>

VMDespawn(e) ==
    /\ e \in alive
    /\ alive' = alive \ {e} /\ fresh' = fresh \ {e}
    \* the despawn of an entity that was never sent is still buffered (the observer does not know the clients)
    /\ desp' = With(desp, e, 1)
    /\ UNCHANGED <<vis, held, lastSet, unrepl>>

\* the marker is removed from a living entity (buffered like a despawn) and may be given back later
VMUnmark(e) ==
    /\ Marks /\ e \in alive
    /\ alive' = alive \ {e} /\ fresh' = fresh \ {e} /\ unrepl' = unrepl \cup {e}
    /\ desp' = With(desp, e, 1)
    /\ UNCHANGED <<vis, held, lastSet>>
VMMark(e) ==
    /\ Marks /\ e \in unrepl /\ e \notin DOMAIN desp
    /\ alive' = alive \cup {e} /\ fresh' = fresh \cup {e} /\ unrepl' = unrepl \ {e}
    /\ UNCHANGED <<vis, desp, held, lastSet>>

VMSetVis(e, v) ==
    /\ e \in alive \cup unrepl
    /\ vis' = SetVisibility(vis, e, v)
    /\ lastSet' = [lastSet EXCEPT ![e] = v]
    /\ UNCHANGED <<alive, fresh, desp, held, unrepl>>

\* one server frame with a tick: collect_despawns, then changes for the visible entities
VMFrame ==
    LET r == CollectDespawnsFor([despawnBuf |-> desp], [vis |-> vis, mutTick |-> EmptyFn])
        full == {e \in alive : (e \in fresh /\ IsVisible(r.vis, e)) \/ VisState(r.vis, e) = "Gained"}
    IN /\ held' = (held \ DOMAIN r.desp) \cup full
       /\ vis' = VisCommit(r.vis)
       /\ desp' = EmptyFn /\ fresh' = {}
       /\ UNCHANGED <<alive, lastSet, unrepl>>

VMNext == \/ \E e \in Ent : VMSpawn(e) \/ VMDespawn(e) \/ VMUnmark(e) \/ VMMark(e)
          \/ \E e \in Ent, v \in BOOLEAN : VMSetVis(e, v)
          \/ VMFrame
VMSpec == VMInit /\ [][VMNext]_vmvars

Query == \A e \in alive \cup unrepl : IsVisible(vis, e) = lastSet[e]

\* between frames nothing is pending <=> the client's set is exact
AtFrameBoundary == fresh = {} /\ desp = EmptyFn /\ vis.added = {} /\ vis.removed = {}
                   /\ \A e \in DOMAIN vis.list : vis.list[e] = 0
HeldExact == AtFrameBoundary => held = {e \in alive : IsVisible(vis, e)}

\* the same against the user's last word instead of the query: a client never holds an entity whose last
\* set_visibility argument hid it (with Marks this fails: F20 - a hidden entity is replicated after re-marking)
HeldTruth == AtFrameBoundary => held = {e \in alive : lastSet[e]}

\* bookkeeping shape: the lists never mention an entity the machine has forgotten
Shape == /\ vis.added \subseteq DOMAIN vis.list \/ vis.kind = "white"
         /\ DOMAIN vis.list \subseteq alive \cup unrepl \cup DOMAIN desp

=============================================================================
