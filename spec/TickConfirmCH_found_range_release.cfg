\* C12 ConfirmHistory with contains_any as found ((1 << len) - 1), release arithmetic: TLC must find a violation (wrong answer)
SPECIFICATION Spec
CONSTANTS
  ImplBug_F6_Shl = FALSE
  ImplBug_F6_Range = TRUE
  OverflowChecks = FALSE
  LimbBits = 16
  N = 2
  Deltas <- DeltasFull
  QAgo <- QAgoFull
  Emit = FALSE
INVARIANTS C12_CH NoPanic EmitInit
ACTION_CONSTRAINT EmitEdge
CHECK_DEADLOCK FALSE
