SPECIFICATION SpecC
CONSTANTS
    Chan = {0, 1, 2}
    Peer = {1}
    MaxOps = 4
    Impl = "Design"
INVARIANT Inv
INVARIANT Export
CHECK_DEADLOCK FALSE
