----------------------------- MODULE TickConfirmMT -----------------------------
(***************************************************************************)
(* C12 / ServerMutateTicks: bounded instance.                              *)
(*                                                                         *)
(* Behaviours: ServerMutateTicks::default() (last tick 0, nothing          *)
(* received) -- or, when `anch`, that state after confirm(0, 1) -- then up *)
(* to N calls confirm(last + delta, k).  Inputs are the legal ones (doc    *)
(* comment of `confirm`): every message of one tick carries the same count *)
(* k (1..KMax) and a tick never gets more than k messages.  After every    *)
(* step the ring as implemented must answer last_tick, mask, every point   *)
(* and range query over the boundary set exactly as the plain set of fully *)
(* received ticks does, no debug assertion may fire, and `confirm` must    *)
(* return TRUE exactly when the tick became complete (inside the window;   *)
(* for a tick already older than the window the property leaves the return *)
(* value free: "*").                                                       *)
(*                                                                         *)
(* `anch` exists for the replay: a fresh tracker has last tick 0, so the   *)
(* un-anchored cases run at base 0 only; anchored cases run at every base  *)
(* (the replayer moves the real tracker to `base` with confirm(base, 1)).  *)
(***************************************************************************)
EXTENDS TickConfirm, TLC, Json, SequencesExt

CONSTANTS N, KMax, Deltas, QAgo, Emit

DeltasFull    == {-129, -128, -127, -66, -65, -64, -63, -62, -33, -32, -31, -2, -1, 0,
                  1, 2, 31, 32, 33, 62, 63, 64, 65, 66, 127, 128, 129}
DeltasMid     == {-65, -64, -63, -33, -32, -1, 0, 1, 2, 31, 32, 33, 63, 64, 65, 128}
DeltasReduced == {-64, -63, -1, 0, 1, 2, 63, 64, 65}
QAgoFull      == {-2, -1, 0, 1, 2, 31, 32, 33, 62, 63, 64, 65, 66, 127, 128, 129}

VARIABLES anch,   \* initial state is default() followed by confirm(0, 1)
          hist,   \* <<<<t1, k1>>, ..., <<tn, kn>>>>: the confirm calls (tick offsets)
          m,      \* ServerMutateTicks as implemented
          r,      \* reference: messages sent / received per tick
          ret,    \* what the last confirm returned (as implemented)
          exp     \* what it must return: "T", "F" or "*" (free)
vars == <<anch, hist, m, r, ret, exp>>

Init ==
    /\ anch \in BOOLEAN
    /\ hist = <<>>
    /\ m = IF anch THEN MT_Confirm(MT_Default, 0, 1).m ELSE MT_Default
    /\ r = IF anch THEN MTRef_Confirm(MTRef_Default, 0, 1) ELSE MTRef_Default
    /\ ret = FALSE
    /\ exp = "*"

Legal(t, k) == IF MTRef_Known(r, t) THEN k = r.sent[t] /\ r.rcv[t] < r.sent[t] ELSE TRUE

Confirm(d, k) ==
    LET t  == r.last + d
        c  == MT_Confirm(m, t, k)
        r2 == MTRef_Confirm(r, t, k)
        inWindow == r2.last - t < W
        complete == r2.rcv[t] = r2.sent[t]
    IN  /\ Legal(t, k)
        /\ hist' = Append(hist, <<t, k>>)
        /\ m' = c.m
        /\ r' = r2
        /\ ret' = c.ret
        /\ exp' = IF ~complete THEN "F" ELSE IF inWindow THEN "T" ELSE "*"
        /\ UNCHANGED anch

Next == Len(hist) < N /\ \E d \in Deltas, k \in 1 .. KMax : Confirm(d, k)

Spec == Init /\ [][Next]_vars

------------------------------------------------------------------------------
RS == MTRef_Set(r)
QP(rr) == {rr.last - a : a \in QAgo} \cup DOMAIN rr.sent

LastOK   == m.last = r.last
NoAssert == ~m.assert
MaskOK   == MT_Mask(m) = Ref_Mask(RS)
PointOK  == \A t \in QP(r) : MT_Contains(m, t) = Ref_Contains(RS, t)
RangeOK  == \A a, b \in QP(r) : a <= b => MT_ContainsAny(m, a, b) = BoolStr(Ref_ContainsAny(RS, a, b))
RetOK    == exp = "*" \/ BoolStr(ret) = exp

C12_MT == LastOK /\ NoAssert /\ MaskOK /\ PointOK /\ RangeOK /\ RetOK

------------------------------------------------------------------------------
B01(b) == IF b THEN 1 ELSE 0
CaseRec(aa, hh, rr, ee) ==
    LET qp == SetToSortSeq(QP(rr), LAMBDA x, y : x < y)
        n  == Len(qp)
        rs == MTRef_Set(rr)
    IN  [m    |-> "MT",
         anch |-> aa,
         hist |-> hh,
         ret  |-> ee,
         last |-> rr.last,
         mask |-> SetToSortSeq(Ref_Mask(rs), LAMBDA x, y : x < y),
         qp   |-> qp,
         pt   |-> [i \in 1 .. n |-> B01(Ref_Contains(rs, qp[i]))],
         rg   |-> [i \in 1 .. n |-> [j \in 1 .. (n - i + 1) |-> B01(Ref_ContainsAny(rs, qp[i], qp[i + j - 1]))]]]

EmitInit == (Emit /\ Len(hist) = 0) => PrintT(<<"CASE", ToJson(CaseRec(anch, hist, r, exp))>>)
EmitEdge == Emit => PrintT(<<"CASE", ToJson(CaseRec(anch', hist', r', exp'))>>)
=============================================================================
