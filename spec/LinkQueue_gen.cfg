\* behaviour export: every complete schedule (receiver frames read all that is on the wire) with the expected deliveries.
CONSTANTS
    NumChannels = 2
    MaxMsgs = 4
    Delays = {0}
    MaxClock = 4
    ImplBug_F7 = FALSE
    PartialReads = FALSE
    Gen = TRUE
    PermSizes = {}
SPECIFICATION Spec
CHECK_DEADLOCK FALSE
INVARIANTS EmitCase
