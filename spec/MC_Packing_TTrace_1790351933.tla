---- MODULE MC_Packing_TTrace_1790351933 ----
EXTENDS Sequences, TLCExt, Toolbox, Naturals, TLC, MC_Packing

_expression ==
    LET MC_Packing_TEExpression == INSTANCE MC_Packing_TEExpression
    IN MC_Packing_TEExpression!expression
----

_trace ==
    LET MC_Packing_TETrace == INSTANCE MC_Packing_TETrace
    IN MC_Packing_TETrace!trace
----

_inv ==
    ~(
        TLCGet("level") = Len(_TETrace)
        /\
        sizes = (<<4, 12>>)
        /\
        H = (5)
        /\
        track = (TRUE)
    )
----

_init ==
    /\ H = _TETrace[1].H
    /\ track = _TETrace[1].track
    /\ sizes = _TETrace[1].sizes
----

_next ==
    /\ \E i,j \in DOMAIN _TETrace:
        /\ \/ /\ j = i + 1
              /\ i = TLCGet("level")
        /\ H  = _TETrace[i].H
        /\ H' = _TETrace[j].H
        /\ track  = _TETrace[i].track
        /\ track' = _TETrace[j].track
        /\ sizes  = _TETrace[i].sizes
        /\ sizes' = _TETrace[j].sizes

\* Uncomment the ASSUME below to write the states of the error trace
\* to the given file in Json format. Note that you can pass any tuple
\* to `JsonSerialize`. For example, a sub-sequence of _TETrace.
    \* ASSUME
    \*     LET J == INSTANCE Json
    \*         IN J!JsonSerialize("MC_Packing_TTrace_1790351933.json", _TETrace)

=============================================================================

 Note that you can extract this module `MC_Packing_TEExpression`
  to a dedicated file to reuse `expression` (the module in the 
  dedicated `MC_Packing_TEExpression.tla` file takes precedence 
  over the module `MC_Packing_TEExpression` below).

---- MODULE MC_Packing_TEExpression ----
EXTENDS Sequences, TLCExt, Toolbox, Naturals, TLC, MC_Packing

expression == 
    [
        \* To hide variables of the `MC_Packing` spec from the error trace,
        \* remove the variables below.  The trace will be written in the order
        \* of the fields of this record.
        H |-> H
        ,track |-> track
        ,sizes |-> sizes
        
        \* Put additional constant-, state-, and action-level expressions here:
        \* ,_stateNumber |-> _TEPosition
        \* ,_HUnchanged |-> H = H'
        
        \* Format the `H` variable as Json value.
        \* ,_HJson |->
        \*     LET J == INSTANCE Json
        \*     IN J!ToJson(H)
        
        \* Lastly, you may build expressions over arbitrary sets of states by
        \* leveraging the _TETrace operator.  For example, this is how to
        \* count the number of times a spec variable changed up to the current
        \* state in the trace.
        \* ,_HModCount |->
        \*     LET F[s \in DOMAIN _TETrace] ==
        \*         IF s = 1 THEN 0
        \*         ELSE IF _TETrace[s].H # _TETrace[s-1].H
        \*             THEN 1 + F[s-1] ELSE F[s-1]
        \*     IN F[_TEPosition - 1]
    ]

=============================================================================



Parsing and semantic processing can take forever if the trace below is long.
 In this case, it is advised to uncomment the module below to deserialize the
 trace from a generated binary file.

\*
\*---- MODULE MC_Packing_TETrace ----
\*EXTENDS IOUtils, TLC, MC_Packing
\*
\*trace == IODeserialize("MC_Packing_TTrace_1790351933.bin", TRUE)
\*
\*=============================================================================
\*

---- MODULE MC_Packing_TETrace ----
EXTENDS TLC, MC_Packing

trace == 
    <<
    ([sizes |-> <<>>,H |-> 5,track |-> TRUE]),
    ([sizes |-> <<4>>,H |-> 5,track |-> TRUE]),
    ([sizes |-> <<4, 12>>,H |-> 5,track |-> TRUE])
    >>
----


=============================================================================

---- CONFIG MC_Packing_TTrace_1790351933 ----
CONSTANTS
    Alphabet = { 0 , 1 , 4 , 7 , 8 , 9 , 12 , 15 , 16 , 17 , 20 , 30 , 33 }
    MaxLen = 5
    Mtu = 20
    Headers = { 4 , 5 }
    Variant = "never_split"

INVARIANT
    _inv

CHECK_DEADLOCK
    \* CHECK_DEADLOCK off because of PROPERTY or INVARIANT above.
    FALSE

INIT
    _init

NEXT
    _next

CONSTANT
    _TETrace <- _trace

ALIAS
    _expression
=============================================================================
\* Generated on Fri Sep 25 15:58:54 UTC 2026