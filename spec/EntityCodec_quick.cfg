\* C15 quick tier: all three families, as designed
SPECIFICATION Spec
CHECK_DEADLOCK FALSE
CONSTANTS
  ImplBug_F16 = FALSE
  Families = {"rt", "fields", "bytes"}
  IdxClasses <- IdxQuick
  GenClasses <- GenQuick
  Prefixes <- PrefixesQuick
  Suffixes <- SuffixesQuick
  FlagRaw <- FlagRawQuick
  FIdxClasses <- FIdxQuick
  GenRaw <- GenRawQuick
  Shapes <- ShapesAll
  FSuffixes <- FSuffixesQuick
  Alphabet <- AlphabetQuick
  MaxLen = 3
  Emit = TRUE
INVARIANTS
  Total
  Lossless
  RoundTrip
  EmitCase
