SPECIFICATION SpecS
CONSTANTS
    Chan = {0}
    Peer = {1}
    MaxOps = 5
    Impl = "KeepOnStop"
INVARIANT Inv
VIEW View
CHECK_DEADLOCK FALSE
