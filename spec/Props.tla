-------------------------------- MODULE Props --------------------------------
(***************************************************************************)
(* The listed properties of the replication core as formulas over the      *)
(* state record `st` of Core and a ghost record `g` (history that only the *)
(* properties need).  Used unchanged by the model-checking specs and by    *)
(* the trace validator, where `st` is the state *observed* in the real     *)
(* apps, so the formulas are monitors that do not depend on the model of   *)
(* the mechanism.                                                          *)
(***************************************************************************)
EXTENDS Core

(* ghost: per replication tick a snapshot of the replicated world and of each client's visible set *)
GhostInit ==
    [snap  |-> EmptyFn,                     \* tick |-> [e |-> [k |-> val]] for replicated entities
     visAt |-> EmptyFn,                     \* tick |-> [c |-> set of entities visible to c]
     lastSet |-> [c \in Client |-> EmptyFn],\* most recent set_visibility argument per live entity
     mapsSent |-> [c \in Client |-> {}],    \* [e, p, tick] of every mapping put on the wire
     onceSent |-> [c \in Client |-> {}],    \* [e, k, tick, val] of every once-component put on the wire in full
     sentAtRest |-> 0]                      \* replication messages sent by the most recent server frame

WorldValues(srv) == [e \in ReplEnts(srv) |-> [k \in DOMAIN srv.world[e].comps |-> srv.world[e].comps[k].val]]

VisibleNow(srv, c) ==
    IF srv.cl[c].conn /\ srv.cl[c].auth THEN {e \in ReplEnts(srv) : IsVisible(srv.cl[c].vis, e)} ELSE {}

\* called after a server frame in which send_replication ran (post-frame state)
GhostSnap(g, st) ==
    [g EXCEPT !.snap = With(@, st.srv.tick, WorldValues(st.srv)),
              !.visAt = With(@, st.srv.tick, [c \in Client |-> VisibleNow(st.srv, c)])]

\* mappings carried by the update messages appended to the channels between two states
GhostMaps(g, before, after) ==
    LET new(c) == {after.net[c].upd[i] : i \in (Len(before.net[c].upd) + 1)..Len(after.net[c].upd)}
    IN [g EXCEPT !.mapsSent = [c \in Client |->
                    @[c] \cup UNION {{[e |-> mp[1], p |-> mp[2], tick |-> m.tick] : mp \in m.maps} : m \in new(c)}],
                 !.onceSent = [c \in Client |->
                    @[c] \cup UNION {UNION {{[e |-> e, k |-> k, tick |-> m.tick, val |-> m.chg[e][k]]
                                             : k \in {x \in DOMAIN m.chg[e] : Rate(x) = "once"}}
                                            : e \in DOMAIN m.chg} : m \in new(c)}]]

GhostSetVis(g, c, e, v) == [g EXCEPT !.lastSet[c] = With(@, e, v)]

----------------------------------------------------------------------------
\* a pre-spawned entity adopted through a mapping whose server entity has not been replicated to the
\* client yet (no confirmed tick) is not part of the replicated view
\* and neither is a placeholder reserved for an entity that was only referenced (no marker, no tick)
Pending(ent) == ent.hist < 0 /\ (ent.pre # None \/ ~ent.marker)
Held(st, c) == {e \in DOMAIN st.cli[c].ents : st.cli[c].ents[e].alive /\ ~Pending(st.cli[c].ents[e])}
View(st, c) == [e \in Held(st, c) |-> st.cli[c].ents[e].comps]

Active(st, c) == st.srv.cl[c].conn /\ st.srv.cl[c].auth /\ st.cli[c].status = "Connected"

(* C01: at quiescence the view equals the server's visible replicated world
   (components replicated once: presence only; their value is C02's business) *)
Converged(st, c) ==
    LET truth == Restrict(WorldValues(st.srv), VisibleNow(st.srv, c))
        view == View(st, c)
    IN /\ DOMAIN view = DOMAIN truth
       /\ \A e \in DOMAIN view \cap DOMAIN truth :
             /\ DOMAIN view[e] = DOMAIN truth[e]
             /\ \A k \in DOMAIN view[e] \cap DOMAIN truth[e] : Rate(k) # "once" => view[e][k] = truth[e][k]

C01_AtQuiescence(st) == \A c \in Client : Active(st, c) => Converged(st, c)

NoPanic(st) == \A c \in Client : ~st.cli[c].panicked

(* C02: the state of an entity equals the server's at the tick the client reports as confirmed *)
C02_Entity(st, g, c, e) ==
    LET h == st.cli[c].ents[e].hist
    IN h >= 0 =>
         /\ h \in DOMAIN g.snap
         /\ e \in DOMAIN g.snap[h] =>
               \A k \in DOMAIN View(st, c)[e] \cap DOMAIN g.snap[h][e] :
                   Rate(k) = "every" => View(st, c)[e][k] = g.snap[h][e][k]

\* a component replicated once holds the value of the most recent full send the client has applied
C02_Once(st, g, c, e) ==
    \A k \in {x \in DOMAIN View(st, c)[e] : Rate(x) = "once"} :
        LET cands == {x \in g.onceSent[c] : x.e = e /\ x.k = k /\ x.tick <= st.cli[c].updTick}
        IN /\ cands # {}
           /\ View(st, c)[e][k] = (CHOOSE x \in cands : \A y \in cands : y.tick <= x.tick).val

C02(st, g) == \A c \in Client : Active(st, c) =>
                 \A e \in Held(st, c) : C02_Entity(st, g, c, e) /\ C02_Once(st, g, c, e)

C02_MonoStep(st, st2) ==
    \A c \in Client : (Active(st, c) /\ Active(st2, c)) =>
        \A e \in Held(st, c) \cap Held(st2, c) : st2.cli[c].ents[e].hist >= st.cli[c].ents[e].hist

(* C03: structure at the client's update tick *)
Struct(f) == [e \in DOMAIN f |-> DOMAIN f[e]]

C03_Client(st, g, c) ==
    LET T == st.cli[c].updTick
    IN \* before the first update message of a session the client reports tick 0 and must hold nothing
       /\ IF T \in DOMAIN g.snap
          THEN Struct(View(st, c)) = Struct(Restrict(g.snap[T], g.visAt[T][c]))
          ELSE T = 0 /\ Held(st, c) = {}
       /\ \A e \in Held(st, c) : st.cli[c].ents[e].marker
       /\ \A e \in DOMAIN st.cli[c].ents : st.cli[c].ents[e].alive \/ st.cli[c].ents[e].pre # None   \* no dangling map entries (a pre-spawned entity the client killed itself excepted)
       /\ st.cli[c].extra = 0                                          \* no replicated entity outside the map

C03(st, g) == \A c \in Client : Active(st, c) => C03_Client(st, g, c)

C03_MonoStep(st, st2) ==
    \A c \in Client : (Active(st, c) /\ Active(st2, c)) => st2.cli[c].updTick >= st.cli[c].updTick

(* C08: no message in flight to c carries data of an entity hidden from c at the message's tick *)
AllUpd(st, c) == SeqToSet(st.net[c].upd) \cup SeqToSet(st.net[c].rxUpd)
AllMut(st, c) == SeqToSet(st.net[c].mut) \cup SeqToSet(st.net[c].rxMut)

C08_Data(st, g) ==
    \A c \in Client :
        /\ \A m \in AllUpd(st, c) : m.tick \in DOMAIN g.visAt => DOMAIN m.chg \subseteq g.visAt[m.tick][c]
        /\ \A m \in AllMut(st, c) : m.tick \in DOMAIN g.visAt => DOMAIN m.ents \subseteq g.visAt[m.tick][c]

C08_Query(st, g) ==
    \A c \in Client : (st.srv.cl[c].conn /\ st.srv.cl[c].auth /\ Policy # "all") =>
        \A e \in Ent : st.srv.world[e].alive =>
            IsVisible(st.srv.cl[c].vis, e) = Get(g.lastSet[c], e, Policy = "black")

(* C16: replication for a mapped server entity lands on the pre-spawned client entity, exactly once *)
C16(st, g) ==
    \A c \in Client : Active(st, c) =>
        /\ \A e1, e2 \in DOMAIN st.cli[c].ents :
              (e1 # e2 /\ st.cli[c].ents[e1].pre # None) => st.cli[c].ents[e1].pre # st.cli[c].ents[e2].pre
        /\ \A mp \in g.mapsSent[c] :
              \* the mapping has been applied, the pre-spawned entity is still there and so is the server entity
              (mp.tick <= st.cli[c].updTick /\ Get(st.cli[c].pre, mp.p, FALSE) /\ mp.e \in DOMAIN st.cli[c].ents)
                  => st.cli[c].ents[mp.e].pre = mp.p
        /\ st.cli[c].extra = 0

(* C11 (idle half): with everything acknowledged and nothing changed a tick sends nothing *)
C11_SilentAtRest(g) == Track \/ g.sentAtRest = 0

=============================================================================
