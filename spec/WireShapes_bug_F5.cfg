\* C06 non-vacuity: the mechanism as found on the pinned tree (F5) must violate JunkSafe
SPECIFICATION Spec
CHECK_DEADLOCK FALSE
CONSTANTS
  ImplBug_F5 = TRUE
  ImplBug_F10 = FALSE
  ImplBug_F16 = FALSE
  Wide = FALSE
  FullProduct = FALSE
  Deep = FALSE
  Emit = FALSE
INVARIANTS
  JunkSafeInv
  OthersUntouched
  SpliceConsistent
PROPERTIES
  JunkSafe
