----------------------------- MODULE LinkQueue -----------------------------
(***************************************************************************)
(* C17 - the example transport (bevy_replicon_example_backend) preserves   *)
(* per-channel order and delivers exactly once.                            *)
(*                                                                         *)
(* One direction of one link (the two directions and every client have     *)
(* their own stream and their own LinkConditioner; the code is the same):  *)
(*                                                                         *)
(*   sender:   RepliconServer/RepliconClient::send  -> `outbox`            *)
(*             send_packets (PostUpdate)            -> tcp::send_message,  *)
(*               one write per message: channel byte, u16 LE length, body  *)
(*               appended to the TCP stream `wire` (a byte sequence)       *)
(*   receiver: receive_packets (PreUpdate): now = Instant::now();          *)
(*               loop tcp::read_message -> conditioner.insert(cfg, now,..) *)
(*               while conditioner.pop(now) -> insert_received(ch, msg)    *)
(*                                                                         *)
(* (a) Reference: `sent[c]` - what was handed to the backend on channel c, *)
(*     in order.  The property: `recvd[c]` is always a prefix of `sent[c]` *)
(*     and equals it once nothing is in flight.                            *)
(* (b) Mechanism as implemented: LinkConditioner::heap is a                *)
(*     std::collections::BinaryHeap<TimedMessage>; push / pop are          *)
(*     transcribed from alloc::collections::binary_heap (sift_up,          *)
(*     sift_down_to_bottom, rustc 1.95) over the crate's `Ord` impl.       *)
(*     ImplBug_F7 = TRUE : `Ord` compares the timestamp only (tree as      *)
(*                         found, finding F7)                              *)
(*     ImplBug_F7 = FALSE: `Ord` compares (timestamp, insertion sequence)  *)
(*                         (intended design: a stable time-ordered queue)  *)
(*                                                                         *)
(* Partial availability of a message body is not modelled: both ends are   *)
(* the example backend on loopback, send_message issues one write per      *)
(* message (a short write disconnects), so read_message never observes a   *)
(* header without its body.  A receiver frame may however find any number  *)
(* of whole messages (PartialReads).                                       *)
(***************************************************************************)
EXTENDS Naturals, Sequences, FiniteSets, TLC, Json

CONSTANTS
    NumChannels,    \* channels are 0 .. NumChannels-1
    MaxMsgs,        \* messages sent in one behaviour
    Delays,         \* delays (clock units) the conditioner may add on insert; {0} = no conditioner
    MaxClock,       \* bound of the receiver's clock
    ImplBug_F7,     \* TRUE = heap keyed by timestamp only (code as found)
    PartialReads,   \* TRUE = a receiver frame may read any number of the whole messages on the wire
    Gen,            \* TRUE = record the schedule in `hist` and print one CASE per quiescent state
    PermSizes       \* sizes n for which the heap's pop order of n equal keys is printed (PERM lines)

Channels == 0 .. (NumChannels - 1)

VARIABLES
    sent,       \* reference: [Channels -> Seq(payload)]
    total,      \* number of messages sent so far
    outbox,     \* Replicon{Server,Client}::sent_messages : Seq([ch, payload])
    wire,       \* the TCP stream: Seq(byte)
    heap,       \* LinkConditioner::heap.data : Seq([ts, seq, ch, payload]) in array order
    nextSeq,    \* insertion counter of the conditioner (used by the design variant only)
    now,        \* the receiver's clock at its last frame
    recvd,      \* Replicon{Client,Server}::received_messages : [Channels -> Seq(payload)]
    maxFrame,   \* statistics: largest number of messages read by one receiver frame
    hist        \* the schedule so far (only when Gen)

vars == <<sent, total, outbox, wire, heap, nextSeq, now, recvd, maxFrame, hist>>

---------------------------------------------------------------------------
(* Payloads.  Message number id carries id as every byte; its length is    *)
(* id % 4, so message 4 is empty (header only) and all payloads differ.    *)
Payload(id) == [i \in 1 .. (id % 4) |-> id]

---------------------------------------------------------------------------
(* tcp.rs framing *)

\* send_message: [channel_id as u8] ++ (len as u16).to_le_bytes() ++ message
Encode(m) == <<m.ch, Len(m.payload) % 256, Len(m.payload) \div 256>> \o m.payload

RECURSIVE EncodeAll(_)
EncodeAll(ms) == IF ms = <<>> THEN <<>> ELSE Encode(Head(ms)) \o EncodeAll(Tail(ms))

\* read_message: peek 3 bytes; channel = header[0]; size = u16::from_le_bytes(header[1..3]);
\* read_exact(3 + size); advance(3)
HeaderSize == 3
CanRead(w) == Len(w) >= HeaderSize /\ Len(w) >= HeaderSize + w[2] + 256 * w[3]
ReadMsg(w) ==
    LET size == w[2] + 256 * w[3]
    IN  [msg  |-> [ch |-> w[1], payload |-> SubSeq(w, HeaderSize + 1, HeaderSize + size)],
         rest |-> SubSeq(w, HeaderSize + size + 1, Len(w))]

RECURSIVE CountMsgs(_)
CountMsgs(w) == IF CanRead(w) THEN 1 + CountMsgs(ReadMsg(w).rest) ELSE 0

---------------------------------------------------------------------------
(* impl Ord for TimedMessage + std BinaryHeap (0-based positions on a 1-based Seq) *)

At(d, i) == d[i + 1]
Set(d, i, e) == [d EXCEPT ![i + 1] = e]
SatSub(a, b) == IF a >= b THEN a - b ELSE 0

\* Rust `a <= b` (PartialOrd::le through Ord::cmp).
\* as found:   a.cmp(b) = b.timestamp.cmp(a.timestamp)
\* as designed: a.cmp(b) = (b.timestamp, b.seq).cmp((a.timestamp, a.seq))
LE(a, b) ==
    IF ImplBug_F7
    THEN b.ts <= a.ts
    ELSE b.ts < a.ts \/ (b.ts = a.ts /\ b.seq <= a.seq)

\* sift_up(start, pos) with the element e taken out of position pos (the "hole")
RECURSIVE SiftUp(_, _, _, _)
SiftUp(d, e, start, pos) ==
    IF pos > start
    THEN LET parent == (pos - 1) \div 2
         IN  IF LE(e, At(d, parent))
             THEN Set(d, pos, e)
             ELSE SiftUp(Set(d, pos, At(d, parent)), e, start, parent)
    ELSE Set(d, pos, e)

\* BinaryHeap::push
Push(d, e) == SiftUp(Append(d, e), e, 0, Len(d))

\* the loop of sift_down_to_bottom: moves the hole to the bottom along the greater children
RECURSIVE SiftDownLoop(_, _, _)
SiftDownLoop(d, pos, end) ==
    LET child == 2 * pos + 1
    IN  IF child <= SatSub(end, 2)
        THEN LET c == IF LE(At(d, child), At(d, child + 1)) THEN child + 1 ELSE child
             IN  SiftDownLoop(Set(d, pos, At(d, c)), c, end)
        ELSE IF child = end - 1
             THEN [d |-> Set(d, pos, At(d, child)), pos |-> child]
             ELSE [d |-> d, pos |-> pos]

SiftDownToBottom(d, start) ==
    LET e == At(d, start)
        r == SiftDownLoop(d, start, Len(d))
    IN  SiftUp(r.d, e, start, r.pos)

\* BinaryHeap::pop on a non-empty heap
Pop(d) ==
    LET n    == Len(d)
        last == d[n]
        d1   == SubSeq(d, 1, n - 1)
    IN  IF d1 = <<>>
        THEN [item |-> last, heap |-> <<>>]
        ELSE [item |-> d1[1], heap |-> SiftDownToBottom(Set(d1, 0, last), 0)]

---------------------------------------------------------------------------
(* receive_packets *)

\* loop { read_message -> conditioner.insert(config, now, channel, message) }, k messages;
\* ds[i] is the delay the conditioner adds to the i-th of them (0 without a conditioner)
RECURSIVE ReadLoop(_, _, _, _, _, _)
ReadLoop(w, h, sq, t, ds, k) ==
    IF k = 0
    THEN [wire |-> w, heap |-> h, seq |-> sq]
    ELSE LET r == ReadMsg(w)
             e == [ts |-> t + Head(ds), seq |-> sq, ch |-> r.msg.ch, payload |-> r.msg.payload]
         IN  ReadLoop(r.rest, Push(h, e), sq + 1, t, Tail(ds), k - 1)

\* while let Some((ch, msg)) = conditioner.pop(now) { insert_received(ch, msg) }
\* pop: heap.peek().is_some_and(|m| now >= m.timestamp) then heap.pop()
RECURSIVE PopLoop(_, _, _)
PopLoop(h, t, rc) ==
    IF h # <<>> /\ t >= h[1].ts
    THEN LET p == Pop(h)
         IN  PopLoop(p.heap, t, [rc EXCEPT ![p.item.ch] = Append(@, p.item.payload)])
    ELSE [heap |-> h, recvd |-> rc]

---------------------------------------------------------------------------
Init ==
    /\ sent = [c \in Channels |-> <<>>]
    /\ total = 0
    /\ outbox = <<>>
    /\ wire = <<>>
    /\ heap = <<>>
    /\ nextSeq = 0
    /\ now = 0
    /\ recvd = [c \in Channels |-> <<>>]
    /\ maxFrame = 0
    /\ hist = <<>>

Log(e) == hist' = IF Gen THEN Append(hist, e) ELSE hist

\* the application hands a message to the backend (RepliconServer::send / RepliconClient::send)
Send(c) ==
    /\ total < MaxMsgs
    /\ LET p == Payload(total + 1)
       IN  /\ outbox' = Append(outbox, [ch |-> c, payload |-> p])
           /\ sent' = [sent EXCEPT ![c] = Append(@, p)]
           /\ Log([op |-> "send", ch |-> c, payload |-> p])
    /\ total' = total + 1
    /\ UNCHANGED <<wire, heap, nextSeq, now, recvd, maxFrame>>

\* a frame of the sender: send_packets drains the outbox into the stream
SenderFrame ==
    /\ outbox # <<>>
    /\ wire' = wire \o EncodeAll(outbox)
    /\ outbox' = <<>>
    /\ Log([op |-> "sframe"])
    /\ UNCHANGED <<sent, total, heap, nextSeq, now, recvd, maxFrame>>

\* a frame of the receiver that finds k whole messages on the stream, dt clock units after
\* its previous frame (dt = 0: Instant::now() returned the same value)
ReceiverFrame(k, dt, ds) ==
    /\ now + dt <= MaxClock
    /\ k > 0 \/ (heap # <<>> /\ dt > 0)
    /\ LET t == now + dt
           r == ReadLoop(wire, heap, nextSeq, t, ds, k)
           p == PopLoop(r.heap, t, recvd)
       IN  /\ wire' = r.wire
           /\ nextSeq' = r.seq
           /\ heap' = p.heap
           /\ recvd' = p.recvd
           /\ now' = t
    /\ maxFrame' = IF k > maxFrame THEN k ELSE maxFrame
    /\ Log([op |-> "rframe", k |-> k])
    /\ UNCHANGED <<sent, total, outbox>>

Next ==
    \/ \E c \in Channels : Send(c)
    \/ SenderFrame
    \/ LET n == CountMsgs(wire)
       IN  \E k \in (IF PartialReads THEN 0 .. n ELSE {n}) :
           \E dt \in (IF Gen THEN {1} ELSE {0, 1}) :
           \E ds \in [1 .. k -> Delays] :
               ReceiverFrame(k, dt, ds)

Spec == Init /\ [][Next]_vars

---------------------------------------------------------------------------
(* Properties *)

IsPrefix(s, t) == Len(s) <= Len(t) /\ SubSeq(t, 1, Len(s)) = s

TypeOK ==
    /\ total \in 0 .. MaxMsgs
    /\ now \in 0 .. MaxClock
    /\ nextSeq \in 0 .. MaxMsgs
    /\ \A i \in 1 .. Len(heap) : heap[i].ch \in Channels

\* C17, safety part: per channel, what was received is an initial part of what was sent: nothing
\* twice, nothing out of order, nothing altered, nothing on another channel.
PerChannelFifo == \A c \in Channels : IsPrefix(recvd[c], sent[c])

\* C17, completeness part: once nothing is in flight everything has arrived.
Quiescent == outbox = <<>> /\ wire = <<>> /\ heap = <<>>
ExactlyOnce == Quiescent => recvd = sent

\* with jitter the conditioner may reorder, but it never loses, duplicates or alters a message
Count(s, x) == Cardinality({i \in 1 .. Len(s) : s[i] = x})
NoLossNoDup ==
    /\ \A c \in Channels : \A i \in 1 .. Len(recvd[c]) : Count(recvd[c], recvd[c][i]) <= Count(sent[c], recvd[c][i])
    /\ Quiescent => \A c \in Channels : Len(recvd[c]) = Len(sent[c])

\* without a conditioner a receiver frame hands over everything it read
NothingHeld == (Delays = {0}) => heap = <<>>

\* the heap array is a heap for the order in force (sanity of the transcription)
HeapShape == \A i \in 2 .. Len(heap) : LE(heap[i], heap[i \div 2])

\* with a conditioner (Delays # {0}) the design promises a stable time order: nothing is handed
\* over before its time, and what is handed over leaves in (timestamp, arrival) order - checked as
\* "the messages still held are not older than `now`"
NothingOverdue == \A i \in 1 .. Len(heap) : heap[i].ts > now

---------------------------------------------------------------------------
(* Case export (Gen): one line per quiescent state = one complete schedule with the          *)
(* per-channel sequences this model delivers.                                              *)
ChanSeq(f) == [i \in 1 .. NumChannels |-> f[i - 1]]

EmitCase ==
    (Gen /\ Quiescent /\ total > 0) =>
        PrintT(<<"CASE", ToJson([steps |-> hist, recvd |-> ChanSeq(recvd), sent |-> ChanSeq(sent),
                                 maxframe |-> maxFrame])>>)

\* the order in which n messages inserted with one timestamp leave the heap (0-based insertion
\* indices), for the direct driver
RECURSIVE PushN(_, _, _)
PushN(h, i, n) ==
    IF i = n THEN h ELSE PushN(Push(h, [ts |-> 0, seq |-> i, ch |-> 0, payload |-> <<>>]), i + 1, n)
RECURSIVE PopAll(_)
PopAll(h) == IF h = <<>> THEN <<>> ELSE LET p == Pop(h) IN <<p.item.seq>> \o PopAll(p.heap)
PopOrder(n) == PopAll(PushN(<<>>, 0, n))

ASSUME \A n \in PermSizes : PrintT(<<"PERM", ToJson([n |-> n, order |-> PopOrder(n)])>>)

=============================================================================
