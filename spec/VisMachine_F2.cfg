SPECIFICATION VMSpec
CONSTANTS
  Ent = {"e1", "e2", "e3"}
  Client = {"c1"}
  Policy = "black"
  Track = FALSE
  Timeout = 1000
  Marks = FALSE
  Impl <- ImplVF2
INVARIANTS Query HeldExact
CHECK_DEADLOCK FALSE
