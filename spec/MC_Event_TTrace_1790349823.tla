---- MODULE MC_Event_TTrace_1790349823 ----
EXTENDS Sequences, TLCExt, Toolbox, Naturals, TLC, MC_Event

_expression ==
    LET MC_Event_TEExpression == INSTANCE MC_Event_TEExpression
    IN MC_Event_TEExpression!expression
----

_trace ==
    LET MC_Event_TETrace == INSTANCE MC_Event_TETrace
    IN MC_Event_TETrace!trace
----

_inv ==
    ~(
        TLCGet("level") = Len(_TETrace)
        /\
        st = ([ev |-> [net |-> [c1 |-> [sev |-> [SOrd |-> <<>>, SInd |-> <<>>, SMap |-> <<>>, STrig |-> <<>>], cev |-> [COrd |-> <<>>, CMap |-> <<>>, CTrig |-> <<>>], rxSev |-> [SOrd |-> <<>>, SInd |-> <<>>, SMap |-> <<>>, STrig |-> <<>>], srxCev |-> [COrd |-> <<>>, CMap |-> <<>>, CTrig |-> <<>>]], c2 |-> [sev |-> [SOrd |-> <<>>, SInd |-> <<>>, SMap |-> <<>>, STrig |-> <<>>], cev |-> [COrd |-> <<>>, CMap |-> <<>>, CTrig |-> <<>>], rxSev |-> [SOrd |-> <<>>, SInd |-> <<>>, SMap |-> <<>>, STrig |-> <<>>], srxCev |-> [COrd |-> <<>>, CMap |-> <<>>, CTrig |-> <<>>]]], sess |-> [c1 |-> 1, c2 |-> 0], spend |-> <<>>, cpend |-> [c1 |-> <<>>, c2 |-> <<>>], sets |-> <<>>, queue |-> [c1 |-> <<>>, c2 |-> <<>>], lastConn |-> [c1 |-> TRUE, c2 |-> FALSE]], net |-> [c1 |-> [upd |-> <<[tick |-> 1, chg |-> [e1 |-> [A |-> 1]], desp |-> <<>>, rems |-> <<>>, maps |-> {}]>>, mut |-> <<>>, ack |-> <<>>, rxUpd |-> <<>>, rxMut |-> <<>>, srxAck |-> <<>>], c2 |-> [upd |-> <<>>, mut |-> <<>>, ack |-> <<>>, rxUpd |-> <<>>, rxMut |-> <<>>, srxAck |-> <<>>]], srv |-> [cl |-> [c1 |-> [conn |-> TRUE, auth |-> TRUE, updTick |-> 1, vis |-> [kind |-> "all", list |-> <<>>, added |-> {}, removed |-> {}], mutTick |-> [e1 |-> 2], inflight |-> {}, nextIdx |-> 0, pendingMap |-> <<>>], c2 |-> [conn |-> FALSE, auth |-> FALSE, updTick |-> 0, vis |-> [kind |-> "all", list |-> <<>>, added |-> {}, removed |-> {}], mutTick |-> <<>>, inflight |-> {}, nextIdx |-> 0, pendingMap |-> <<>>]], world |-> [e1 |-> [used |-> TRUE, comps |-> [A |-> [val |-> 1, chg |-> 2, add |-> 2]], alive |-> TRUE, repl |-> TRUE, markerAdd |-> 2, ver |-> [A |-> 1, B |-> 0, P |-> 0, O |-> 0]]], running |-> TRUE, tick |-> 1, now |-> 0, frame |-> 2, lastRun |-> 2, tickChanged |-> FALSE, timerAcc |-> 0, remEv |-> [e1 |-> {}], despawnBuf |-> <<>>, removalBuf |-> <<>>], cli |-> [c1 |-> [status |-> "Connected", updTick |-> 0, ents |-> <<>>, panicked |-> FALSE, buf |-> <<>>, lastNotDisc |-> TRUE], c2 |-> [status |-> "Disconnected", updTick |-> 0, ents |-> <<>>, panicked |-> FALSE, buf |-> <<>>, lastNotDisc |-> FALSE]]])
        /\
        b = ([emits |-> 1, ticks |-> 1, idle |-> 0, cframes |-> 2, ops |-> 1, recon |-> 0, nextId |-> 2, phase |-> "run"])
        /\
        bad = ({"C04delivery"})
        /\
        g = ([snap |-> (0 :> <<>> @@ 1 :> [e1 |-> [A |-> 1]]), visAt |-> (0 :> [c1 |-> {}, c2 |-> {}] @@ 1 :> [c1 |-> {"e1"}, c2 |-> {}]), lastSet |-> [c1 |-> <<>>, c2 |-> <<>>], sentAtRest |-> 0])
        /\
        ge = ([delivered |-> {[c |-> "c1", t |-> "SOrd", id |-> 1, sess |-> 1]}, emitted |-> {[t |-> "SOrd", id |-> 1, e |-> "none", mode |-> "direct", to |-> "c1", allowed |-> {<<"c1", 1>>}, must |-> {<<"c1", 1>>}]}, sent |-> {[c |-> "c1", t |-> "SOrd", id |-> 1, stamp |-> 1, e |-> "none", sess |-> 1]}, lastId |-> [c1 |-> [SOrd |-> 1, SInd |-> 0, SMap |-> 0, STrig |-> 0], c2 |-> [SOrd |-> 0, SInd |-> 0, SMap |-> 0, STrig |-> 0]], cemitted |-> {}, sdelivered |-> {}, slastId |-> [c1 |-> [COrd |-> 0, CMap |-> 0, CTrig |-> 0], c2 |-> [COrd |-> 0, CMap |-> 0, CTrig |-> 0]]])
    )
----

_init ==
    /\ b = _TETrace[1].b
    /\ g = _TETrace[1].g
    /\ ge = _TETrace[1].ge
    /\ st = _TETrace[1].st
    /\ bad = _TETrace[1].bad
----

_next ==
    /\ \E i,j \in DOMAIN _TETrace:
        /\ \/ /\ j = i + 1
              /\ i = TLCGet("level")
        /\ b  = _TETrace[i].b
        /\ b' = _TETrace[j].b
        /\ g  = _TETrace[i].g
        /\ g' = _TETrace[j].g
        /\ ge  = _TETrace[i].ge
        /\ ge' = _TETrace[j].ge
        /\ st  = _TETrace[i].st
        /\ st' = _TETrace[j].st
        /\ bad  = _TETrace[i].bad
        /\ bad' = _TETrace[j].bad

\* Uncomment the ASSUME below to write the states of the error trace
\* to the given file in Json format. Note that you can pass any tuple
\* to `JsonSerialize`. For example, a sub-sequence of _TETrace.
    \* ASSUME
    \*     LET J == INSTANCE Json
    \*         IN J!JsonSerialize("MC_Event_TTrace_1790349823.json", _TETrace)

=============================================================================

 Note that you can extract this module `MC_Event_TEExpression`
  to a dedicated file to reuse `expression` (the module in the 
  dedicated `MC_Event_TEExpression.tla` file takes precedence 
  over the module `MC_Event_TEExpression` below).

---- MODULE MC_Event_TEExpression ----
EXTENDS Sequences, TLCExt, Toolbox, Naturals, TLC, MC_Event

expression == 
    [
        \* To hide variables of the `MC_Event` spec from the error trace,
        \* remove the variables below.  The trace will be written in the order
        \* of the fields of this record.
        b |-> b
        ,g |-> g
        ,ge |-> ge
        ,st |-> st
        ,bad |-> bad
        
        \* Put additional constant-, state-, and action-level expressions here:
        \* ,_stateNumber |-> _TEPosition
        \* ,_bUnchanged |-> b = b'
        
        \* Format the `b` variable as Json value.
        \* ,_bJson |->
        \*     LET J == INSTANCE Json
        \*     IN J!ToJson(b)
        
        \* Lastly, you may build expressions over arbitrary sets of states by
        \* leveraging the _TETrace operator.  For example, this is how to
        \* count the number of times a spec variable changed up to the current
        \* state in the trace.
        \* ,_bModCount |->
        \*     LET F[s \in DOMAIN _TETrace] ==
        \*         IF s = 1 THEN 0
        \*         ELSE IF _TETrace[s].b # _TETrace[s-1].b
        \*             THEN 1 + F[s-1] ELSE F[s-1]
        \*     IN F[_TEPosition - 1]
    ]

=============================================================================



Parsing and semantic processing can take forever if the trace below is long.
 In this case, it is advised to uncomment the module below to deserialize the
 trace from a generated binary file.

\*
\*---- MODULE MC_Event_TETrace ----
\*EXTENDS IOUtils, TLC, MC_Event
\*
\*trace == IODeserialize("MC_Event_TTrace_1790349823.bin", TRUE)
\*
\*=============================================================================
\*

---- MODULE MC_Event_TETrace ----
EXTENDS TLC, MC_Event

trace == 
    <<
    ([st |-> [ev |-> [net |-> [c1 |-> [sev |-> [SOrd |-> <<>>, SInd |-> <<>>, SMap |-> <<>>, STrig |-> <<>>], cev |-> [COrd |-> <<>>, CMap |-> <<>>, CTrig |-> <<>>], rxSev |-> [SOrd |-> <<>>, SInd |-> <<>>, SMap |-> <<>>, STrig |-> <<>>], srxCev |-> [COrd |-> <<>>, CMap |-> <<>>, CTrig |-> <<>>]], c2 |-> [sev |-> [SOrd |-> <<>>, SInd |-> <<>>, SMap |-> <<>>, STrig |-> <<>>], cev |-> [COrd |-> <<>>, CMap |-> <<>>, CTrig |-> <<>>], rxSev |-> [SOrd |-> <<>>, SInd |-> <<>>, SMap |-> <<>>, STrig |-> <<>>], srxCev |-> [COrd |-> <<>>, CMap |-> <<>>, CTrig |-> <<>>]]], sess |-> [c1 |-> 1, c2 |-> 0], spend |-> <<>>, cpend |-> [c1 |-> <<>>, c2 |-> <<>>], sets |-> <<>>, queue |-> [c1 |-> <<>>, c2 |-> <<>>], lastConn |-> [c1 |-> FALSE, c2 |-> FALSE]], net |-> [c1 |-> [upd |-> <<>>, mut |-> <<>>, ack |-> <<>>, rxUpd |-> <<>>, rxMut |-> <<>>, srxAck |-> <<>>], c2 |-> [upd |-> <<>>, mut |-> <<>>, ack |-> <<>>, rxUpd |-> <<>>, rxMut |-> <<>>, srxAck |-> <<>>]], srv |-> [cl |-> [c1 |-> [conn |-> TRUE, auth |-> TRUE, updTick |-> 0, vis |-> [kind |-> "all", list |-> <<>>, added |-> {}, removed |-> {}], mutTick |-> <<>>, inflight |-> {}, nextIdx |-> 0, pendingMap |-> <<>>], c2 |-> [conn |-> FALSE, auth |-> FALSE, updTick |-> 0, vis |-> [kind |-> "all", list |-> <<>>, added |-> {}, removed |-> {}], mutTick |-> <<>>, inflight |-> {}, nextIdx |-> 0, pendingMap |-> <<>>]], world |-> [e1 |-> [used |-> FALSE, comps |-> <<>>, alive |-> FALSE, repl |-> FALSE, markerAdd |-> 0, ver |-> [A |-> 0, B |-> 0, P |-> 0, O |-> 0]]], running |-> TRUE, tick |-> 0, now |-> 0, frame |-> 1, lastRun |-> 1, tickChanged |-> FALSE, timerAcc |-> 0, remEv |-> [e1 |-> {}], despawnBuf |-> <<>>, removalBuf |-> <<>>], cli |-> [c1 |-> [status |-> "Connected", updTick |-> 0, ents |-> <<>>, panicked |-> FALSE, buf |-> <<>>, lastNotDisc |-> FALSE], c2 |-> [status |-> "Disconnected", updTick |-> 0, ents |-> <<>>, panicked |-> FALSE, buf |-> <<>>, lastNotDisc |-> FALSE]]],b |-> [emits |-> 0, ticks |-> 0, idle |-> 0, cframes |-> 0, ops |-> 0, recon |-> 0, nextId |-> 1, phase |-> "run"],bad |-> {},g |-> [snap |-> (0 :> <<>>), visAt |-> (0 :> [c1 |-> {}, c2 |-> {}]), lastSet |-> [c1 |-> <<>>, c2 |-> <<>>], sentAtRest |-> 0],ge |-> [delivered |-> {}, emitted |-> {}, sent |-> {}, lastId |-> [c1 |-> [SOrd |-> 0, SInd |-> 0, SMap |-> 0, STrig |-> 0], c2 |-> [SOrd |-> 0, SInd |-> 0, SMap |-> 0, STrig |-> 0]], cemitted |-> {}, sdelivered |-> {}, slastId |-> [c1 |-> [COrd |-> 0, CMap |-> 0, CTrig |-> 0], c2 |-> [COrd |-> 0, CMap |-> 0, CTrig |-> 0]]]]),
    ([st |-> [ev |-> [net |-> [c1 |-> [sev |-> [SOrd |-> <<>>, SInd |-> <<>>, SMap |-> <<>>, STrig |-> <<>>], cev |-> [COrd |-> <<>>, CMap |-> <<>>, CTrig |-> <<>>], rxSev |-> [SOrd |-> <<>>, SInd |-> <<>>, SMap |-> <<>>, STrig |-> <<>>], srxCev |-> [COrd |-> <<>>, CMap |-> <<>>, CTrig |-> <<>>]], c2 |-> [sev |-> [SOrd |-> <<>>, SInd |-> <<>>, SMap |-> <<>>, STrig |-> <<>>], cev |-> [COrd |-> <<>>, CMap |-> <<>>, CTrig |-> <<>>], rxSev |-> [SOrd |-> <<>>, SInd |-> <<>>, SMap |-> <<>>, STrig |-> <<>>], srxCev |-> [COrd |-> <<>>, CMap |-> <<>>, CTrig |-> <<>>]]], sess |-> [c1 |-> 1, c2 |-> 0], spend |-> <<>>, cpend |-> [c1 |-> <<>>, c2 |-> <<>>], sets |-> <<>>, queue |-> [c1 |-> <<>>, c2 |-> <<>>], lastConn |-> [c1 |-> TRUE, c2 |-> FALSE]], net |-> [c1 |-> [upd |-> <<>>, mut |-> <<>>, ack |-> <<>>, rxUpd |-> <<>>, rxMut |-> <<>>, srxAck |-> <<>>], c2 |-> [upd |-> <<>>, mut |-> <<>>, ack |-> <<>>, rxUpd |-> <<>>, rxMut |-> <<>>, srxAck |-> <<>>]], srv |-> [cl |-> [c1 |-> [conn |-> TRUE, auth |-> TRUE, updTick |-> 0, vis |-> [kind |-> "all", list |-> <<>>, added |-> {}, removed |-> {}], mutTick |-> <<>>, inflight |-> {}, nextIdx |-> 0, pendingMap |-> <<>>], c2 |-> [conn |-> FALSE, auth |-> FALSE, updTick |-> 0, vis |-> [kind |-> "all", list |-> <<>>, added |-> {}, removed |-> {}], mutTick |-> <<>>, inflight |-> {}, nextIdx |-> 0, pendingMap |-> <<>>]], world |-> [e1 |-> [used |-> FALSE, comps |-> <<>>, alive |-> FALSE, repl |-> FALSE, markerAdd |-> 0, ver |-> [A |-> 0, B |-> 0, P |-> 0, O |-> 0]]], running |-> TRUE, tick |-> 0, now |-> 0, frame |-> 1, lastRun |-> 1, tickChanged |-> FALSE, timerAcc |-> 0, remEv |-> [e1 |-> {}], despawnBuf |-> <<>>, removalBuf |-> <<>>], cli |-> [c1 |-> [status |-> "Connected", updTick |-> 0, ents |-> <<>>, panicked |-> FALSE, buf |-> <<>>, lastNotDisc |-> TRUE], c2 |-> [status |-> "Disconnected", updTick |-> 0, ents |-> <<>>, panicked |-> FALSE, buf |-> <<>>, lastNotDisc |-> FALSE]]],b |-> [emits |-> 0, ticks |-> 0, idle |-> 0, cframes |-> 1, ops |-> 0, recon |-> 0, nextId |-> 1, phase |-> "run"],bad |-> {},g |-> [snap |-> (0 :> <<>>), visAt |-> (0 :> [c1 |-> {}, c2 |-> {}]), lastSet |-> [c1 |-> <<>>, c2 |-> <<>>], sentAtRest |-> 0],ge |-> [delivered |-> {}, emitted |-> {}, sent |-> {}, lastId |-> [c1 |-> [SOrd |-> 0, SInd |-> 0, SMap |-> 0, STrig |-> 0], c2 |-> [SOrd |-> 0, SInd |-> 0, SMap |-> 0, STrig |-> 0]], cemitted |-> {}, sdelivered |-> {}, slastId |-> [c1 |-> [COrd |-> 0, CMap |-> 0, CTrig |-> 0], c2 |-> [COrd |-> 0, CMap |-> 0, CTrig |-> 0]]]]),
    ([st |-> [ev |-> [net |-> [c1 |-> [sev |-> [SOrd |-> <<>>, SInd |-> <<>>, SMap |-> <<>>, STrig |-> <<>>], cev |-> [COrd |-> <<>>, CMap |-> <<>>, CTrig |-> <<>>], rxSev |-> [SOrd |-> <<>>, SInd |-> <<>>, SMap |-> <<>>, STrig |-> <<>>], srxCev |-> [COrd |-> <<>>, CMap |-> <<>>, CTrig |-> <<>>]], c2 |-> [sev |-> [SOrd |-> <<>>, SInd |-> <<>>, SMap |-> <<>>, STrig |-> <<>>], cev |-> [COrd |-> <<>>, CMap |-> <<>>, CTrig |-> <<>>], rxSev |-> [SOrd |-> <<>>, SInd |-> <<>>, SMap |-> <<>>, STrig |-> <<>>], srxCev |-> [COrd |-> <<>>, CMap |-> <<>>, CTrig |-> <<>>]]], sess |-> [c1 |-> 1, c2 |-> 0], spend |-> <<>>, cpend |-> [c1 |-> <<>>, c2 |-> <<>>], sets |-> <<>>, queue |-> [c1 |-> <<>>, c2 |-> <<>>], lastConn |-> [c1 |-> TRUE, c2 |-> FALSE]], net |-> [c1 |-> [upd |-> <<>>, mut |-> <<>>, ack |-> <<>>, rxUpd |-> <<>>, rxMut |-> <<>>, srxAck |-> <<>>], c2 |-> [upd |-> <<>>, mut |-> <<>>, ack |-> <<>>, rxUpd |-> <<>>, rxMut |-> <<>>, srxAck |-> <<>>]], srv |-> [cl |-> [c1 |-> [conn |-> TRUE, auth |-> TRUE, updTick |-> 0, vis |-> [kind |-> "all", list |-> <<>>, added |-> {}, removed |-> {}], mutTick |-> <<>>, inflight |-> {}, nextIdx |-> 0, pendingMap |-> <<>>], c2 |-> [conn |-> FALSE, auth |-> FALSE, updTick |-> 0, vis |-> [kind |-> "all", list |-> <<>>, added |-> {}, removed |-> {}], mutTick |-> <<>>, inflight |-> {}, nextIdx |-> 0, pendingMap |-> <<>>]], world |-> [e1 |-> [used |-> TRUE, comps |-> [A |-> [val |-> 1, chg |-> 2, add |-> 2]], alive |-> TRUE, repl |-> TRUE, markerAdd |-> 2, ver |-> [A |-> 1, B |-> 0, P |-> 0, O |-> 0]]], running |-> TRUE, tick |-> 0, now |-> 0, frame |-> 1, lastRun |-> 1, tickChanged |-> FALSE, timerAcc |-> 0, remEv |-> [e1 |-> {}], despawnBuf |-> <<>>, removalBuf |-> <<>>], cli |-> [c1 |-> [status |-> "Connected", updTick |-> 0, ents |-> <<>>, panicked |-> FALSE, buf |-> <<>>, lastNotDisc |-> TRUE], c2 |-> [status |-> "Disconnected", updTick |-> 0, ents |-> <<>>, panicked |-> FALSE, buf |-> <<>>, lastNotDisc |-> FALSE]]],b |-> [emits |-> 0, ticks |-> 0, idle |-> 0, cframes |-> 1, ops |-> 1, recon |-> 0, nextId |-> 1, phase |-> "run"],bad |-> {},g |-> [snap |-> (0 :> <<>>), visAt |-> (0 :> [c1 |-> {}, c2 |-> {}]), lastSet |-> [c1 |-> <<>>, c2 |-> <<>>], sentAtRest |-> 0],ge |-> [delivered |-> {}, emitted |-> {}, sent |-> {}, lastId |-> [c1 |-> [SOrd |-> 0, SInd |-> 0, SMap |-> 0, STrig |-> 0], c2 |-> [SOrd |-> 0, SInd |-> 0, SMap |-> 0, STrig |-> 0]], cemitted |-> {}, sdelivered |-> {}, slastId |-> [c1 |-> [COrd |-> 0, CMap |-> 0, CTrig |-> 0], c2 |-> [COrd |-> 0, CMap |-> 0, CTrig |-> 0]]]]),
    ([st |-> [ev |-> [net |-> [c1 |-> [sev |-> [SOrd |-> <<>>, SInd |-> <<>>, SMap |-> <<>>, STrig |-> <<>>], cev |-> [COrd |-> <<>>, CMap |-> <<>>, CTrig |-> <<>>], rxSev |-> [SOrd |-> <<>>, SInd |-> <<>>, SMap |-> <<>>, STrig |-> <<>>], srxCev |-> [COrd |-> <<>>, CMap |-> <<>>, CTrig |-> <<>>]], c2 |-> [sev |-> [SOrd |-> <<>>, SInd |-> <<>>, SMap |-> <<>>, STrig |-> <<>>], cev |-> [COrd |-> <<>>, CMap |-> <<>>, CTrig |-> <<>>], rxSev |-> [SOrd |-> <<>>, SInd |-> <<>>, SMap |-> <<>>, STrig |-> <<>>], srxCev |-> [COrd |-> <<>>, CMap |-> <<>>, CTrig |-> <<>>]]], sess |-> [c1 |-> 1, c2 |-> 0], spend |-> <<[t |-> "SOrd", id |-> 1, e |-> "none", sess |-> 1, mode |-> "direct", to |-> "c1"]>>, cpend |-> [c1 |-> <<>>, c2 |-> <<>>], sets |-> <<>>, queue |-> [c1 |-> <<>>, c2 |-> <<>>], lastConn |-> [c1 |-> TRUE, c2 |-> FALSE]], net |-> [c1 |-> [upd |-> <<>>, mut |-> <<>>, ack |-> <<>>, rxUpd |-> <<>>, rxMut |-> <<>>, srxAck |-> <<>>], c2 |-> [upd |-> <<>>, mut |-> <<>>, ack |-> <<>>, rxUpd |-> <<>>, rxMut |-> <<>>, srxAck |-> <<>>]], srv |-> [cl |-> [c1 |-> [conn |-> TRUE, auth |-> TRUE, updTick |-> 0, vis |-> [kind |-> "all", list |-> <<>>, added |-> {}, removed |-> {}], mutTick |-> <<>>, inflight |-> {}, nextIdx |-> 0, pendingMap |-> <<>>], c2 |-> [conn |-> FALSE, auth |-> FALSE, updTick |-> 0, vis |-> [kind |-> "all", list |-> <<>>, added |-> {}, removed |-> {}], mutTick |-> <<>>, inflight |-> {}, nextIdx |-> 0, pendingMap |-> <<>>]], world |-> [e1 |-> [used |-> TRUE, comps |-> [A |-> [val |-> 1, chg |-> 2, add |-> 2]], alive |-> TRUE, repl |-> TRUE, markerAdd |-> 2, ver |-> [A |-> 1, B |-> 0, P |-> 0, O |-> 0]]], running |-> TRUE, tick |-> 0, now |-> 0, frame |-> 1, lastRun |-> 1, tickChanged |-> FALSE, timerAcc |-> 0, remEv |-> [e1 |-> {}], despawnBuf |-> <<>>, removalBuf |-> <<>>], cli |-> [c1 |-> [status |-> "Connected", updTick |-> 0, ents |-> <<>>, panicked |-> FALSE, buf |-> <<>>, lastNotDisc |-> TRUE], c2 |-> [status |-> "Disconnected", updTick |-> 0, ents |-> <<>>, panicked |-> FALSE, buf |-> <<>>, lastNotDisc |-> FALSE]]],b |-> [emits |-> 1, ticks |-> 0, idle |-> 0, cframes |-> 1, ops |-> 1, recon |-> 0, nextId |-> 2, phase |-> "run"],bad |-> {},g |-> [snap |-> (0 :> <<>>), visAt |-> (0 :> [c1 |-> {}, c2 |-> {}]), lastSet |-> [c1 |-> <<>>, c2 |-> <<>>], sentAtRest |-> 0],ge |-> [delivered |-> {}, emitted |-> {}, sent |-> {}, lastId |-> [c1 |-> [SOrd |-> 0, SInd |-> 0, SMap |-> 0, STrig |-> 0], c2 |-> [SOrd |-> 0, SInd |-> 0, SMap |-> 0, STrig |-> 0]], cemitted |-> {}, sdelivered |-> {}, slastId |-> [c1 |-> [COrd |-> 0, CMap |-> 0, CTrig |-> 0], c2 |-> [COrd |-> 0, CMap |-> 0, CTrig |-> 0]]]]),
    ([st |-> [ev |-> [net |-> [c1 |-> [sev |-> [SOrd |-> <<[t |-> "SOrd", id |-> 1, stamp |-> 1, e |-> "none"]>>, SInd |-> <<>>, SMap |-> <<>>, STrig |-> <<>>], cev |-> [COrd |-> <<>>, CMap |-> <<>>, CTrig |-> <<>>], rxSev |-> [SOrd |-> <<>>, SInd |-> <<>>, SMap |-> <<>>, STrig |-> <<>>], srxCev |-> [COrd |-> <<>>, CMap |-> <<>>, CTrig |-> <<>>]], c2 |-> [sev |-> [SOrd |-> <<>>, SInd |-> <<>>, SMap |-> <<>>, STrig |-> <<>>], cev |-> [COrd |-> <<>>, CMap |-> <<>>, CTrig |-> <<>>], rxSev |-> [SOrd |-> <<>>, SInd |-> <<>>, SMap |-> <<>>, STrig |-> <<>>], srxCev |-> [COrd |-> <<>>, CMap |-> <<>>, CTrig |-> <<>>]]], sess |-> [c1 |-> 1, c2 |-> 0], spend |-> <<>>, cpend |-> [c1 |-> <<>>, c2 |-> <<>>], sets |-> <<>>, queue |-> [c1 |-> <<>>, c2 |-> <<>>], lastConn |-> [c1 |-> TRUE, c2 |-> FALSE]], net |-> [c1 |-> [upd |-> <<[tick |-> 1, chg |-> [e1 |-> [A |-> 1]], desp |-> <<>>, rems |-> <<>>, maps |-> {}]>>, mut |-> <<>>, ack |-> <<>>, rxUpd |-> <<>>, rxMut |-> <<>>, srxAck |-> <<>>], c2 |-> [upd |-> <<>>, mut |-> <<>>, ack |-> <<>>, rxUpd |-> <<>>, rxMut |-> <<>>, srxAck |-> <<>>]], srv |-> [cl |-> [c1 |-> [conn |-> TRUE, auth |-> TRUE, updTick |-> 1, vis |-> [kind |-> "all", list |-> <<>>, added |-> {}, removed |-> {}], mutTick |-> [e1 |-> 2], inflight |-> {}, nextIdx |-> 0, pendingMap |-> <<>>], c2 |-> [conn |-> FALSE, auth |-> FALSE, updTick |-> 0, vis |-> [kind |-> "all", list |-> <<>>, added |-> {}, removed |-> {}], mutTick |-> <<>>, inflight |-> {}, nextIdx |-> 0, pendingMap |-> <<>>]], world |-> [e1 |-> [used |-> TRUE, comps |-> [A |-> [val |-> 1, chg |-> 2, add |-> 2]], alive |-> TRUE, repl |-> TRUE, markerAdd |-> 2, ver |-> [A |-> 1, B |-> 0, P |-> 0, O |-> 0]]], running |-> TRUE, tick |-> 1, now |-> 0, frame |-> 2, lastRun |-> 2, tickChanged |-> FALSE, timerAcc |-> 0, remEv |-> [e1 |-> {}], despawnBuf |-> <<>>, removalBuf |-> <<>>], cli |-> [c1 |-> [status |-> "Connected", updTick |-> 0, ents |-> <<>>, panicked |-> FALSE, buf |-> <<>>, lastNotDisc |-> TRUE], c2 |-> [status |-> "Disconnected", updTick |-> 0, ents |-> <<>>, panicked |-> FALSE, buf |-> <<>>, lastNotDisc |-> FALSE]]],b |-> [emits |-> 1, ticks |-> 1, idle |-> 0, cframes |-> 1, ops |-> 1, recon |-> 0, nextId |-> 2, phase |-> "run"],bad |-> {},g |-> [snap |-> (0 :> <<>> @@ 1 :> [e1 |-> [A |-> 1]]), visAt |-> (0 :> [c1 |-> {}, c2 |-> {}] @@ 1 :> [c1 |-> {"e1"}, c2 |-> {}]), lastSet |-> [c1 |-> <<>>, c2 |-> <<>>], sentAtRest |-> 0],ge |-> [delivered |-> {}, emitted |-> {[t |-> "SOrd", id |-> 1, e |-> "none", mode |-> "direct", to |-> "c1", allowed |-> {<<"c1", 1>>}, must |-> {<<"c1", 1>>}]}, sent |-> {[c |-> "c1", t |-> "SOrd", id |-> 1, stamp |-> 1, e |-> "none", sess |-> 1]}, lastId |-> [c1 |-> [SOrd |-> 0, SInd |-> 0, SMap |-> 0, STrig |-> 0], c2 |-> [SOrd |-> 0, SInd |-> 0, SMap |-> 0, STrig |-> 0]], cemitted |-> {}, sdelivered |-> {}, slastId |-> [c1 |-> [COrd |-> 0, CMap |-> 0, CTrig |-> 0], c2 |-> [COrd |-> 0, CMap |-> 0, CTrig |-> 0]]]]),
    ([st |-> [ev |-> [net |-> [c1 |-> [sev |-> [SOrd |-> <<>>, SInd |-> <<>>, SMap |-> <<>>, STrig |-> <<>>], cev |-> [COrd |-> <<>>, CMap |-> <<>>, CTrig |-> <<>>], rxSev |-> [SOrd |-> <<[t |-> "SOrd", id |-> 1, stamp |-> 1, e |-> "none"]>>, SInd |-> <<>>, SMap |-> <<>>, STrig |-> <<>>], srxCev |-> [COrd |-> <<>>, CMap |-> <<>>, CTrig |-> <<>>]], c2 |-> [sev |-> [SOrd |-> <<>>, SInd |-> <<>>, SMap |-> <<>>, STrig |-> <<>>], cev |-> [COrd |-> <<>>, CMap |-> <<>>, CTrig |-> <<>>], rxSev |-> [SOrd |-> <<>>, SInd |-> <<>>, SMap |-> <<>>, STrig |-> <<>>], srxCev |-> [COrd |-> <<>>, CMap |-> <<>>, CTrig |-> <<>>]]], sess |-> [c1 |-> 1, c2 |-> 0], spend |-> <<>>, cpend |-> [c1 |-> <<>>, c2 |-> <<>>], sets |-> <<>>, queue |-> [c1 |-> <<>>, c2 |-> <<>>], lastConn |-> [c1 |-> TRUE, c2 |-> FALSE]], net |-> [c1 |-> [upd |-> <<[tick |-> 1, chg |-> [e1 |-> [A |-> 1]], desp |-> <<>>, rems |-> <<>>, maps |-> {}]>>, mut |-> <<>>, ack |-> <<>>, rxUpd |-> <<>>, rxMut |-> <<>>, srxAck |-> <<>>], c2 |-> [upd |-> <<>>, mut |-> <<>>, ack |-> <<>>, rxUpd |-> <<>>, rxMut |-> <<>>, srxAck |-> <<>>]], srv |-> [cl |-> [c1 |-> [conn |-> TRUE, auth |-> TRUE, updTick |-> 1, vis |-> [kind |-> "all", list |-> <<>>, added |-> {}, removed |-> {}], mutTick |-> [e1 |-> 2], inflight |-> {}, nextIdx |-> 0, pendingMap |-> <<>>], c2 |-> [conn |-> FALSE, auth |-> FALSE, updTick |-> 0, vis |-> [kind |-> "all", list |-> <<>>, added |-> {}, removed |-> {}], mutTick |-> <<>>, inflight |-> {}, nextIdx |-> 0, pendingMap |-> <<>>]], world |-> [e1 |-> [used |-> TRUE, comps |-> [A |-> [val |-> 1, chg |-> 2, add |-> 2]], alive |-> TRUE, repl |-> TRUE, markerAdd |-> 2, ver |-> [A |-> 1, B |-> 0, P |-> 0, O |-> 0]]], running |-> TRUE, tick |-> 1, now |-> 0, frame |-> 2, lastRun |-> 2, tickChanged |-> FALSE, timerAcc |-> 0, remEv |-> [e1 |-> {}], despawnBuf |-> <<>>, removalBuf |-> <<>>], cli |-> [c1 |-> [status |-> "Connected", updTick |-> 0, ents |-> <<>>, panicked |-> FALSE, buf |-> <<>>, lastNotDisc |-> TRUE], c2 |-> [status |-> "Disconnected", updTick |-> 0, ents |-> <<>>, panicked |-> FALSE, buf |-> <<>>, lastNotDisc |-> FALSE]]],b |-> [emits |-> 1, ticks |-> 1, idle |-> 0, cframes |-> 1, ops |-> 1, recon |-> 0, nextId |-> 2, phase |-> "run"],bad |-> {},g |-> [snap |-> (0 :> <<>> @@ 1 :> [e1 |-> [A |-> 1]]), visAt |-> (0 :> [c1 |-> {}, c2 |-> {}] @@ 1 :> [c1 |-> {"e1"}, c2 |-> {}]), lastSet |-> [c1 |-> <<>>, c2 |-> <<>>], sentAtRest |-> 0],ge |-> [delivered |-> {}, emitted |-> {[t |-> "SOrd", id |-> 1, e |-> "none", mode |-> "direct", to |-> "c1", allowed |-> {<<"c1", 1>>}, must |-> {<<"c1", 1>>}]}, sent |-> {[c |-> "c1", t |-> "SOrd", id |-> 1, stamp |-> 1, e |-> "none", sess |-> 1]}, lastId |-> [c1 |-> [SOrd |-> 0, SInd |-> 0, SMap |-> 0, STrig |-> 0], c2 |-> [SOrd |-> 0, SInd |-> 0, SMap |-> 0, STrig |-> 0]], cemitted |-> {}, sdelivered |-> {}, slastId |-> [c1 |-> [COrd |-> 0, CMap |-> 0, CTrig |-> 0], c2 |-> [COrd |-> 0, CMap |-> 0, CTrig |-> 0]]]]),
    ([st |-> [ev |-> [net |-> [c1 |-> [sev |-> [SOrd |-> <<>>, SInd |-> <<>>, SMap |-> <<>>, STrig |-> <<>>], cev |-> [COrd |-> <<>>, CMap |-> <<>>, CTrig |-> <<>>], rxSev |-> [SOrd |-> <<>>, SInd |-> <<>>, SMap |-> <<>>, STrig |-> <<>>], srxCev |-> [COrd |-> <<>>, CMap |-> <<>>, CTrig |-> <<>>]], c2 |-> [sev |-> [SOrd |-> <<>>, SInd |-> <<>>, SMap |-> <<>>, STrig |-> <<>>], cev |-> [COrd |-> <<>>, CMap |-> <<>>, CTrig |-> <<>>], rxSev |-> [SOrd |-> <<>>, SInd |-> <<>>, SMap |-> <<>>, STrig |-> <<>>], srxCev |-> [COrd |-> <<>>, CMap |-> <<>>, CTrig |-> <<>>]]], sess |-> [c1 |-> 1, c2 |-> 0], spend |-> <<>>, cpend |-> [c1 |-> <<>>, c2 |-> <<>>], sets |-> <<>>, queue |-> [c1 |-> <<>>, c2 |-> <<>>], lastConn |-> [c1 |-> TRUE, c2 |-> FALSE]], net |-> [c1 |-> [upd |-> <<[tick |-> 1, chg |-> [e1 |-> [A |-> 1]], desp |-> <<>>, rems |-> <<>>, maps |-> {}]>>, mut |-> <<>>, ack |-> <<>>, rxUpd |-> <<>>, rxMut |-> <<>>, srxAck |-> <<>>], c2 |-> [upd |-> <<>>, mut |-> <<>>, ack |-> <<>>, rxUpd |-> <<>>, rxMut |-> <<>>, srxAck |-> <<>>]], srv |-> [cl |-> [c1 |-> [conn |-> TRUE, auth |-> TRUE, updTick |-> 1, vis |-> [kind |-> "all", list |-> <<>>, added |-> {}, removed |-> {}], mutTick |-> [e1 |-> 2], inflight |-> {}, nextIdx |-> 0, pendingMap |-> <<>>], c2 |-> [conn |-> FALSE, auth |-> FALSE, updTick |-> 0, vis |-> [kind |-> "all", list |-> <<>>, added |-> {}, removed |-> {}], mutTick |-> <<>>, inflight |-> {}, nextIdx |-> 0, pendingMap |-> <<>>]], world |-> [e1 |-> [used |-> TRUE, comps |-> [A |-> [val |-> 1, chg |-> 2, add |-> 2]], alive |-> TRUE, repl |-> TRUE, markerAdd |-> 2, ver |-> [A |-> 1, B |-> 0, P |-> 0, O |-> 0]]], running |-> TRUE, tick |-> 1, now |-> 0, frame |-> 2, lastRun |-> 2, tickChanged |-> FALSE, timerAcc |-> 0, remEv |-> [e1 |-> {}], despawnBuf |-> <<>>, removalBuf |-> <<>>], cli |-> [c1 |-> [status |-> "Connected", updTick |-> 0, ents |-> <<>>, panicked |-> FALSE, buf |-> <<>>, lastNotDisc |-> TRUE], c2 |-> [status |-> "Disconnected", updTick |-> 0, ents |-> <<>>, panicked |-> FALSE, buf |-> <<>>, lastNotDisc |-> FALSE]]],b |-> [emits |-> 1, ticks |-> 1, idle |-> 0, cframes |-> 2, ops |-> 1, recon |-> 0, nextId |-> 2, phase |-> "run"],bad |-> {"C04delivery"},g |-> [snap |-> (0 :> <<>> @@ 1 :> [e1 |-> [A |-> 1]]), visAt |-> (0 :> [c1 |-> {}, c2 |-> {}] @@ 1 :> [c1 |-> {"e1"}, c2 |-> {}]), lastSet |-> [c1 |-> <<>>, c2 |-> <<>>], sentAtRest |-> 0],ge |-> [delivered |-> {[c |-> "c1", t |-> "SOrd", id |-> 1, sess |-> 1]}, emitted |-> {[t |-> "SOrd", id |-> 1, e |-> "none", mode |-> "direct", to |-> "c1", allowed |-> {<<"c1", 1>>}, must |-> {<<"c1", 1>>}]}, sent |-> {[c |-> "c1", t |-> "SOrd", id |-> 1, stamp |-> 1, e |-> "none", sess |-> 1]}, lastId |-> [c1 |-> [SOrd |-> 1, SInd |-> 0, SMap |-> 0, STrig |-> 0], c2 |-> [SOrd |-> 0, SInd |-> 0, SMap |-> 0, STrig |-> 0]], cemitted |-> {}, sdelivered |-> {}, slastId |-> [c1 |-> [COrd |-> 0, CMap |-> 0, CTrig |-> 0], c2 |-> [COrd |-> 0, CMap |-> 0, CTrig |-> 0]]]])
    >>
----


=============================================================================

---- CONFIG MC_Event_TTrace_1790349823 ----
CONSTANTS
    Ent = { "e1" }
    Client = { "c1" , "c2" }
    Policy = "all"
    Track = FALSE
    Timeout = 1000
    Impl <- ImplNoQueue
    AuthMode = "none"
    SEmitTypes = { "SOrd" }
    CEmitTypes = { }
    Modes = { "all" , "direct" }
    MaxEmits = 2
    MaxTicks = 2
    MaxIdle = 1
    MaxCliFrames = 2
    MaxOps = 1
    Reconnects = 0
    InitConnected = { "c1" }
    SettleRounds = 2

INVARIANT
    _inv

CHECK_DEADLOCK
    \* CHECK_DEADLOCK off because of PROPERTY or INVARIANT above.
    FALSE

INIT
    _init

NEXT
    _next

CONSTANT
    _TETrace <- _trace

ALIAS
    _expression
=============================================================================
\* Generated on Fri Sep 25 15:23:47 UTC 2026