---------------------------- MODULE ProtocolHash ----------------------------
(***************************************************************************)
(* Property C14: "The protocol hash separates compatible from incompatible *)
(* builds" (bevy_replicon 0.34.3).                                         *)
(*                                                                         *)
(* Part 1 (hash).  A build is a SEQUENCE of registrations.  The module     *)
(* holds                                                                   *)
(*   (a) the reference meaning of a registration - the attributes the      *)
(*       property says must matter: kind, type, priority, independence     *)
(*       (an independence mark is itself an element of the sequence), and  *)
(*       the order of the sequence (Norm), and                             *)
(*   (b) what the code feeds to its running FNV hasher for every           *)
(*       registration entry point, transcribed from                        *)
(*       src/shared/protocol.rs:52-103 and the entry points in             *)
(*       replication_rules.rs / event/*.rs, as a stream of byte-level      *)
(*       tokens (Chunk, Stream).                                           *)
(* The 64 bit FNV-1a value itself is abstracted as an INJECTIVE function   *)
(* of the byte stream it consumed (HashVal is the stream itself).  That is *)
(* the best any hash can be; collision-freeness of FNV on the enumerated   *)
(* set is observed by the replayer on the real code, not proved here.      *)
(* What TLC does verify is that the stream is a faithful, uniquely         *)
(* decodable encoding of the registration sequence:                        *)
(*        HashVal(s1) = HashVal(s2)  <=>  Norm(s1) = Norm(s2)              *)
(* for every valid sequence s1 of length <= MaxLen and every single-step   *)
(* edit s2 of it.  No deviation of the pinned tree from the design was     *)
(* found, so there is no ImplBug switch; instead Mutation selects          *)
(* hypothetical defects of the mechanism (an attribute that is not fed, an *)
(* order-insensitive combination) which TLC must catch (non-vacuity).      *)
(*                                                                         *)
(* Part 2 (handshake).  For a server built from s1 and a client built from *)
(* s2: connect, client frame (send_protocol_hash, src/client.rs:185),      *)
(* delivery, server frame (check_protocol, src/server.rs:208), delivery,   *)
(* client frame (ProtocolMismatch trigger), all interleavings within       *)
(* MaxCF client frames and MaxSF server frames, no loss.                   *)
(*                                                                         *)
(* Both parts are one state machine: stage "build" grows s1 by appending   *)
(* registrations (every valid sequence is one state), Pick chooses an edit *)
(* and enters stage "hs".  Expected results are exported with PrintT.      *)
(***************************************************************************)
EXTENDS Naturals, Sequences, FiniteSets, TLC, Json, SequencesExt, IOUtils

CONSTANTS
    NTypes,     \* types are 0 .. NTypes-1 (the replayer owns a pool of Rust types)
    Prios,      \* priorities usable with replicate_with_priority
    MaxLen,     \* longest registration sequence
    HsLen,      \* pairs with Len(s1) <= HsLen enter the handshake machine
    HsFullLen,  \* all schedules are exported when Len(s1)+Len(s2) <= HsFullLen, else the canonical one
    MaxCF,      \* client frames per handshake behaviour
    MaxSF,      \* server frames per handshake behaviour
    Mutation,   \* "none" = the mechanism as implemented (= as designed); else a seeded defect
    Emit        \* TRUE: print cases for the replayer

VARIABLES
    stage,      \* "build" | "hs"
    s1,         \* registrations of the server app (after RepliconPlugins)
    s2,         \* registrations of the client app
    op,         \* the edit that produced s2 from s1
    hs,         \* handshake state (record)
    hist        \* handshake history: <<[a, auth, disc, notified, c2s, s2c], ...>>

vars == <<stage, s1, s2, op, hs, hist>>

\* For the non-vacuity configuration: the seeded defect is chosen by the environment variable
\* C14_MUTATION (cfg: Mutation <- MutationFromEnv), so one cfg serves all mutations.
MutationFromEnv == IF "C14_MUTATION" \in DOMAIN IOEnv THEN IOEnv.C14_MUTATION ELSE "none"

Types == 0 .. (NTypes - 1)

(***************************************************************************)
(* Registrations.  Nine kinds; p is meaningful for "custom" only.          *)
(*   single   app.replicate::<C>()                                         *)
(*   bundle   app.replicate_bundle::<(C,)>()                               *)
(*   custom   app.replicate_with_priority(p, RuleFns::<C>::default())      *)
(*   cevent   app.add_client_event::<E>(..)      sevent  add_server_event  *)
(*   ctrigger app.add_client_trigger::<E>(..)    strigger add_server_trigger*)
(*   ievent   app.make_event_independent::<E>()                            *)
(*   itrigger app.make_trigger_independent::<E>()                          *)
(***************************************************************************)
KindSeq == <<"single", "bundle", "custom", "cevent", "sevent", "ctrigger", "strigger",
             "ievent", "itrigger">>
Kinds == Range(KindSeq)
KindIdx(k) == CHOOSE i \in DOMAIN KindSeq : KindSeq[i] = k

Reg == [k : Kinds \ {"custom"}, t : Types, p : {0}] \cup [k : {"custom"}, t : Types, p : Prios]

\* make_event_independent / make_trigger_independent panic unless the event was
\* registered as a server event / trigger before (server_event.rs:180-205).
Valid(s) ==
    \A i \in DOMAIN s :
        /\ s[i].k = "ievent" => \E j \in 1 .. (i - 1) : s[j].k = "sevent" /\ s[j].t = s[i].t
        /\ s[i].k = "itrigger" => \E j \in 1 .. (i - 1) : s[j].k = "strigger" /\ s[j].t = s[i].t

(***************************************************************************)
(* (a) Reference: what a registration means for the protocol.              *)
(* replicate::<C>() IS replicate_with_priority(DEFAULT_PRIORITY = 1, ..)   *)
(* (replication_rules.rs:22-27, 418-420, 492-493), so "single" and         *)
(* "custom" with p = 1 are the same registration, not a difference in kind *)
(* or priority.  A bundle's priority is a function of its type.            *)
(***************************************************************************)
DefaultPriority == 1

NormReg(r) ==
    CASE r.k = "single" -> [class |-> "rule", t |-> r.t, p |-> DefaultPriority]
      [] r.k = "custom" -> [class |-> "rule", t |-> r.t, p |-> r.p]
      [] OTHER          -> [class |-> r.k, t |-> r.t, p |-> 0]

Norm(s) == [i \in DOMAIN s |-> NormReg(s[i])]

Compatible(a, b) == Norm(a) = Norm(b)

(***************************************************************************)
(* (b) As implemented: the tokens written to the FnvHasher.                *)
(*   fn hash<T>(part) { part.hash(h); type_name::<T>().hash(h) }           *)
(*   #[derive(Hash)] #[repr(u8)] enum ProtocolPart: one discriminant byte, *)
(*   then for Replicate the priority as u64 (8 bytes, fixed width);        *)
(*   str::hash writes the bytes of the name and a 0xff terminator.         *)
(* Tokens are naturals: 0..7 discriminants, 100+p a fixed-width priority,  *)
(* 200+t the name of pool type t, 300.. fixed pieces of generic names,     *)
(* 255 the terminator.                                                     *)
(***************************************************************************)
Disc(part) ==
    CASE part = "Replicate" -> 0 [] part = "ReplicateBundle" -> 1 [] part = "ClientEvent" -> 2
      [] part = "ClientTrigger" -> 3 [] part = "ServerEvent" -> 4 [] part = "ServerTrigger" -> 5
      [] part = "IndependentEvent" -> 6 [] part = "IndependentTrigger" -> 7

PartOf(r) ==
    CASE r.k \in {"single", "custom"} -> "Replicate"
      [] r.k = "bundle" -> "ReplicateBundle"
      [] r.k = "cevent" -> "ClientEvent"
      [] r.k = "ctrigger" -> "ClientTrigger"
      [] r.k = "sevent" -> "ServerEvent"
      [] r.k = "strigger" -> "ServerTrigger"
      [] r.k = "ievent" -> "IndependentEvent"
      [] r.k = "itrigger" -> "IndependentTrigger"

\* the priority argument that reaches ProtocolHasher::replicate::<R>(priority)
FedPriority(r) == IF r.k = "single" THEN DefaultPriority ELSE r.p

Term == 255
TyTok(t) == 200 + t
\* any::type_name::<R>() with R = RuleFns<C> for replicate / replicate_with_priority,
\* B = (C,) for replicate_bundle, E itself for events and triggers.
NameOf(r) ==
    CASE r.k \in {"single", "custom"} -> <<300, TyTok(r.t), 301>>      \* "RuleFns<" C ">"
      [] r.k = "bundle" -> <<302, TyTok(r.t), 303>>                    \* "(" C ",)"
      [] OTHER -> <<TyTok(r.t)>>

Chunk(r) ==
    LET part == PartOf(r)
        discTok == IF Mutation = "no_part" THEN <<>> ELSE <<Disc(part)>>
        prioTok == IF part = "Replicate" /\ Mutation # "no_priority"
                   THEN <<100 + FedPriority(r)>> ELSE <<>>
        nameTok == IF Mutation = "no_type" THEN <<Term>> ELSE NameOf(r) \o <<Term>>
    IN  IF Mutation = "no_indep" /\ r.k \in {"ievent", "itrigger"} THEN <<>>
        ELSE discTok \o prioTok \o nameTok

\* RepliconSharedPlugin::build registers, before anything the user does (shared.rs:148-152):
\* add_client_trigger::<ProtocolHash>, add_server_trigger::<ProtocolMismatch>,
\* make_trigger_independent::<ProtocolMismatch>.  Tokens 400/401 name the two built-in types.
Prelude == <<3, 400, Term, 5, 401, Term, 7, 401, Term>>

Chunks(s) == [i \in DOMAIN s |-> Chunk(s[i])]

\* The abstract hash: injective in what was fed (in the bag of chunks for the "unordered" mutation).
HashVal(s) ==
    IF Mutation = "unordered"
    THEN LET c == Chunks(s) IN [x \in Range(c) |-> Cardinality({i \in DOMAIN c : c[i] = x})]
    ELSE Prelude \o FlattenSeq(Chunks(s))

(***************************************************************************)
(* Single-step edits.                                                      *)
(***************************************************************************)
SwapAt(s, i) == [s EXCEPT ![i] = s[i + 1], ![i + 1] = s[i]]
InsAt(s, i, r) == SubSeq(s, 1, i - 1) \o <<r>> \o SubSeq(s, i, Len(s))
DelAt(s, i) == SubSeq(s, 1, i - 1) \o SubSeq(s, i + 1, Len(s))

MarkOf(r) == [k |-> IF r.k = "sevent" THEN "ievent" ELSE "itrigger", t |-> r.t, p |-> 0]

ToggleIndep(s, i) ==
    LET m == MarkOf(s[i])
        later == {j \in (i + 1) .. Len(s) : s[j] = m}
    IN  IF later # {} THEN {DelAt(s, CHOOSE j \in later : \A j2 \in later : j <= j2)}
        ELSE IF Len(s) < MaxLen THEN {InsAt(s, i + 1, m)} ELSE {}

RawEdits(s) ==
    {[op |-> "same", s2 |-> s]}
    \cup {[op |-> "swap", s2 |-> SwapAt(s, i)] : i \in 1 .. (Len(s) - 1)}
    \cup (IF Len(s) < MaxLen
          THEN {[op |-> "insert", s2 |-> InsAt(s, i, r)] : i \in 1 .. (Len(s) + 1), r \in Reg}
          ELSE {})
    \cup {[op |-> "delete", s2 |-> DelAt(s, i)] : i \in DOMAIN s}
    \cup UNION {{[op |-> "kind", s2 |-> [s EXCEPT ![i] = r]] :
                    r \in {r \in Reg : r.t = s[i].t /\ r.k # s[i].k}} : i \in DOMAIN s}
    \cup UNION {{[op |-> "type", s2 |-> [s EXCEPT ![i] = r]] :
                    r \in {r \in Reg : r.k = s[i].k /\ r.p = s[i].p /\ r.t # s[i].t}} : i \in DOMAIN s}
    \cup UNION {{[op |-> "prio", s2 |-> [s EXCEPT ![i] = r]] :
                    r \in {r \in Reg : r.k = "custom" /\ s[i].k = "custom" /\ r.t = s[i].t
                                        /\ r.p # s[i].p}} : i \in DOMAIN s}
    \cup UNION {{[op |-> "indep", s2 |-> x] : x \in ToggleIndep(s, i)} :
                    i \in {i \in DOMAIN s : s[i].k \in {"sevent", "strigger"}}}

Edits(s) == {e \in RawEdits(s) : Valid(e.s2)}

(***************************************************************************)
(* The hash half of the property, for one sequence and all its edits.      *)
(***************************************************************************)
HashSeparates(a, b) == (HashVal(a) = HashVal(b)) <=> Compatible(a, b)

(***************************************************************************)
(* Handshake machine (default AuthMethod::ProtocolCheck).                  *)
(*   conn      client status Connected and ConnectedClient spawned         *)
(*   just      client_just_connected will fire in the next client frame    *)
(*   c2s, s2c  messages drained from the sender, held by the network       *)
(*   sIn, cIn  messages inserted into the receiver, not yet processed      *)
(*   auth      AuthorizedClient present on the client's server entity      *)
(*   disc      DisconnectRequest events written so far                     *)
(*   notified  ProtocolMismatch triggers observed on the client so far     *)
(***************************************************************************)
HsInit == [conn |-> FALSE, just |-> FALSE, c2s |-> <<>>, sIn |-> <<>>, s2c |-> 0, cIn |-> 0,
           auth |-> FALSE, disc |-> 0, notified |-> 0, nC |-> 0, nS |-> 0]

Obs(a, h) == [a |-> a, auth |-> IF h.auth THEN 1 ELSE 0, disc |-> h.disc, notified |-> h.notified,
              c2s |-> Len(h.c2s), s2c |-> h.s2c]

ConnectF(h) == [h EXCEPT !.conn = TRUE, !.just = TRUE]

\* PreUpdate: received server triggers fire (one ProtocolMismatch per message), then
\* send_protocol_hash.run_if(client_just_connected); PostUpdate: the trigger is sent.
ClientFrameF(h, hashC) ==
    [h EXCEPT !.notified = @ + h.cIn, !.cIn = 0,
              !.c2s = IF h.conn /\ h.just THEN Append(@, hashC) ELSE @,
              !.just = FALSE, !.nC = @ + 1]

\* check_protocol, once per received ProtocolHash trigger
ServerFrameF(h, hashS) ==
    LET good == {i \in DOMAIN h.sIn : h.sIn[i] = hashS}
        bad == DOMAIN h.sIn \ good
        authNow == IF Mutation = "auth_always" THEN DOMAIN h.sIn # {} ELSE good # {}
        discNow == IF Mutation = "no_disconnect" THEN 0 ELSE Cardinality(bad)
    IN  [h EXCEPT !.auth = @ \/ authNow, !.s2c = @ + Cardinality(bad), !.disc = @ + discNow,
                  !.sIn = <<>>, !.nS = @ + 1]

DeliverC2SF(h) == [h EXCEPT !.sIn = Append(@, Head(h.c2s)), !.c2s = Tail(@)]
DeliverS2CF(h) == [h EXCEPT !.cIn = @ + h.s2c, !.s2c = 0]

(***************************************************************************)
(* The state machine.                                                      *)
(***************************************************************************)
Init ==
    /\ stage = "build" /\ s1 = <<>> /\ s2 = <<>> /\ op = "none" /\ hs = HsInit /\ hist = <<>>

Build ==
    /\ stage = "build" /\ Len(s1) < MaxLen
    /\ \E r \in Reg : Valid(Append(s1, r)) /\ s1' = Append(s1, r)
    /\ UNCHANGED <<stage, s2, op, hs, hist>>

Pick ==
    /\ stage = "build" /\ Len(s1) <= HsLen
    /\ \E e \in Edits(s1) : s2' = e.s2 /\ op' = e.op
    /\ stage' = "hs"
    /\ UNCHANGED <<s1, hs, hist>>

Step(a, h) == /\ hs' = h /\ hist' = Append(hist, Obs(a, h)) /\ UNCHANGED <<stage, s1, s2, op>>

Connect == stage = "hs" /\ ~hs.conn /\ Step("connect", ConnectF(hs))
ClientFrame == stage = "hs" /\ hs.nC < MaxCF /\ Step("cf", ClientFrameF(hs, HashVal(s2)))
ServerFrame == stage = "hs" /\ hs.nS < MaxSF /\ Step("sf", ServerFrameF(hs, HashVal(s1)))
DeliverC2S == stage = "hs" /\ hs.c2s # <<>> /\ Step("c2s", DeliverC2SF(hs))
DeliverS2C == stage = "hs" /\ hs.s2c > 0 /\ Step("s2c", DeliverS2CF(hs))

Next == Build \/ Pick \/ Connect \/ ClientFrame \/ ServerFrame \/ DeliverC2S \/ DeliverS2C

Spec == Init /\ [][Next]_vars

(***************************************************************************)
(* Properties.                                                             *)
(***************************************************************************)
TypeOK ==
    /\ stage \in {"build", "hs"}
    /\ Valid(s1) /\ Valid(s2) /\ Len(s1) <= MaxLen /\ Len(s2) <= MaxLen
    /\ hs.disc \in 0 .. 1 /\ hs.notified \in 0 .. 1 /\ hs.s2c \in 0 .. 1 /\ hs.cIn \in 0 .. 1

\* C14, first sentence: same sequence <=> same hash, over every sequence and every edit of it.
HashProperty == stage = "build" => \A e \in Edits(s1) : HashSeparates(s1, e.s2)

\* C14, second sentence.
Eq == Compatible(s1, s2)
ServerDecided == hs.conn /\ ~hs.just /\ hs.c2s = <<>> /\ hs.sIn = <<>>
ClientInformed == ServerDecided /\ hs.s2c = 0 /\ hs.cIn = 0

AuthOnlyOnMatch == stage = "hs" /\ hs.auth => Eq
MismatchOnlyOnMismatch == stage = "hs" /\ (hs.disc > 0 \/ hs.notified > 0 \/ hs.s2c > 0 \/ hs.cIn > 0) => ~Eq
NotBoth == stage = "hs" => ~(hs.auth /\ hs.disc > 0)
NotifiedImpliesRequested == stage = "hs" /\ (hs.notified > 0 \/ hs.s2c > 0 \/ hs.cIn > 0) => hs.disc = 1
\* "exactly when": once the server has processed the client's hash the outcome is decided ...
DecidedOutcome == stage = "hs" /\ ServerDecided => (IF Eq THEN hs.auth /\ hs.disc = 0 ELSE ~hs.auth /\ hs.disc = 1)
\* ... and once the notification has been delivered and a client frame ran, the client knows.
InformedOutcome == stage = "hs" /\ ClientInformed => hs.notified = (IF Eq THEN 0 ELSE 1)

\* The outcome the replayer expects from a complete handshake of a pair (exported with the pairs;
\* OutcomeMatches ties it to the machine above).
OutcomeOf(eq) == [auth |-> IF eq THEN 1 ELSE 0, disc |-> IF eq THEN 0 ELSE 1, notified |-> IF eq THEN 0 ELSE 1]
OutcomeMatches ==
    stage = "hs" /\ ClientInformed =>
        LET o == OutcomeOf(Eq) IN (o.auth = 1) = hs.auth /\ o.disc = hs.disc /\ o.notified = hs.notified

(***************************************************************************)
(* Export.                                                                 *)
(***************************************************************************)
Enc(s) == [i \in DOMAIN s |-> <<KindIdx(s[i].k) - 1, s[i].t, s[i].p>>]

\* the reference meaning of a sequence, for the replayer's check over ALL enumerated sequences
\* (not only single-step neighbours): hash equal <=> norm equal
EncNorm(s) == LET n == Norm(s) IN [i \in DOMAIN n |-> <<n[i].class, n[i].t, n[i].p>>]

PairsLine ==
    LET es == SetToSeq(Edits(s1))
    IN  [s1 |-> Enc(s1), norm |-> EncNorm(s1),
         edits |-> [i \in DOMAIN es |-> [op |-> es[i].op, s2 |-> Enc(es[i].s2),
                                          eq |-> Compatible(s1, es[i].s2),
                                          out |-> OutcomeOf(Compatible(s1, es[i].s2))]]]

EmitPairs == (Emit /\ stage = "build") => PrintT(<<"PAIRS", ToJson(PairsLine)>>)

Maximal == hs.conn /\ hs.nC = MaxCF /\ hs.nS = MaxSF /\ hs.c2s = <<>> /\ hs.s2c = 0

Repeat(x, n) == [i \in 1 .. n |-> x]
Canon == <<"connect", "cf", "c2s", "sf">> \o (IF Eq THEN <<>> ELSE <<"s2c">>)
         \o Repeat("cf", MaxCF - 1) \o Repeat("sf", MaxSF - 1)
Acts == [i \in DOMAIN hist |-> hist[i].a]

EmitHs ==
    (Emit /\ stage = "hs" /\ Maximal /\ (Len(s1) + Len(s2) <= HsFullLen \/ Acts = Canon)) =>
        PrintT(<<"HS", ToJson([s1 |-> Enc(s1), s2 |-> Enc(s2), op |-> op, eq |-> Eq,
                               canon |-> (Acts = Canon), steps |-> hist])>>)
=============================================================================
