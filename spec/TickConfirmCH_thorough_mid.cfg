\* C12 ConfirmHistory as designed: every confirm sequence of length <= 4 over the mid alphabet (16 deltas)
SPECIFICATION Spec
CONSTANTS
  ImplBug_F6_Shl = FALSE
  ImplBug_F6_Range = FALSE
  OverflowChecks = TRUE
  LimbBits = 16
  N = 4
  Deltas <- DeltasMid
  QAgo <- QAgoFull
  Emit = TRUE
INVARIANTS C12_CH NoPanic EmitInit
ACTION_CONSTRAINT EmitEdge
CHECK_DEADLOCK FALSE
