SPECIFICATION SpecS
CONSTANTS
    Chan = {0, 2}
    Peer = {1, 2}
    MaxOps = 4
    Impl = "Design"
INVARIANT Inv
INVARIANT Export
CHECK_DEADLOCK FALSE
