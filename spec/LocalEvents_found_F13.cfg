\* C13 non-vacuity: the quick instance with ClientEvent::resend_locally as found on the pinned tree (F13); TLC must report ExactlyOnce or NoPanic violated.
SPECIFICATION Spec
CONSTANTS
    Kinds = {"cev", "ctr", "ctt", "phash", "sev", "sevi", "str", "stt"}
    Builds = {TRUE, FALSE}
    MaxFrames = 4
    MaxEmit = 2
    MaxOps = 2
    MaxGap = 2
    ImplBug_F13 = TRUE
    ImplBug_Direct = FALSE
    Gen = FALSE
INVARIANTS
    TypeOK
    NoHybrid
    ExactlyOnce
    NoNetWithoutConnection
    NoPanic

CHECK_DEADLOCK FALSE
