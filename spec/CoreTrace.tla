------------------------------ MODULE CoreTrace ------------------------------
(***************************************************************************)
(* Trace validator: checks an execution recorded from the real apps        *)
(* (harness/src/driver.rs, one NDJSON line per harness step) against Core. *)
(*                                                                         *)
(* For every recorded step                                                 *)
(*     pred = ActionF(cur, args)      the spec's prediction from the       *)
(*                                    previously *observed* state          *)
(*     obs  = StateOf(post)           the projected real state             *)
(* every field in which pred and obs differ is reported (DIFF), then the   *)
(* validator resynchronises on obs, so one deviation does not hide the     *)
(* rest of the trace.  Independently, every property formula of Props is   *)
(* evaluated on obs (VIOL) - these monitors do not depend on the model of  *)
(* the mechanism.  A file holds runs of one configuration; an "Init" line  *)
(* starts a new run.                                                       *)
(***************************************************************************)
EXTENDS Integers, Sequences, FiniteSets, TLC, Json, IOUtils, CurrentTree

Rec == ndJsonDeserialize(IOEnv.TRACE)
Cfg == Rec[1].args
ToSet(s) == {s[i] : i \in 1..Len(s)}

P == INSTANCE PropsE WITH Ent <- ToSet(Cfg.ents), Client <- ToSet(Cfg.clients), Policy <- Cfg.policy,
                         Track <- Cfg.track, Timeout <- Cfg.timeout_ms, Impl <- ImplCurrentTree

Ents == ToSet(Cfg.ents)
Clients == ToSet(Cfg.clients)

----------------------------------------------------------------------------
(* JSON -> normal form of the state record *)

NormEnt(w) == [used |-> w.used, alive |-> w.alive, repl |-> w.repl, markerAdd |-> w.markerAdd,
               comps |-> [k \in DOMAIN w.comps |-> [val |-> w.comps[k].val, chg |-> w.comps[k].chg, add |-> w.comps[k].add]],
               ver |-> w.ver]

NormSrvCl(o) ==
    [conn |-> o.conn, auth |-> o.auth, updTick |-> o.updTick, mutTick |-> o.mutTick,
     inflight |-> {[idx |-> m.idx, f |-> m.f, ents |-> ToSet(m.ents), ts |-> m.ts] : m \in ToSet(o.inflight)},
     nextIdx |-> o.nextIdx,
     vis |-> [kind |-> o.vis.kind, list |-> o.vis.list, added |-> ToSet(o.vis.added), removed |-> ToSet(o.vis.removed)],
     pendingMap |-> o.pendingMap]

\* ord / rord: the order of the records on the wire, as observed (an input of the client's apply functions)
NormUpd(m) == [tick |-> m.tick, maps |-> ToSet(m.maps), desp |-> m.desp,
               rems |-> [e \in DOMAIN m.rems |-> ToSet(m.rems[e])], chg |-> m.chg, rord |-> m.rorder, ord |-> m.order]
NormMut(m) == [upd |-> m.upd, tick |-> m.tick, cnt |-> m.cnt, idx |-> m.idx, ents |-> m.ents, ord |-> m.order]
MapSeq(s, F(_)) == [i \in 1..Len(s) |-> F(s[i])]

NormNet(n) == [upd |-> MapSeq(n.upd, NormUpd), mut |-> MapSeq(n.mut, NormMut), ack |-> n.ack,
               rxUpd |-> MapSeq(n.rxUpd, NormUpd), rxMut |-> MapSeq(n.rxMut, NormMut), srxAck |-> n.srxAck]

NormCli(o, lastNotDisc, preUsed, mt) ==
    [status |-> o.status, updTick |-> o.updTick,
     ents |-> [e \in DOMAIN o.ents |-> [alive |-> o.ents[e].alive, marker |-> o.ents[e].marker,
                                         comps |-> o.ents[e].comps, hist |-> o.ents[e].hist, pre |-> o.ents[e].pre]],
     pre |-> o.pre, preUsed |-> preUsed, extra |-> o.extra, mt |-> mt, notif |-> o.notif,
     buf |-> MapSeq(o.buf, LAMBDA b : [upd |-> b.upd, tick |-> b.tick, cnt |-> b.cnt, ents |-> b.ents, idx |-> b.idx, ord |-> b.order]),
     lastNotDisc |-> lastNotDisc, panicked |-> o.panicked]

\* fields the harness cannot observe are carried over from the prediction
StateOf(post, pred) ==
    [srv |-> [tick |-> post.srv.tick, frame |-> post.srv.frame, lastRun |-> pred.srv.lastRun,
              running |-> post.srv.running, wasRunning |-> pred.srv.wasRunning, tickChanged |-> pred.srv.tickChanged,
              tickMaybe |-> pred.srv.tickMaybe, timerAcc |-> pred.srv.timerAcc, now |-> post.srv.now,
              world |-> [e \in Ents |-> NormEnt(post.srv.world[e])],
              remEv |-> pred.srv.remEv, remEvOld |-> pred.srv.remEvOld,
              despawnBuf |-> post.srv.despawnBuf,
              removalBuf |-> [e \in DOMAIN post.srv.removalBuf |-> ToSet(post.srv.removalBuf[e])],
              cl |-> [c \in Clients |-> NormSrvCl(post.srv.cl[c])]],
     net |-> [c \in Clients |-> NormNet(post.net[c])],
     cli |-> [c \in Clients |-> NormCli(post.cli[c], pred.cli[c].lastNotDisc, pred.cli[c].preUsed, pred.cli[c].mt)],
     \* events: the channels are observed, the buffers inside the apps are carried over
     ev |-> [pred.ev EXCEPT !.net = [c \in Clients |-> post.ev.net[c]]]]

----------------------------------------------------------------------------
(* per-field comparison *)

ClFields == {"conn", "auth", "updTick", "mutTick", "inflight", "nextIdx", "vis", "pendingMap"}
NetFields == {"upd", "mut", "ack", "rxUpd", "rxMut", "srxAck"}
CliFields == {"status", "updTick", "ents", "buf", "panicked", "pre", "extra", "notif"}
EvNetFields == {"sev", "rxSev", "cev", "srxCev"}
SrvFields == {"tick", "frame", "running", "now", "world", "despawnBuf", "removalBuf"}

\* the order of the records inside a message is not predicted (it is Bevy's archetype order)
NoOrd(f, v) == IF f \in {"upd", "rxUpd"} THEN MapSeq(v, LAMBDA m : [m EXCEPT !.ord = <<>>, !.rord = <<>>])
               ELSE IF f \in {"mut", "rxMut", "buf"} THEN MapSeq(v, LAMBDA m : [m EXCEPT !.ord = <<>>])
               ELSE v

Diffs(p, o) ==
    {<<"srv", f, "-">> : f \in {x \in SrvFields : p.srv[x] # o.srv[x]}}
    \cup UNION {{<<"srv.cl", f, c>> : f \in {x \in ClFields : p.srv.cl[c][x] # o.srv.cl[c][x]}} : c \in Clients}
    \cup UNION {{<<"net", f, c>> : f \in {x \in NetFields : NoOrd(x, p.net[c][x]) # NoOrd(x, o.net[c][x])}} : c \in Clients}
    \cup UNION {{<<"cli", f, c>> : f \in {x \in CliFields : NoOrd(x, p.cli[c][x]) # NoOrd(x, o.cli[c][x])}} : c \in Clients}
    \cup UNION {{<<"ev.net", f, c>> : f \in {x \in EvNetFields : p.ev.net[c][x] # o.ev.net[c][x]}} : c \in Clients}

FieldVal(s, d) == CASE d[1] = "srv" -> s.srv[d[2]]
                    [] d[1] = "srv.cl" -> s.srv.cl[d[3]][d[2]]
                    [] d[1] = "net" -> s.net[d[3]][d[2]]
                    [] d[1] = "ev.net" -> s.ev.net[d[3]][d[2]]
                    [] OTHER -> s.cli[d[3]][d[2]]

----------------------------------------------------------------------------
(* prediction *)

MutParts(sent, c) ==
    LET ms == SelectSeq(sent, LAMBDA x : x.c = c /\ x.ch = "mut")
    IN [i \in 1..Len(ms) |-> DOMAIN ms[i].m.ents]

\* [st, ok, ran]: predicted state, whether the step was enabled / the split acceptable, whether replication ran
Predict(cur, r) ==
    LET a == r.args
        Plain(s, en) == [st |-> s, ok |-> en, ran |-> FALSE, delivered |-> <<>>]
        authNone == Cfg.auth = "none"
    IN CASE r.ev = "Spawn"    -> Plain(P!SpawnF(cur, a.e, ToSet(a.comps), a.repl), P!SpawnEnabled(cur, a.e))
         [] r.ev = "Despawn"  -> Plain(P!DespawnF(cur, a.e), P!DespawnEnabled(cur, a.e))
         [] r.ev = "Mark"     -> Plain(P!MarkF(cur, a.e), P!MarkEnabled(cur, a.e))
         [] r.ev = "Unmark"   -> Plain(P!UnmarkF(cur, a.e), P!UnmarkEnabled(cur, a.e))
         [] r.ev = "Insert"   -> Plain(P!InsertF(cur, a.e, a.k), P!InsertEnabled(cur, a.e, a.k))
         [] r.ev = "Remove"   -> Plain(P!RemoveF(cur, a.e, a.k), P!RemoveEnabled(cur, a.e, a.k))
         [] r.ev = "Mutate"   -> Plain(P!MutateF(cur, a.e, a.k), P!MutateEnabled(cur, a.e, a.k))
         [] r.ev = "Relate"   -> Plain(P!RelateF(cur, a.e, a.p), P!RelateEnabled(cur, a.e, a.p))
         [] r.ev = "Unrelate" -> Plain(P!UnrelateF(cur, a.e), P!UnrelateEnabled(cur, a.e))
         [] r.ev = "SetVis"   -> Plain(P!SetVisF(cur, a.c, a.e, a.v), P!SetVisEnabled(cur, a.c))
         [] r.ev = "SrvFrame" ->
                \* a pending reset (see Core.ResolveReset) is resolved by what the real server did
                LET pre == P!ResolveReset(P!SrvFramePre(cur, a.tick, a.dt), a.tick, r.post.srv.ran)
                    parts == IF P!WillReplicate(pre) THEN [c \in Clients |-> MutParts(r.obs.sent, c)] ELSE <<>>
                    res == P!SrvFramePost(pre, parts, 0)
                    evr == P!SrvFrameEv(res.st, cur, res.ran)
                IN [st |-> evr.st, ok |-> res.partsOK, ran |-> res.ran, delivered |-> evr.delivered]
         [] r.ev = "CliFrame"   ->
                LET evr == P!CliFrameEv(P!CliFrameF(cur, a.c), a.c)
                IN [st |-> evr.st, ok |-> TRUE, ran |-> FALSE, delivered |-> evr.delivered]
         [] r.ev = "EmitS"      -> Plain(P!EmitSF(cur, [t |-> a.t, id |-> a.id, mode |-> a.mode, to |-> a.to, sess |-> 0, e |-> a.e]), TRUE)
         [] r.ev = "EmitC"      -> Plain(P!EmitCF(cur, a.c, [t |-> a.t, id |-> a.id, e |-> a.e]), TRUE)
         [] r.ev = "DeliverEvS" -> Plain(P!DeliverEvSF(cur, a.c, a.t, a.pos + 1), P!DeliverEvSEnabled(cur, a.c, a.t, a.pos + 1))
         [] r.ev = "DropEvS"    -> Plain(P!DropEvSF(cur, a.c, a.t, a.pos + 1), P!DropEvSEnabled(cur, a.c, a.t, a.pos + 1))
         [] r.ev = "DropEvC"    -> Plain(P!DropEvCF(cur, a.c, a.t, a.pos + 1), P!DropEvCEnabled(cur, a.c, a.t, a.pos + 1))
         [] r.ev = "DeliverEvC" -> Plain(P!DeliverEvCF(cur, a.c, a.t, a.pos + 1), P!DeliverEvCEnabled(cur, a.c, a.t, a.pos + 1))
         [] r.ev = "Prespawn"   -> Plain(P!PrespawnF(cur, a.c, a.p), P!PrespawnEnabled(cur, a.c, a.p))
         [] r.ev = "KillPre"    -> Plain(P!KillPreF(cur, a.c, a.p), P!KillPreEnabled(cur, a.c, a.p))
         [] r.ev = "MapPre"     -> Plain(P!MapPreF(cur, a.c, a.e, a.p), P!MapPreEnabled(cur, a.c, a.e, a.p))
         [] r.ev = "LoseToConnecting" -> Plain(P!DisconnectEvF(P!LoseToConnectingF(cur, a.c), a.c), P!DisconnectEnabled(cur, a.c))
         [] r.ev = "GiveUp"     -> Plain(P!GiveUpF(cur, a.c), P!GiveUpEnabled(cur, a.c))
         [] r.ev = "Stop"       -> Plain(P!StopEvF(P!StopF(cur)), P!StopEnabled(cur))
         [] r.ev = "Start"      -> Plain(P!StartF(cur), P!StartEnabled(cur))
         [] r.ev = "Authorize"  -> Plain(P!AuthorizeF(cur, a.c), cur.srv.cl[a.c].conn)
         [] r.ev = "DeliverUpd" -> Plain(P!DeliverUpdF(cur, a.c), P!DeliverUpdEnabled(cur, a.c))
         [] r.ev = "DeliverMut" -> Plain(P!DeliverMutF(cur, a.c, a.pos + 1), P!MutEnabled(cur, a.c, a.pos + 1))
         [] r.ev = "DropMut"    -> Plain(P!DropMutF(cur, a.c, a.pos + 1), P!MutEnabled(cur, a.c, a.pos + 1))
         [] r.ev = "DeliverAck" -> Plain(P!DeliverAckF(cur, a.c), P!DeliverAckEnabled(cur, a.c))
         [] r.ev = "Connect"    -> Plain(P!ConnectEvF(IF authNone THEN P!ConnectF(cur, a.c) ELSE P!ConnectUnauthF(cur, a.c), a.c),
                                         P!ConnectEnabled(cur, a.c))
         [] r.ev = "Disconnect" -> Plain(P!DisconnectEvF(P!DisconnectF(cur, a.c), a.c), P!DisconnectEnabled(cur, a.c))
         [] r.ev = "NotEnabled" -> Plain(cur, FALSE)     \* replay: the real apps refused an action the spec allowed
         [] OTHER               -> Plain(cur, TRUE)      \* Quiesce, AtRest: no state change

----------------------------------------------------------------------------
VARIABLES l, cur, g, ge, g12, nd, nv, vseen

vars == <<l, cur, g, ge, g12, nd, nv, vseen>>

G12Init == [processed |-> [c \in Clients |-> <<>>],     \* per client: tick |-> mutate messages processed so far
            \* C11 (re-sending): content of every mutate message sent, values sent reliably, values acknowledged
            sentM |-> [c \in Clients |-> <<>>], rel |-> [c \in Clients |-> {}], acked |-> [c \in Clients |-> {}]]

(* C11, the re-sending half, on observations only: in every tick in which replication runs, each current value of
   a continuously replicated component of an entity the server has established for the client is either
   covered - it travelled in an update message (reliable), or in a mutate message the client acknowledged - or
   it is in this tick's messages.  Values are version counters, so <<e, k, v>> names one write.  (The relation
   component is left out: its values are names, not numbers.) *)
Triples(ents) == UNION {{<<e, k, ents[e][k]>> : k \in (DOMAIN ents[e]) \ {P!REL}} : e \in DOMAIN ents}
SentTo(r, c, ch) == {x.m : x \in {y \in ToSet(r.obs.sent) : y.c = c /\ y.ch = ch}}
G11Step(b, r, old) ==
    IF r.ev = "SrvFrame"
    THEN [b EXCEPT
            !.acked = [c \in Clients |->
                         @[c] \cup UNION {UNION {IF i \in DOMAIN b.sentM[c] THEN b.sentM[c][i] ELSE {} : i \in ToSet(a)}
                                          : a \in ToSet(old.net[c].srxAck)}],
            !.sentM = [c \in Clients |->
                         [i \in (DOMAIN @[c]) \cup {m.idx : m \in SentTo(r, c, "mut")} |->
                             LET new == {m \in SentTo(r, c, "mut") : m.idx = i}
                             IN IF new # {} THEN Triples((CHOOSE m \in new : TRUE).ents) ELSE @[c][i]]],
            !.rel = [c \in Clients |-> @[c] \cup UNION {Triples(m.chg) : m \in SentTo(r, c, "upd")}]]
    ELSE IF r.ev \in {"Connect", "Disconnect", "LoseToConnecting"}
    THEN [b EXCEPT !.sentM[r.args.c] = <<>>, !.rel[r.args.c] = {}, !.acked[r.args.c] = {}]
    ELSE b

C11_MustSend(r, old, obs, b) ==      \* b: the ghost after G11Step of this frame
    \A c \in Clients :
        (old.srv.cl[c].conn /\ old.srv.cl[c].auth /\ obs.srv.cl[c].conn /\ obs.srv.cl[c].auth) =>
            LET now == UNION {Triples(m.ents) : m \in SentTo(r, c, "mut")} \cup UNION {Triples(m.chg) : m \in SentTo(r, c, "upd")}
            IN \A e \in (DOMAIN obs.srv.cl[c].mutTick) \cap P!ReplEnts(obs.srv) :
                  P!IsVisible(obs.srv.cl[c].vis, e) =>
                     \A k \in {x \in DOMAIN obs.srv.world[e].comps : x # P!REL /\ P!Rate(x) = "every"} :
                        LET t == <<e, k, obs.srv.world[e].comps[k].val>>
                        IN t \in b.rel[c] \/ t \in b.acked[c] \/ t \in now

Init == l = 1 /\ cur = P!InitStateE /\ g = P!GhostInit /\ ge = P!EvGhostInit /\ g12 = G12Init /\ nd = 0 /\ nv = 0 /\ vseen = {}

GhostStep(gg, r, pre, obs, ran) ==
    LET sentNow == Len(SelectSeq(r.obs.sent, LAMBDA x : x.ch = "upd" \/ x.ch = "mut"))
        g1 == IF r.ev = "SrvFrame" THEN [gg EXCEPT !.sentAtRest = sentNow] ELSE gg
        g2 == IF r.ev = "SrvFrame" /\ ran THEN P!GhostSnap(P!GhostMaps(g1, pre, obs), obs) ELSE g1
        g3 == IF r.ev = "SetVis" THEN P!GhostSetVis(g2, r.args.c, r.args.e, r.args.v) ELSE g2
        g4 == IF r.ev = "Connect" THEN [g3 EXCEPT !.lastSet[r.args.c] = <<>>, !.mapsSent[r.args.c] = {}, !.onceSent[r.args.c] = {}] ELSE g3
        \* a restarted server counts its ticks from 0 again: the snapshots of the old run are void
        g5 == IF r.ev = "Stop" THEN [g4 EXCEPT !.snap = <<>>, !.visAt = <<>>, !.onceSent = [c \in Clients |-> {}]] ELSE g4
    IN g5

----------------------------------------------------------------------------
(* observations of one step, in the vocabulary of PropsE *)

IsEvCh(ch) == ch \notin {"upd", "mut", "ack"}
\* event messages the server put on the wire in this frame: [c, t, id, stamp, e]
SentEv(r) == {[c |-> x.c, t |-> x.m.t, id |-> x.m.id, stamp |-> x.m.stamp, e |-> x.m.e]
              : x \in {y \in ToSet(r.obs.sent) : y.c \in Clients /\ IsEvCh(y.ch)}}
\* everything the server put on the wire: [c, ch, t]
SentAll(r) == {[c |-> x.c, ch |-> IF IsEvCh(x.ch) THEN "ev" ELSE x.ch, t |-> IF IsEvCh(x.ch) THEN x.m.t ELSE "-"]
               : x \in {y \in ToSet(r.obs.sent) : y.c \in Clients}}
CliDeliveries(r) == MapSeq(r.obs.delivered, LAMBDA d : [t |-> d.t, id |-> d.id, upd |-> d.upd, e |-> d.e])
SrvDeliveries(r) == MapSeq(SelectSeq(r.obs.delivered, LAMBDA d : d.t \in P!CEvSet),
                           LAMBDA d : [t |-> d.t, id |-> d.id, from |-> d.from, e |-> d.e])

\* per-type view of a delivery sequence (the order across types is not observable)
PerType(dl, types) == [t \in types |-> SelectSeq(dl, LAMBDA d : d.t = t)]
PredCli(dl) == MapSeq(dl, LAMBDA d : [t |-> d.t, id |-> d.id, upd |-> d.upd, e |-> d.e])
PredSrv(dl) == MapSeq(dl, LAMBDA d : [t |-> d.t, id |-> d.id, from |-> d.from, e |-> d.e])
PerTypeFrom(dl) == [t \in P!CEvSet |-> [c \in Clients |-> SelectSeq(dl, LAMBDA d : d.t = t /\ d.from = c)]]

DeliveryDiff(r, pr) ==
    IF r.ev = "CliFrame"
    THEN IF PerType(CliDeliveries(r), P!SEvSet) # PerType(PredCli(pr.delivered), P!SEvSet)
         THEN {<<"delivered", "client", r.args.c>>} ELSE {}
    ELSE IF r.ev = "SrvFrame"
    THEN IF PerTypeFrom(SrvDeliveries(r)) # PerTypeFrom(PredSrv(pr.delivered))
         THEN {<<"delivered", "server", "-">>} ELSE {}
    ELSE {}

EvGhostStep(gg, r, pre, obs) ==
    IF r.ev = "SrvFrame" THEN P!EvGhostSrvFrame(gg, pre, obs, SentEv(r), SrvDeliveries(r))
    ELSE IF r.ev = "CliFrame" THEN P!EvGhostCliFrame(gg, pre, obs, r.args.c, CliDeliveries(r))
    ELSE IF r.ev = "Connect" THEN P!EvGhostConnect(gg, r.args.c)
    ELSE gg

(* C12 end to end (tracking on): a tick is reported exactly once, in the frame in which the last of the
   mutate messages the server sent for it is processed.  Counted on observations only: a message is
   processed in a client frame iff it was buffered or delivered before and is not buffered afterwards. *)
TickCount(s, T) == Cardinality({i \in 1..Len(s) : s[i].tick = T})
Processed(old, obs, c, T) == TickCount(old.cli[c].buf, T) + TickCount(old.net[c].rxMut, T) - TickCount(obs.cli[c].buf, T)
TicksSeen(old, c) == {old.cli[c].buf[i].tick : i \in 1..Len(old.cli[c].buf)} \cup {old.net[c].rxMut[i].tick : i \in 1..Len(old.net[c].rxMut)}
CntOf(old, c, T) == LET ms == {old.cli[c].buf[i] : i \in 1..Len(old.cli[c].buf)} \cup {old.net[c].rxMut[i] : i \in 1..Len(old.net[c].rxMut)}
                    IN (CHOOSE m \in {x \in ms : x.tick = T} : TRUE).cnt
C12_E2E(old, obs, gg, c) ==
    LET notif == obs.cli[c].notif
        before(T) == IF T \in DOMAIN gg.processed[c] THEN gg.processed[c][T] ELSE 0
    IN /\ \A i, j \in 1..Len(notif) : i # j => notif[i] # notif[j]
       /\ \A T \in TicksSeen(old, c) :
             LET total == before(T) + Processed(old, obs, c, T)
                 done == Processed(old, obs, c, T) > 0 /\ total = CntOf(old, c, T)
                 told == \E i \in 1..Len(notif) : notif[i] = T
                 \* a tick 64 or more behind the newest tick processed is outside the tracker's window: it counts
                 \* as received and need not be notified (C12's first sentence)
                 seen == (DOMAIN gg.processed[c]) \cup {X \in TicksSeen(old, c) : Processed(old, obs, c, X) > 0} \cup {0}
                 newest == CHOOSE x \in seen : \A y \in seen : y <= x
             IN (told => done) /\ ((done /\ newest - T < 64) => told)
       /\ \A i \in 1..Len(notif) : notif[i] \in TicksSeen(old, c)

\* monitors evaluated on the observed state; `gePre` is the event ghost before this step
Violations(r, old, obs, gg, gePre, geNew, gg12) ==
    {p \in {"C01", "C02", "C02mono", "C03", "C03mono", "C08data", "C08query", "C11rest", "panic",
            "C04stamp", "C04delivery", "C05recipients", "C05delivery", "C05complete", "C05server", "C05serverComplete",
            "C07unauth", "C16", "C12e2e", "C11must"} :
        CASE p = "C01"      -> r.ev = "Quiesce" /\ ~P!C01_AtQuiescence(obs)
          [] p = "C02"      -> ~P!C02(obs, gg)
          [] p = "C02mono"  -> r.ev # "Init" /\ ~P!C02_MonoStep(old, obs)
          [] p = "C03"      -> ~P!C03(obs, gg)
          [] p = "C03mono"  -> r.ev # "Init" /\ ~P!C03_MonoStep(old, obs)
          [] p = "C08data"  -> ~P!C08_Data(obs, gg)
          [] p = "C08query" -> ~P!C08_Query(obs, gg)
          [] p = "C11rest"  -> r.ev = "AtRest" /\ ~P!C11_SilentAtRest(gg)
          [] p = "C16"      -> ~P!C16(obs, gg)
          [] p = "C11must"  -> r.ev = "SrvFrame" /\ r.post.srv.ran /\ ~C11_MustSend(r, old, obs, G11Step(gg12, r, old))
          [] p = "C12e2e"   -> Cfg.track /\ r.ev = "CliFrame" /\ old.cli[r.args.c].status = "Connected"
                               /\ ~C12_E2E(old, obs, gg12, r.args.c)
          [] p = "C04stamp" -> r.ev = "SrvFrame" /\ ~P!C04_Stamp(obs, SentEv(r))
          [] p = "C04delivery" -> r.ev = "CliFrame" /\ ~P!C04_Delivery(obs, gePre, r.args.c, CliDeliveries(r))
          [] p = "C05recipients" -> r.ev = "SrvFrame" /\ ~P!C05_Recipients(old, geNew, SentEv(r))
          [] p = "C05delivery" -> r.ev = "CliFrame" /\ ~P!C05_Delivery(obs, gePre, r.args.c, CliDeliveries(r))
          [] p = "C05complete" -> r.ev = "Quiesce" /\ ~P!C05_Complete(obs, geNew)
          [] p = "C05server" -> r.ev = "SrvFrame" /\ ~P!C05_ServerDelivery(obs, gePre, SrvDeliveries(r))
          [] p = "C05serverComplete" -> r.ev = "Quiesce" /\ ~P!C05_ServerComplete(obs, geNew)
          [] p = "C07unauth" -> r.ev = "SrvFrame" /\ ~P!C07_Unauthorized(obs, SentAll(r))
          [] OTHER          -> r.obs.panic # "none"}

MaxPrint == 40

\* monitors-only mode (relation profiles: the hierarchy is not part of the core model, so only the
\* property monitors are evaluated on the observed states; no conformance)
MonitorsOnly == "MONITORS_ONLY" \in DOMAIN IOEnv

\* relation profiles: at quiescence every held entity has the parent the server has (through the map)
ParentsAgree(post) ==
    \A c \in Clients : (post.srv.cl[c].conn /\ post.srv.cl[c].auth /\ post.cli[c].status = "Connected") =>
        \A e \in DOMAIN post.cli[c].ents :
            (post.cli[c].ents[e].alive /\ post.cli[c].ents[e].hist >= 0 /\ post.srv.world[e].alive /\ post.srv.world[e].repl)
                => post.cli[c].ents[e].parent = post.srv.world[e].parent

Step ==
    /\ l <= Len(Rec)
    /\ LET r == Rec[l]
           isInit == r.ev = "Init"
           base == IF isInit THEN P!InitStateE ELSE cur
           geBase == IF isInit THEN P!EvGhostInit ELSE ge
       IN \E pr \in {Predict(base, r)} :
          \E obs \in {StateOf(r.post, pr.st)} :
          \E g1 \in {GhostStep(IF isInit THEN P!GhostInit ELSE g, r, base, obs, pr.ran)} :
          \E ge1 \in {EvGhostStep(geBase, r, base, obs)} :
            LET ds == IF MonitorsOnly THEN {}
                      ELSE Diffs(pr.st, obs) \cup (IF pr.ok THEN {} ELSE {<<"enabled", r.ev, "-">>}) \cup DeliveryDiff(r, pr)
                           \* send_replication ran in this frame iff the spec says so
                           \cup (IF r.ev = "SrvFrame" /\ pr.ran # r.post.srv.ran THEN {<<"ran", "SrvFrame", "-">>} ELSE {})
                vs == Violations(r, base, obs, g1, geBase, ge1, IF isInit THEN G12Init ELSE g12)
                      \cup (IF r.ev = "Quiesce" /\ Cfg.rel /\ ~ParentsAgree(r.post) THEN {"C01parent"} ELSE {})
                printable(d) == d[1] \notin {"enabled", "delivered", "ran"}
            IN /\ \A d \in ds :
                    (nd < MaxPrint) =>
                        PrintT(<<"DIFF", ToJson([run |-> r.run, i |-> r.i, ev |-> r.ev, kind |-> d[1], field |-> d[2], c |-> d[3],
                                                 pred |-> IF printable(d) THEN ToJson(FieldVal(pr.st, d))
                                                          ELSE IF d[1] = "delivered" THEN ToJson(pr.delivered) ELSE "",
                                                 obs |-> IF printable(d) THEN ToJson(FieldVal(obs, d))
                                                         ELSE IF d[1] = "delivered" THEN ToJson(r.obs.delivered) ELSE ""])>>)
               \* the first violation of each property in each run is reported (nv counts them all)
               /\ \A v \in vs \ (IF isInit THEN {} ELSE vseen) :
                    PrintT(<<"VIOL", ToJson([run |-> r.run, i |-> r.i, ev |-> r.ev, prop |-> v])>>)
               /\ vseen' = (IF isInit THEN {} ELSE vseen) \cup vs
               /\ nd' = nd + Cardinality(ds)
               /\ nv' = nv + Cardinality(vs)
               /\ cur' = obs
               /\ g' = g1
               /\ ge' = ge1
               /\ g12' = LET b == G11Step(IF isInit THEN G12Init ELSE g12, r, base)
                          IN IF r.ev = "CliFrame" /\ Cfg.track
                             THEN IF obs.cli[r.args.c].status # "Connected" \/ base.cli[r.args.c].status # "Connected"
                                  THEN [b EXCEPT !.processed[r.args.c] = <<>>]
                                  ELSE [b EXCEPT !.processed[r.args.c] =
                                          [T \in (DOMAIN @) \cup TicksSeen(base, r.args.c) |->
                                              (IF T \in DOMAIN @ THEN @[T] ELSE 0) + Processed(base, obs, r.args.c, T)]]
                             ELSE IF r.ev = "Stop" THEN G12Init
                             ELSE IF r.ev = "Disconnect" THEN [b EXCEPT !.processed = G12Init.processed] ELSE b
    /\ l' = l + 1

Spec == Init /\ [][Step]_vars

Done == (l = Len(Rec) + 1) => PrintT(<<"DONE", ToJson([lines |-> Len(Rec), diffs |-> nd, viols |-> nv])>>)

=============================================================================
