\* C13 non-vacuity: as LocalEvents_found_F13.cfg without the ProtocolHash kind; TLC must report ExactlyOnce violated (the event itself is handled through both paths).
SPECIFICATION Spec
CONSTANTS
    Kinds = {"cev", "ctr", "ctt"}
    Builds = {TRUE, FALSE}
    MaxFrames = 4
    MaxEmit = 2
    MaxOps = 2
    MaxGap = 2
    ImplBug_F13 = TRUE
    ImplBug_Direct = FALSE
    Gen = FALSE
INVARIANTS
    TypeOK
    NoHybrid
    ExactlyOnce
    NoNetWithoutConnection
    NoPanic

CHECK_DEADLOCK FALSE
