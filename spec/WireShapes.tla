------------------------------- MODULE WireShapes -------------------------------
(***************************************************************************)
(* C06 - "No client input can crash or exhaust the server".                *)
(*                                                                         *)
(* Grammar-level model of every client -> server channel of the harness    *)
(* configuration (AuthMethod::ProtocolCheck):                              *)
(*                                                                         *)
(*   id  name   message format (postcard 1.1.3)                            *)
(*   0   ack    MutateIndex*            fixint u16 LE, repeated            *)
(*   1   hash   trigger(ProtocolHash)   count, entity*, varint u64         *)
(*   2   e1     E1 { a: u32 }           varint u32                         *)
(*   3   e2     E2 { e: Entity, v: Vec<u8> }   (mapped event)              *)
(*                                      varint u64 (Entity::to_bits), len, bytes *)
(*   4   t1     trigger(T1 { x: u16 })  count, entity*, varint u16         *)
(*   5   t2     trigger(T2 { e: Entity })  (mapped trigger)                *)
(*                                      count, entity*, varint u64 (bits)  *)
(*                                                                         *)
(*   trigger target `entity` = entity_serde: flagged index (varint u64,    *)
(*   bit 0 = "generation follows"), optional generation-1 (varint u32).    *)
(*                                                                         *)
(* The module holds                                                        *)
(*  (a) the REFERENCE meaning: the abstract server state an attacker can   *)
(*      touch (Sem), what receiving a well-formed message means            *)
(*      (LegalReceive, on values), the declarative wire grammar (RefParse: *)
(*      "these bytes are exactly the encoding of the well-formed value v") *)
(*      and the property JunkSafe: after any junk step the state equals    *)
(*      the state after discarding the message or after receiving a        *)
(*      well-formed one from the same sender on the same channel; no       *)
(*      panic; the largest allocation is bounded by K * (len + C);         *)
(*  (b) the MECHANISM as the code implements it, transcribed (receive_acks,*)
(*      ClientEvent::receive_typed + default_deserialize,                  *)
(*      trigger_deserialize, deserialize_entity, serde's Vec visitor over  *)
(*      postcard's SeqAccess, check_protocol), with the deviations found   *)
(*      on the pinned tree behind ImplBug_F5 / ImplBug_F10 / ImplBug_F16;  *)
(*  (c) the shape enumeration: well-formed messages and their mutations    *)
(*      (truncation at every byte, trailing bytes, count / length fields   *)
(*      replaced by boundary classes, entity index / generation boundary   *)
(*      classes, overlong / over-range varints, empty, odd-length acks,    *)
(*      unknown ack indices) x channel x sender state x session point.     *)
(*                                                                         *)
(* Numbers never become TLC integers unless they are small: a u16/u32/u64  *)
(* is a little-endian bit sequence (as in EntityCodec.tla); the JSON for   *)
(* the replayer carries numbers as little-endian bytes.                    *)
(***************************************************************************)
EXTENDS Integers, Sequences, FiniteSets, TLC, Json

CONSTANTS
    ImplBug_F5,    \* TRUE: pinned tree, Vec::with_capacity(count from the wire)
    ImplBug_F10,   \* TRUE: pinned tree, receive_acks unwraps the sender's ClientTicks
    ImplBug_F16,   \* TRUE: pinned tree, deserialize_entity `+ 1` / Entity::from_bits
    Wide,          \* TRUE: thorough class sets
    FullProduct,   \* TRUE: every shape in every session state; FALSE: the sender-independent
                   \*   channels get the non-core shapes in two of the four session states only
    Deep,          \* TRUE: additionally every shape truncated at every byte and with trailing bytes
    Emit           \* TRUE: print one CASE line per junk state

VARIABLES
    sess,          \* [auth, phase]: the attacker's session state
    srv,           \* abstract server state (what an attacker's message can touch + what it must not)
    last           \* the junk step taken (a record), or NoCase

vars == <<sess, srv, last>>

-----------------------------------------------------------------------------
(* Bits (as in EntityCodec.tla) *)

Pow2(n) == 2 ^ n                                  \* only used for n <= 30
BitOf(n, i) == (n \div Pow2(i)) % 2
Zero(w) == [i \in 1..w |-> 0]
Or(a, b) == IF a = 1 \/ b = 1 THEN 1 ELSE 0
FromInt(n, w) == [i \in 1..w |-> IF i <= 31 THEN BitOf(n, i - 1) ELSE 0]
FromBytesLE(bs, w) ==
    [i \in 1..w |-> IF (i - 1) \div 8 < Len(bs) THEN BitOf(bs[((i - 1) \div 8) + 1], (i - 1) % 8) ELSE 0]
PowBits(p, d, w) ==                               \* 2^p + d, d in {-2,-1,0,1}
    [i \in 1..w |->
        CASE d = 0  -> IF i = p + 1 THEN 1 ELSE 0
          [] d = 1  -> IF i = p + 1 \/ i = 1 THEN 1 ELSE 0
          [] d = -1 -> IF i <= p THEN 1 ELSE 0
          [] d = -2 -> IF i <= p /\ i >= 2 THEN 1 ELSE 0]
\* number classes: <<"v", n>>  <<"p", p, d>>  <<"b", <<little-endian bytes>>>>
ClassBits(k, w) ==
    CASE k[1] = "v" -> FromInt(k[2], w)
      [] k[1] = "p" -> PowBits(k[2], k[3], w)
      [] k[1] = "b" -> FromBytesLE(k[2], w)

ByteAt(bits, k) ==
    LET o == 8 * (k - 1) IN
    bits[o+1] + 2*bits[o+2] + 4*bits[o+3] + 8*bits[o+4] + 16*bits[o+5] + 32*bits[o+6]
      + 64*bits[o+7] + 128*bits[o+8]
BytesLE(bits, n) == [k \in 1..n |-> ByteAt(bits, k)]
Low7(bits) == bits[1] + 2*bits[2] + 4*bits[3] + 8*bits[4] + 16*bits[5] + 32*bits[6] + 64*bits[7]
Lt128(bits, w) == \A i \in 8..w : bits[i] = 0
Shr7(bits, w) == [i \in 1..w |-> IF i + 7 <= w THEN bits[i + 7] ELSE 0]
AllOnes(bits, w) == \A i \in 1..w : bits[i] = 1
Inc(bits, w) ==
    LET k == CHOOSE j \in 1..w : bits[j] = 0 /\ \A i \in 1..(j-1) : bits[i] = 1 IN
    [i \in 1..w |-> IF i < k THEN 0 ELSE IF i = k THEN 1 ELSE bits[i]]

\* a number as a small integer, or Big (= "larger than any message of this model")
Big == -1
SmallBits == 24
RECURSIVE ValUpTo(_, _)
ValUpTo(bits, k) == IF k = 0 THEN 0 ELSE bits[k] * Pow2(k - 1) + ValUpTo(bits, k - 1)
ToSmall(bits, w) == IF \E i \in (SmallBits + 1)..w : bits[i] = 1 THEN Big ELSE ValUpTo(bits, SmallBits)

Min(a, b) == IF a <= b THEN a ELSE b
Range(s) == {s[i] : i \in 1..Len(s)}
RECURSIVE Cat(_)
Cat(ss) == IF ss = <<>> THEN <<>> ELSE Head(ss) \o Cat(Tail(ss))

-----------------------------------------------------------------------------
(* Integer types of the wire format: width, maximal varint length, maximal last byte *)

U16 == [w |-> 16, mb |-> 3,  ml |-> 3]
U32 == [w |-> 32, mb |-> 5,  ml |-> 15]
U64 == [w |-> 64, mb |-> 10, ml |-> 1]            \* also usize on the 64-bit targets of the harness

\* Bevy 0.16: an Entity's bits are valid iff the high word (generation) is in 1 ..= 0x7FFF_FFFF.
ValidEntityBits(v) == v[64] = 0 /\ \E i \in 33..63 : v[i] = 1
EntBits(idx, gen) == [i \in 1..64 |-> IF i <= 32 THEN idx[i] ELSE gen[i - 32]]

\* The server's protocol hash in the model world (the replayer splices the real one in, see hashAt).
ServerHash == FromBytesLE(<<111, 192, 6, 108, 192, 6, 108, 192>>, 64)

-----------------------------------------------------------------------------
(* (b) Mechanism: postcard varints (postcard::varint, Deserializer::try_take_varint_u16 / u32 / u64) *)

RECURSIVE EncLoop(_, _, _, _)
EncLoop(v, w, i, maxBytes) ==
    IF i = maxBytes THEN <<>>
    ELSE IF Lt128(v, w) THEN <<ByteAt(v, 1)>>
    ELSE <<Low7(v) + 128>> \o EncLoop(Shr7(v, w), w, i + 1, maxBytes)
EncVarint(v, T) == EncLoop(v, T.w, 0, T.mb)

\* field result: st "ok" | "err" | "panic"; v = value; n = bytes consumed; alloc = largest
\* allocation request in bytes (Big = out of proportion)
Res(st, why, v, n, alloc) == [st |-> st, why |-> why, v |-> v, n |-> n, alloc |-> alloc]

RECURSIVE DecLoop(_, _, _, _, _)
DecLoop(b, pos, T, i, out) ==
    IF i = T.mb THEN Res("err", "badvarint", <<>>, i, 0)
    ELSE IF pos + i > Len(b) THEN Res("err", "end", <<>>, i, 0)
    ELSE
        LET val  == b[pos + i]
            out2 == [j \in 1..T.w |-> IF j > 7 * i /\ j <= 7 * i + 7
                                      THEN Or(out[j], BitOf(val % 128, j - 7 * i - 1)) ELSE out[j]]
        IN  IF val < 128
            THEN IF i = T.mb - 1 /\ val > T.ml
                 THEN Res("err", "badvarint", <<>>, i + 1, 0)
                 ELSE Res("ok", "", out2, i + 1, 0)
            ELSE DecLoop(b, pos, T, i + 1, out2)
DecU(b, pos, T) == DecLoop(b, pos, T, 0, Zero(T.w))

(* serde: impl Deserialize for Entity = u64, then Entity::try_from_bits *)
DecBevyEntity(b, pos) ==
    LET r == DecU(b, pos, U64) IN
    IF r.st # "ok" THEN r
    ELSE IF ValidEntityBits(r.v) THEN r ELSE Res("err", "entitybits", <<>>, r.n, 0)

(* serde: Vec<u8> = deserialize_seq: varint usize length, VecVisitor::visit_seq with
   Vec::with_capacity(cautious(size_hint)), SeqAccess::size_hint = None when fewer bytes remain
   than elements are announced; elements are popped one by one *)
DecBytes(b, pos) ==
    LET r == DecU(b, pos, U64) IN
    IF r.st # "ok" THEN r ELSE
    LET len == ToSmall(r.v, 64)
        rem == Len(b) - (pos + r.n) + 1
    IN  IF len = Big \/ len > rem
        THEN Res("err", "end", <<>>, r.n + rem, 2 * rem)      \* grows by pushing until the bytes run out
        ELSE Res("ok", "", SubSeq(b, pos + r.n, pos + r.n + len - 1), r.n + len, len)

(* entity_serde::deserialize_entity (see EntityCodec.tla for the bit-exact treatment) *)
DecTarget(b, pos) ==
    LET r1 == DecU(b, pos, U64) IN
    IF r1.st # "ok" THEN r1 ELSE
    LET has == r1.v[1] = 1
        r2  == IF has THEN DecU(b, pos + r1.n, U32) ELSE Res("ok", "", Zero(32), 0, 0)
        n   == r1.n + r2.n
    IN
    IF r2.st # "ok" THEN Res("err", r2.why, <<>>, n, 0) ELSE
    IF has /\ AllOnes(r2.v, 32)                                   \* `+ 1` on u32::MAX
    THEN (IF ImplBug_F16 THEN Res("panic", "generation add overflow", <<>>, n, 0)
                         ELSE Res("err", "generation", <<>>, n, 0))
    ELSE
    LET generation == IF has THEN Inc(r2.v, 32) ELSE FromInt(1, 32)
        lo == [j \in 1..32 |-> r1.v[j + 1]]
        hi == [j \in 1..32 |-> Or(generation[j], IF j <= 31 THEN r1.v[33 + j] ELSE 0)]
        bits == EntBits(lo, hi)
    IN
    IF ValidEntityBits(bits) THEN Res("ok", "", bits, n, 0)
    ELSE IF ImplBug_F16 THEN Res("panic", "Entity::from_bits", <<>>, n, 0)
    ELSE Res("err", "generation", <<>>, n, 0)

\* payload field types
FieldW(ty) == CASE ty = "u16" -> 16 [] ty = "u32" -> 32 [] OTHER -> 64
DecField(b, pos, ty) ==
    CASE ty = "u16"   -> DecU(b, pos, U16)
      [] ty = "u32"   -> DecU(b, pos, U32)
      [] ty = "u64"   -> DecU(b, pos, U64)
      [] ty = "bent"  -> DecBevyEntity(b, pos)
      [] ty = "bytes" -> DecBytes(b, pos)

MaxAlloc(a, c) == IF a = Big \/ c = Big THEN Big ELSE IF a >= c THEN a ELSE c

\* a struct: fields in order (default_deserialize = postcard_utils::from_buf; trailing bytes are not looked at)
RECURSIVE DecFields(_, _, _, _, _)
DecFields(b, pos, tys, k, acc) ==
    IF k > Len(tys) THEN acc
    ELSE LET r == DecField(b, pos, tys[k]) IN
         IF r.st # "ok" THEN Res(r.st, r.why, <<>>, acc.n + r.n, MaxAlloc(acc.alloc, r.alloc))
         ELSE DecFields(b, pos + r.n, tys, k + 1,
                        Res("ok", "", Append(acc.v, r.v), acc.n + r.n, MaxAlloc(acc.alloc, r.alloc)))
DecStruct(b, pos, tys) == DecFields(b, pos, tys, 1, Res("ok", "", <<>>, 0, 0))

\* trigger_deserialize: the targets loop (stops at the first error)
RECURSIVE TargetsLoop(_, _, _, _)
TargetsLoop(b, pos, k, acc) ==
    IF k = 0 THEN acc
    ELSE LET r == DecTarget(b, pos) IN
         IF r.st # "ok" THEN Res(r.st, r.why, <<>>, acc.n + r.n, 0)
         ELSE TargetsLoop(b, pos + r.n, k - 1, Res("ok", "", Append(acc.v, r.v), acc.n + r.n, 0))

-----------------------------------------------------------------------------
(* Channels *)

Channels == <<"ack", "hash", "e1", "e2", "t1", "t2">>      \* index - 1 = client channel id
ChanId(ch) == (CHOOSE i \in 1..Len(Channels) : Channels[i] = ch) - 1
IsTrigger(ch) == ch \in {"hash", "t1", "t2"}
Payload(ch) ==
    CASE ch = "hash" -> <<"u64">>
      [] ch = "e1"   -> <<"u32">>
      [] ch = "e2"   -> <<"bent", "bytes">>
      [] ch = "t1"   -> <<"u16">>
      [] ch = "t2"   -> <<"bent">>
      [] OTHER       -> <<>>

\* decoder outcome: st "discard" | "deliver" | "panic"
Out(st, why, acked, targets, vals, alloc) ==
    [st |-> st, why |-> why, acked |-> acked, targets |-> targets, vals |-> vals, alloc |-> alloc]

(* server.rs receive_acks *)
RECURSIVE AckLoop(_, _)
AckLoop(b, pos) ==
    IF pos > Len(b) THEN <<>>
    ELSE IF pos + 1 > Len(b) THEN <<>>              \* one byte left: popped, error logged, loop ends
    ELSE <<b[pos] + 256 * b[pos + 1]>> \o AckLoop(b, pos + 2)
MechAck(b, authorized) ==
    IF ~authorized
    THEN IF ImplBug_F10 /\ Len(b) >= 2
         THEN Out("panic", "messages from client should have been removed on disconnect", <<>>, <<>>, <<>>, 0)
         ELSE Out("discard", "unauthorized", <<>>, <<>>, <<>>, 0)
    ELSE LET acked == AckLoop(b, 1) IN
         IF acked = <<>> THEN Out("discard", "no index", <<>>, <<>>, <<>>, 0)
         ELSE Out("deliver", "", acked, <<>>, <<>>, 0)

(* ClientEvent::receive_typed with default_deserialize *)
MechEvent(b, ch) ==
    LET r == DecStruct(b, 1, Payload(ch)) IN
    IF r.st = "ok" THEN Out("deliver", "", <<>>, <<>>, r.v, r.alloc)
    ELSE Out("discard", r.why, <<>>, <<>>, <<>>, r.alloc)

(* client_trigger.rs trigger_deserialize *)
MechTrigger(b, ch) ==
    LET r0 == DecU(b, 1, U64) IN
    IF r0.st # "ok" THEN Out("discard", r0.why, <<>>, <<>>, <<>>, 0) ELSE
    LET cnt == ToSmall(r0.v, 64)
        rem == Len(b) - r0.n
        \* Vec::<Entity>::with_capacity: 8 bytes per element, capacity overflow above isize::MAX bytes
        overflow == ImplBug_F5 /\ \E i \in 61..64 : r0.v[i] = 1
        alloc == IF ImplBug_F5 THEN (IF cnt = Big THEN Big ELSE 8 * cnt)
                 ELSE 8 * (IF cnt = Big THEN rem ELSE Min(cnt, rem))
    IN
    IF overflow THEN Out("panic", "capacity overflow", <<>>, <<>>, <<>>, 0) ELSE
    \* `for _ in 0..len`: every target takes at least one byte, so rem + 1 iterations always suffice
    LET iters == IF cnt = Big THEN rem + 1 ELSE Min(cnt, rem + 1)
        rt == TargetsLoop(b, 1 + r0.n, iters, Res("ok", "", <<>>, 0, 0))
    IN
    IF rt.st = "panic" THEN Out("panic", rt.why, <<>>, <<>>, <<>>, alloc) ELSE
    IF rt.st # "ok" THEN Out("discard", rt.why, <<>>, <<>>, <<>>, alloc) ELSE
    IF iters # cnt THEN Out("discard", "end", <<>>, <<>>, <<>>, alloc) ELSE       \* unreachable: see above
    LET rp == DecStruct(b, 1 + r0.n + rt.n, Payload(ch)) IN
    IF rp.st = "ok" THEN Out("deliver", "", <<>>, rt.v, rp.v, MaxAlloc(alloc, rp.alloc))
    ELSE Out("discard", rp.why, <<>>, <<>>, <<>>, MaxAlloc(alloc, rp.alloc))

Mech(ch, b, authorized) ==
    IF ch = "ack" THEN MechAck(b, authorized)
    ELSE IF IsTrigger(ch) THEN MechTrigger(b, ch)
    ELSE MechEvent(b, ch)

-----------------------------------------------------------------------------
(* Abstract server state.  att = what the attacker's own messages may change; good / world =    *)
(* what they must never change; log = what server-side game logic received in this frame.      *)

Entry(ch, targets, vals) == [ch |-> ch, from |-> "att", targets |-> targets, vals |-> vals]

InitSrv(auth) ==
    [auth |-> auth, inflight |-> {}, disc |-> FALSE, log |-> <<>>,
     good |-> [auth |-> TRUE, inflight |-> {0}], world |-> "w0",
     panicked |-> FALSE, alloc |-> 0]

\* the mechanism's state update (receive_acks -> ack_mutate_message; receive_typed -> Events::send;
\* the trigger system -> observers, among them check_protocol)
Apply(s, ch, out) ==
    IF out.st = "panic" THEN [s EXCEPT !.panicked = TRUE] ELSE
    LET s1 == [s EXCEPT !.alloc = out.alloc] IN
    IF out.st = "discard" THEN s1 ELSE
    CASE ch = "ack"  -> [s1 EXCEPT !.inflight = @ \ Range(out.acked)]
      [] ch = "hash" -> LET s2 == [s1 EXCEPT !.log = Append(@, Entry(ch, out.targets, out.vals))] IN
                        IF out.vals[1] = ServerHash THEN [s2 EXCEPT !.auth = TRUE]
                        ELSE [s2 EXCEPT !.disc = TRUE]
      [] OTHER       -> [s1 EXCEPT !.log = Append(@, Entry(ch, out.targets, out.vals))]

Receive(s, ch, b) == Apply(s, ch, Mech(ch, b, s.auth))

-----------------------------------------------------------------------------
(* (a) Reference *)

Sem(s) == [auth |-> s.auth, inflight |-> s.inflight, disc |-> s.disc, log |-> s.log,
           good |-> s.good, world |-> s.world]

\* a value of a channel: [acked, targets, vals]
Value(acked, targets, vals) == [acked |-> acked, targets |-> targets, vals |-> vals]

WellFormedField(ty, v) ==
    CASE ty = "bytes" -> \A i \in 1..Len(v) : v[i] \in 0..255
      [] ty = "bent"  -> DOMAIN v = 1..64 /\ ValidEntityBits(v)
      [] OTHER        -> DOMAIN v = 1..FieldW(ty)
WellFormed(ch, v) ==
    IF ch = "ack" THEN v.acked # <<>> /\ \A i \in 1..Len(v.acked) : v.acked[i] \in 0..65535
    ELSE /\ Len(v.vals) = Len(Payload(ch))
         /\ \A k \in 1..Len(v.vals) : WellFormedField(Payload(ch)[k], v.vals[k])
         /\ (~IsTrigger(ch) => v.targets = <<>>)
         /\ \A k \in 1..Len(v.targets) : ValidEntityBits(v.targets[k])

\* What receiving a well-formed message with value v from the attacker means.
LegalReceive(s, ch, v) ==
    IF ch = "ack"
    THEN \* an acknowledgement concerns the sender's own in-flight mutate messages; a client that is
         \* not replicated to has none
         IF s.auth THEN [s EXCEPT !.inflight = {i \in s.inflight : \A k \in 1..Len(v.acked) : v.acked[k] # i}]
         ELSE s
    ELSE LET s1 == [s EXCEPT !.log = s.log \o <<Entry(ch, v.targets, v.vals)>>] IN
         IF ch # "hash" THEN s1
         ELSE IF v.vals[1] = ServerHash THEN [s1 EXCEPT !.auth = TRUE] ELSE [s1 EXCEPT !.disc = TRUE]

\* Allocation bound of the property: K * (len + C) bytes
AllocK == 64
AllocC == 65536
AllocOK(alloc, len) == alloc # Big /\ alloc <= AllocK * (len + AllocC)

(* Declarative wire grammar: minimal LEB128 numbers *)
CanonLens(b, pos, maxBytes) ==
    {n \in 1..maxBytes :
        /\ pos + n - 1 <= Len(b)
        /\ b[pos + n - 1] < 128
        /\ \A j \in 1..(n-1) : b[pos + j - 1] >= 128
        /\ (n > 1 => b[pos + n - 1] # 0)}
CanonValue(b, pos, n, maxBytes) ==
    [i \in 1..(7 * maxBytes) |->
        IF (i - 1) \div 7 < n THEN BitOf(b[pos + ((i - 1) \div 7)] % 128, (i - 1) % 7) ELSE 0]
NoNum == [ok |-> FALSE, v |-> <<>>, n |-> 0]
\* "b[pos..] starts with the minimal encoding of a number < 2^T.w"
RefNum(b, pos, T) ==
    LET L == CanonLens(b, pos, T.mb) IN
    IF L = {} THEN NoNum ELSE
    LET n == CHOOSE x \in L : TRUE
        f == CanonValue(b, pos, n, T.mb)
    IN IF \E i \in (T.w + 1)..(7 * T.mb) : f[i] = 1 THEN NoNum
       ELSE [ok |-> TRUE, v |-> [i \in 1..T.w |-> f[i]], n |-> n]
\* a trigger target: flagged index < 2^33; iff flagged, generation - 1 in 1 .. 2^31 - 2
RefTarget(b, pos) ==
    LET f == RefNum(b, pos, U64) IN
    IF ~f.ok \/ \E i \in 34..64 : f.v[i] = 1 THEN NoNum ELSE
    LET idx == [i \in 1..32 |-> f.v[i + 1]] IN
    IF f.v[1] = 0 THEN [ok |-> TRUE, v |-> EntBits(idx, FromInt(1, 32)), n |-> f.n] ELSE
    LET g == RefNum(b, pos + f.n, U32) IN
    IF ~g.ok \/ g.v = Zero(32) \/ g.v[32] = 1 \/ AllOnes(g.v, 31) THEN NoNum
    ELSE [ok |-> TRUE, v |-> EntBits(idx, Inc(g.v, 32)), n |-> f.n + g.n]
RefField(b, pos, ty) ==
    CASE ty = "u16" -> RefNum(b, pos, U16)
      [] ty = "u32" -> RefNum(b, pos, U32)
      [] ty = "u64" -> RefNum(b, pos, U64)
      [] ty = "bent" -> LET r == RefNum(b, pos, U64) IN
                        IF r.ok /\ ValidEntityBits(r.v) THEN r ELSE NoNum
      [] ty = "bytes" -> LET r == RefNum(b, pos, U64) IN
                         IF ~r.ok THEN NoNum ELSE
                         LET len == ToSmall(r.v, 64) IN
                         IF len = Big \/ pos + r.n + len - 1 > Len(b) THEN NoNum
                         ELSE [ok |-> TRUE, v |-> SubSeq(b, pos + r.n, pos + r.n + len - 1), n |-> r.n + len]
RECURSIVE RefSeq(_, _, _, _, _)
\* k items parsed by P (a tag: "target" or a payload type list), accumulating values
RefSeq(b, pos, k, tys, acc) ==
    IF k > Len(tys) THEN [ok |-> TRUE, v |-> acc, n |-> pos]
    ELSE LET r == IF tys[k] = "target" THEN RefTarget(b, pos) ELSE RefField(b, pos, tys[k]) IN
         IF ~r.ok THEN NoNum ELSE RefSeq(b, pos + r.n, k + 1, tys, Append(acc, r.v))

Free == [st |-> "free", v |-> Value(<<>>, <<>>, <<>>)]
\* RefParse(ch, b): "b is exactly the encoding of the well-formed value v" - then v must be received
RefParse(ch, b) ==
    IF ch = "ack"
    THEN IF Len(b) > 0 /\ Len(b) % 2 = 0
         THEN [st |-> "exact", v |-> Value([k \in 1..(Len(b) \div 2) |-> b[2*k - 1] + 256 * b[2*k]], <<>>, <<>>)]
         ELSE Free
    ELSE IF ~IsTrigger(ch)
    THEN LET r == RefSeq(b, 1, 1, Payload(ch), <<>>) IN
         IF r.ok /\ r.n = Len(b) + 1 THEN [st |-> "exact", v |-> Value(<<>>, <<>>, r.v)] ELSE Free
    ELSE LET c == RefNum(b, 1, U64) IN
         IF ~c.ok THEN Free ELSE
         LET cnt == ToSmall(c.v, 64) IN
         IF cnt = Big \/ cnt > Len(b) THEN Free ELSE
         LET t == RefSeq(b, 1 + c.n, 1, [k \in 1..cnt |-> "target"], <<>>) IN
         IF ~t.ok THEN Free ELSE
         LET p == RefSeq(b, t.n, 1, Payload(ch), <<>>) IN
         IF p.ok /\ p.n = Len(b) + 1 THEN [st |-> "exact", v |-> Value(<<>>, t.v, p.v)] ELSE Free

-----------------------------------------------------------------------------
(* (c) Shapes *)

Rep(x, k) == [i \in 1..k |-> x]
Front(s) == SubSeq(s, 1, Len(s) - 1)
Last(s) == s[Len(s)]
Extend(enc, k) == IF k = 0 THEN enc ELSE Front(enc) \o <<(Last(enc) % 128) + 128>> \o Rep(128, k - 1) \o <<0>>
\* encoding shapes of one varint (value unchanged by over1 / pad; hi / cont are out of the type's range)
VShape(enc, s, T) ==
    LET room == T.mb - Len(enc)
        full == Extend(enc, room)
    IN CASE s = "canon" -> enc
         [] s = "over1" -> Extend(enc, IF room > 0 THEN 1 ELSE 0)
         [] s = "pad"   -> full
         [] s = "hi"    -> Front(full) \o <<T.ml + 1>>
         [] s = "cont"  -> Front(full) \o <<(Last(full) % 128) + 128, 0>>
VShapes == {"over1", "pad", "hi", "cont"}

V64(k) == EncVarint(ClassBits(k, 64), U64)            \* any number class as a u64 / usize varint
VT(k, T) == EncVarint(ClassBits(k, T.w), T)           \* a number class that fits T
LE16(i) == <<i % 256, i \div 256>>

\* a shape: tag (class name, for coverage counting), bytes, core (part of the reduced product),
\* hashAt = <<start, len>> of an intact ServerHash payload the replayer replaces by the real hash
Sh(tag, b) == [tag |-> tag, b |-> b, core |-> FALSE, hashAt |-> <<0, 0>>]
Core(s) == [s EXCEPT !.core = TRUE]
Trailing == {<<0>>, <<255>>, <<128, 1>>} \cup (IF Wide THEN {<<1>>, <<255, 255, 255, 255, 255, 255, 255, 255, 255, 255, 1>>} ELSE {})
\* message-level mutations of a well-formed message
MsgMut(b) ==
    {Core(Sh("wellformed", b))}
    \cup {Sh(IF k = 0 THEN "empty" ELSE "trunc", SubSeq(b, 1, k)) : k \in 0..(Len(b) - 1)}
    \cup {Sh("trailing", b \o t) : t \in Trailing}

(* --- ack --- *)
AckIdx == {0, 1, 2, 255, 256, 65535} \cup (IF Wide THEN {127, 128, 32767, 32768, 65534} ELSE {})
AckLists == {<<i>> : i \in AckIdx} \cup {<<i, j>> : i \in {0, 1, 65535}, j \in {0, 1, 2}}
              \cup {<<0, 1, 2>>, <<2, 1, 0>>, <<7, 7>>}
AckBytes(l) == Cat([k \in 1..Len(l) |-> LE16(l[k])])
AckTag(l) == IF \A k \in 1..Len(l) : l[k] \in {0, 1} THEN "ack-known"
             ELSE IF \E k \in 1..Len(l) : l[k] \in {0, 1} THEN "ack-mixed" ELSE "ack-unknown"
AckShapes ==
    UNION {MsgMut(AckBytes(l)) : l \in AckLists}
    \cup {Core(Sh(AckTag(l), AckBytes(l))) : l \in AckLists}
    \cup {Core(Sh("empty", <<>>)), Core(Sh("ack-odd", <<0>>)), Core(Sh("ack-odd", <<0, 0, 1>>)),
          Core(Sh("ack-odd", <<255>>)), Sh("ack-odd", <<1, 0, 0, 0, 255>>)}

(* --- numbers out of a field's range, as canonical u64 varints --- *)
BigClasses == {[nm |-> "2^16", k |-> <<"p", 16, 0>>], [nm |-> "2^32", k |-> <<"p", 32, 0>>],
               [nm |-> "2^40", k |-> <<"p", 40, 0>>], [nm |-> "2^64-1", k |-> <<"p", 64, -1>>]}
              \cup (IF Wide THEN {[nm |-> "2^63", k |-> <<"p", 63, 0>>], [nm |-> "2^60", k |-> <<"p", 60, 0>>],
                                  [nm |-> "2^60-1", k |-> <<"p", 60, -1>>], [nm |-> "2^20", k |-> <<"p", 20, 0>>]}
                    ELSE {})

(* --- e1: one u32 --- *)
U32In == {<<"v", 0>>, <<"v", 1>>, <<"v", 127>>, <<"v", 128>>, <<"p", 14, 0>>, <<"p", 28, -1>>, <<"p", 32, -1>>}
           \cup (IF Wide THEN {<<"p", 14, -1>>, <<"p", 21, 0>>, <<"p", 21, -1>>, <<"p", 28, 0>>, <<"p", 31, 0>>} ELSE {})
E1Shapes ==
    UNION {MsgMut(VT(k, U32)) : k \in U32In}
    \cup {Core(Sh("value>range:" \o c.nm, V64(c.k))) : c \in {x \in BigClasses : x.nm # "2^16"}}
    \cup {Sh("varint-" \o s, VShape(VT(k, U32), s, U32)) : s \in VShapes, k \in {<<"v", 1>>, <<"v", 300>>, <<"p", 32, -1>>}}

(* --- Bevy entity bits (serde) --- *)
BentIdx == {<<"v", 0>>, <<"p", 32, -1>>} \cup (IF Wide THEN {<<"v", 1>>, <<"p", 20, 0>>} ELSE {})
BentGenOk == {<<"v", 1>>, <<"v", 2>>, <<"p", 31, -1>>}
BentGenBad == {<<"v", 0>>, <<"p", 31, 0>>, <<"p", 32, -1>>}
BentEnc(ik, gk) == EncVarint(EntBits(ClassBits(ik, 32), ClassBits(gk, 32)), U64)
BentShapes ==       \* [tag, b] of the entity field alone
    {Sh("wellformed", BentEnc(ik, gk)) : ik \in BentIdx, gk \in BentGenOk}
    \cup {Sh("entity-bits-invalid", BentEnc(ik, gk)) : ik \in BentIdx, gk \in BentGenBad}
    \cup {Sh("varint-" \o s, VShape(BentEnc(<<"v", 5>>, <<"v", 3>>), s, U64)) : s \in VShapes}


(* --- length / count classes for an actual number n of elements --- *)
CountClasses(n) ==
    {[nm |-> "0", k |-> <<"v", 0>>], [nm |-> "1", k |-> <<"v", 1>>], [nm |-> "n", k |-> <<"v", n>>],
     [nm |-> "n+1", k |-> <<"v", n + 1>>]} \cup BigClasses \cup
    (IF Wide THEN {[nm |-> "n+2", k |-> <<"v", n + 2>>], [nm |-> "127", k |-> <<"v", 127>>],
                   [nm |-> "128", k |-> <<"v", 128>>]} ELSE {})
\* what: "count" (trigger targets) or "len" (byte vector)
CountField(what, n) ==
    {Sh(what \o "=" \o c.nm, V64(c.k)) : c \in CountClasses(n)}
    \cup {Sh(what \o "-varint-" \o s, VShape(V64(<<"v", n>>), s, U64)) : s \in VShapes}

(* --- e2: entity bits, then a byte vector --- *)
ByteVecs == {<<>>, <<7>>, <<1, 2, 3>>} \cup (IF Wide THEN {<<255, 0, 128, 127, 1>>} ELSE {})
E2Ent == BentEnc(<<"v", 9>>, <<"v", 2>>)
E2Shapes ==
    UNION {MsgMut(e.b \o V64(<<"v", Len(v)>>) \o v) : e \in {x \in BentShapes : x.tag = "wellformed"}, v \in ByteVecs}
    \cup {Sh(e.tag, e.b \o <<1, 7>>) : e \in {x \in BentShapes : x.tag # "wellformed"}}
    \cup UNION {{Sh(c.tag, E2Ent \o c.b \o v) : c \in CountField("len", Len(v))} : v \in ByteVecs}

(* --- trigger targets (entity_serde) --- *)
Flagged(ik, fl) == [i \in 1..64 |-> IF i = 1 THEN fl ELSE IF i <= 33 THEN ClassBits(ik, 32)[i - 1] ELSE 0]
TgtIdx == {<<"v", 0>>, <<"v", 64>>, <<"p", 32, -1>>}
            \cup (IF Wide THEN {<<"v", 1>>, <<"v", 63>>, <<"p", 20, 0>>, <<"p", 31, 0>>} ELSE {})
\* raw values of the generation-1 field: the valid ones end at 2^31-2
GenRaw == {[nm |-> "0", k |-> <<"v", 0>>], [nm |-> "1", k |-> <<"v", 1>>], [nm |-> "128", k |-> <<"v", 128>>],
           [nm |-> "2^31-2", k |-> <<"p", 31, -2>>], [nm |-> "2^31-1", k |-> <<"p", 31, -1>>],
           [nm |-> "2^31", k |-> <<"p", 31, 0>>], [nm |-> "2^32-2", k |-> <<"p", 32, -2>>],
           [nm |-> "2^32-1", k |-> <<"p", 32, -1>>]}
          \cup (IF Wide THEN {[nm |-> "127", k |-> <<"v", 127>>], [nm |-> "2^28", k |-> <<"p", 28, 0>>],
                              [nm |-> "2^31+1", k |-> <<"p", 31, 1>>]} ELSE {})
\* raw flagged-index values beyond 2^33: index bits spill into the generation word
FlagRaw == {[nm |-> "2^33", k |-> <<"p", 33, 0>>], [nm |-> "2^33+1", k |-> <<"p", 33, 1>>],
            [nm |-> "2^63", k |-> <<"p", 63, 0>>], [nm |-> "2^64-1", k |-> <<"p", 64, -1>>],
            [nm |-> "2^64-2", k |-> <<"p", 64, -2>>]}
           \cup (IF Wide THEN {[nm |-> "2^34-1", k |-> <<"p", 34, -1>>], [nm |-> "2^63+1", k |-> <<"p", 63, 1>>]} ELSE {})
EA == <<10>>                                    \* index 5, generation 1
EB == <<217, 4, 6>>                             \* index 300, generation 7
TgtField ==
    {Sh("target-nogen", EncVarint(Flagged(ik, 0), U64)) : ik \in TgtIdx}
    \cup {Sh("target-gen=" \o g.nm, EncVarint(Flagged(ik, 1), U64) \o VT(g.k, U32)) : ik \in TgtIdx, g \in GenRaw}
    \cup {Sh("target-flagged=" \o f.nm, V64(f.k) \o (IF ClassBits(f.k, 64)[1] = 1 THEN <<3>> ELSE <<>>)) : f \in FlagRaw}
    \cup {Sh("target-index-varint-" \o s, VShape(EncVarint(Flagged(<<"v", 300>>, 0), U64), s, U64)) : s \in VShapes}
    \cup {Sh("target-gen-varint-" \o s, <<11>> \o VShape(VT(<<"v", 6>>, U32), s, U32)) : s \in VShapes}
TgtLists == {<<>>, <<EA>>, <<EB>>, <<EA, EB>>} \cup (IF Wide THEN {<<EB, EB>>, <<EA, EA, EA>>} ELSE {})

(* --- payloads of the trigger channels --- *)
U16In == {<<"v", 0>>, <<"v", 127>>, <<"v", 128>>, <<"p", 14, 0>>, <<"p", 16, -1>>}
           \cup (IF Wide THEN {<<"v", 1>>, <<"p", 14, -1>>} ELSE {})
U64In == {<<"v", 0>>, <<"p", 63, 0>>, <<"p", 64, -1>>} \cup (IF Wide THEN {<<"v", 1>>, <<"p", 35, 0>>} ELSE {})
HashEnc == EncVarint(ServerHash, U64)
PayOK(ch) ==        \* well-formed payload encodings
    CASE ch = "t1"   -> {VT(k, U16) : k \in U16In}
      [] ch = "hash" -> {VT(k, U64) : k \in U64In}
      [] ch = "t2"   -> {x.b : x \in {y \in BentShapes : y.tag = "wellformed"}}
Pay0(ch) ==         \* the payload used while another field is mutated
    CASE ch = "t1" -> VT(<<"v", 300>>, U16) [] ch = "hash" -> VT(<<"p", 40, 1>>, U64) [] ch = "t2" -> E2Ent
PayMut(ch) ==       \* mutated payload encodings
    CASE ch = "t1"   -> {Sh("value>range:" \o c.nm, V64(c.k)) : c \in BigClasses}
                          \cup {Sh("varint-" \o s, VShape(VT(<<"v", 300>>, U16), s, U16)) : s \in VShapes}
      [] ch = "hash" -> {Sh("varint-" \o s, VShape(VT(<<"p", 40, 1>>, U64), s, U64)) : s \in VShapes}
      [] ch = "t2"   -> {x \in BentShapes : x.tag # "wellformed"}

TrigMsg(tl, p) == V64(<<"v", Len(tl)>>) \o Cat(tl) \o p
TriggerShapes(ch) ==
    UNION {MsgMut(TrigMsg(tl, p)) : tl \in TgtLists, p \in PayOK(ch)}
    \cup UNION {{Sh(c.tag, c.b \o Cat(tl) \o Pay0(ch)) : c \in CountField("count", Len(tl))} : tl \in TgtLists}
    \cup {Sh(t.tag, <<1>> \o t.b \o Pay0(ch)) : t \in TgtField}
    \cup {Sh(t.tag, <<2>> \o EA \o t.b \o Pay0(ch)) : t \in TgtField}
    \cup {Sh(q.tag, <<0>> \o q.b) : q \in PayMut(ch)}
    \cup {Sh(q.tag, <<1>> \o EB \o q.b) : q \in PayMut(ch)}
\* the matching hash: the payload stays intact (and is read as the payload) in these shapes only
HashMatchShapes ==
    {[Core(Sh("hash-match", <<0>> \o HashEnc \o t)) EXCEPT !.hashAt = <<2, Len(HashEnc)>>] : t \in {<<>>, <<0>>, <<255>>}}
    \cup {[Sh("hash-match", <<1>> \o EA \o HashEnc) EXCEPT !.hashAt = <<3, Len(HashEnc)>>],
          [Sh("hash-match", <<128, 0>> \o HashEnc) EXCEPT !.hashAt = <<3, Len(HashEnc)>>],
          Sh("trunc", <<0>> \o Front(HashEnc))}

HashShapes == TriggerShapes("hash") \cup HashMatchShapes
T1Shapes == TriggerShapes("t1")
T2Shapes == TriggerShapes("t2")

\* second-order mutations: every shape (mutants included) cut at every byte / followed by more bytes
Derived(S) ==
    IF ~Deep THEN S ELSE
    S \cup UNION {{[Sh("trunc-of-" \o (IF s.tag \in {"wellformed", "trunc", "empty"} THEN "plain" ELSE "mutant"), SubSeq(s.b, 1, k))
                       EXCEPT !.hashAt = IF s.hashAt[1] # 0 /\ k >= s.hashAt[1] + s.hashAt[2] - 1 THEN s.hashAt ELSE <<0, 0>>]
                      : k \in 0..(Len(s.b) - 1)} : s \in S}
      \cup {Sh("trailing-on-mutant", s.b \o t) : s \in {x \in S : x.tag \notin {"wellformed", "trailing"} /\ x.hashAt[1] = 0},
                                                t \in {<<0>>, <<255>>}}
AckAll == Derived(AckShapes)
HashAll == Derived(HashShapes)
E1All == Derived(E1Shapes)
E2All == Derived(E2Shapes)
T1All == Derived(T1Shapes)
T2All == Derived(T2Shapes)

ShapesOf(ch) ==
    CASE ch = "ack" -> AckAll [] ch = "hash" -> HashAll [] ch = "e1" -> E1All
      [] ch = "e2" -> E2All [] ch = "t1" -> T1All [] ch = "t2" -> T2All

CoreTags == {"wellformed", "empty", "hash-match", "count=2^64-1", "count=2^40", "len=2^64-1",
             "target-gen=2^31-1", "target-gen=2^32-1", "target-flagged=2^64-1"}
IsCore(s) == s.core \/ s.tag \in CoreTags

-----------------------------------------------------------------------------
(* Behaviours: [connect the attacker, authorized or not] -> (first tick)? -> one junk message *)

NoCase == [none |-> TRUE]
KnownInflight == {0, 1}        \* mutate indices in flight for an authorized attacker after the first ticks

Init ==
    /\ sess \in [auth : BOOLEAN, phase : {"pre"}]
    /\ srv = InitSrv(sess.auth)
    /\ last = NoCase

Tick ==
    /\ last = NoCase /\ sess.phase = "pre"
    /\ sess' = [sess EXCEPT !.phase = "post"]
    /\ srv' = [srv EXCEPT !.inflight = IF sess.auth THEN KnownInflight ELSE {}]
    /\ UNCHANGED last

InProduct(ch, s) ==
    \/ FullProduct \/ ch = "ack" \/ IsCore(s)
    \/ (sess.auth /\ sess.phase = "post") \/ (~sess.auth /\ sess.phase = "pre")

\* one case per shape (two shapes of different classes may have the same bytes: both are cases)
JunkOn(ch) ==
    \E s \in ShapesOf(ch) :
        /\ InProduct(ch, s)
        /\ srv' = Receive(srv, ch, s.b)
        /\ last' = [ch |-> ch, b |-> s.b, tags |-> {s.tag}, hashAt |-> s.hashAt,
                    pre |-> srv, model |-> Mech(ch, s.b, srv.auth), must |-> RefParse(ch, s.b)]

Junk == /\ last = NoCase
        /\ \E i \in 1..Len(Channels) : JunkOn(Channels[i])
        /\ UNCHANGED sess

Next == Tick \/ Junk
Spec == Init /\ [][Next]_vars

-----------------------------------------------------------------------------
(* The property *)

Safe(s, t, c) ==
    LET w == Value(c.model.acked, c.model.targets, c.model.vals) IN
    /\ ~t.panicked                                             \* no panic
    /\ AllocOK(t.alloc, Len(c.b))                              \* allocation in proportion to the message
    /\ \/ Sem(t) = Sem(s)                                      \* discarded ...
       \/ WellFormed(c.ch, w) /\ Sem(t) = Sem(LegalReceive(s, c.ch, w))   \* ... or a legal receive
    /\ c.must.st = "exact" =>                                  \* a well-formed message is received as such
          WellFormed(c.ch, c.must.v) /\ Sem(t) = Sem(LegalReceive(s, c.ch, c.must.v))

JunkSafe == [][(last = NoCase /\ last' # NoCase) => Safe(srv, srv', last')]_vars

\* the same as a state predicate (the case record keeps the state before the step)
JunkSafeInv == last # NoCase => Safe(last.pre, srv, last)

\* Consistency of the export: the model world's hash value is received only in cases that tell the
\* replayer where to put the real one (hashAt), and there the payload is read at that position.
SpliceConsistent ==
    (last # NoCase /\ last.ch = "hash" /\ last.model.st = "deliver")
        => (last.model.vals[1] = ServerHash <=> last.hashAt[1] # 0)

\* what an attacker can never touch
OthersUntouched == srv.good = InitSrv(TRUE).good /\ srv.world = "w0"

-----------------------------------------------------------------------------
(* Case export: numbers as little-endian bytes *)

FieldJson(ty, x) == IF ty = "bytes" THEN x ELSE BytesLE(x, FieldW(ty) \div 8)
ValueJson(ch, v) ==
    [acked |-> v.acked,
     targets |-> [k \in 1..Len(v.targets) |-> BytesLE(v.targets[k], 8)],
     vals |-> [k \in 1..Len(v.vals) |-> FieldJson(Payload(ch)[k], v.vals[k])]]
AttJson(s) == [auth |-> s.auth, inflight |-> s.inflight, disc |-> s.disc, delivered |-> Len(s.log)]

CaseJson ==
    LET c == last IN
    [ch |-> ChanId(c.ch), chn |-> c.ch, auth |-> sess.auth, phase |-> sess.phase, bytes |-> c.b,
     tags |-> c.tags, hashAt |-> c.hashAt,
     pre |-> AttJson(c.pre),
     must |-> [st |-> c.must.st, v |-> ValueJson(c.ch, c.must.v),
               post |-> AttJson(IF c.must.st = "exact" THEN LegalReceive(c.pre, c.ch, c.must.v) ELSE c.pre)],
     model |-> [st |-> c.model.st, why |-> c.model.why,
                v |-> ValueJson(c.ch, Value(c.model.acked, c.model.targets, c.model.vals)),
                alloc |-> c.model.alloc, post |-> AttJson(srv)]]

EmitCase == (Emit /\ last # NoCase) => PrintT(<<"CASE", ToJson(CaseJson)>>)

=============================================================================
