\* C15: strings up to 6 bytes over a 3-byte alphabet (reaches a 5-byte generation field)
SPECIFICATION Spec
CHECK_DEADLOCK FALSE
CONSTANTS
  ImplBug_F16 = FALSE
  Families = {"bytes"}
  IdxClasses <- IdxQuick
  GenClasses <- GenQuick
  Prefixes <- PrefixesQuick
  Suffixes <- SuffixesQuick
  FlagRaw <- FlagRawQuick
  FIdxClasses <- FIdxQuick
  GenRaw <- GenRawQuick
  Shapes <- ShapesAll
  FSuffixes <- FSuffixesQuick
  Alphabet <- AlphabetDeep
  MaxLen = 6
  Emit = TRUE
INVARIANTS
  Total
  Lossless
  RoundTrip
  EmitCase
