--------------------------- MODULE TickConfirmInd ---------------------------
(***************************************************************************)
(* ConfirmHistory (C12) for ARBITRARY tick values: an inductive invariant  *)
(* checked symbolically by Apalache.  TLC (TickConfirmCH) explores offsets *)
(* from a boundary alphabet; here the tick is an unbounded integer and the *)
(* only bound is the cardinality of the ghost set S of confirmed ticks.    *)
(* The mechanism is the one of TickConfirm.tla (design variant: a shift by *)
(* 64 or more clears the mask): a u64 is the set of its set bit positions. *)
(*                                                                         *)
(*   apalache-mc check --init=IndInit --inv=IndInv --length=1 TickConfirmInd.tla   (inductive step)   *)
(*   apalache-mc check --init=Init    --inv=IndInv --length=0 TickConfirmInd.tla   (base case)        *)
(*   apalache-mc check --init=IndInit --inv=QueriesAgree --length=0 ...            (IndInv => property)*)
(***************************************************************************)
EXTENDS Integers, FiniteSets, Apalache

VARIABLES
    \* @type: Int;
    last,
    \* @type: Set(Int);
    mask,
    \* @type: Set(Int);
    S

W == 64
Bits == 0 .. 63

\* ConfirmHistory::new(t)
Init == \E t \in Int : t >= 0 /\ last = t /\ mask = {0} /\ S = {t}

\* ConfirmHistory::confirm(t), with the reference set of confirmed ticks as ghost
Confirm(t) ==
    /\ S' = S \union {t}
    /\ IF t > last
       THEN /\ last' = t
            /\ mask' = (IF t - last < W THEN {i + (t - last) : i \in mask} \intersect Bits ELSE {}) \union {0}
       ELSE /\ last' = last
            /\ mask' = IF last - t < W THEN mask \union {last - t} ELSE mask

Next == \E t \in Int : t >= 0 /\ Confirm(t)

\* the mechanism as found on the pinned tree (F6): mask.wrapping_shl(diff) shifts by diff mod 64, so a gap of
\* 64 or more keeps stale bits.  `--next=NextF6` must break the inductive step (non-vacuity).
ConfirmF6(t) ==
    /\ S' = S \union {t}
    /\ IF t > last
       THEN /\ last' = t
            /\ mask' = ({i + ((t - last) % W) : i \in mask} \intersect Bits) \union {0}
       ELSE /\ last' = last
            /\ mask' = IF last - t < W THEN mask \union {last - t} ELSE mask
NextF6 == \E t \in Int : t >= 0 /\ ConfirmF6(t)

\* the mask is exactly the window of the reference set
IndInv ==
    /\ last >= 0
    /\ mask \subseteq Bits
    /\ \A ago \in Bits : (ago \in mask) <=> ((last - ago) \in S)
    /\ \A t \in S : t <= last /\ t >= 0

\* an arbitrary state satisfying the invariant (|S| <= 70)
IndInit ==
    /\ last \in Int
    /\ mask \in SUBSET Bits
    /\ S = Gen(70)
    /\ IndInv

\* ConfirmHistory::contains(t) against the reference: confirmed, or older than the window
Contains(t) == IF t > last THEN FALSE ELSE (last - t >= W \/ (last - t) \in mask)
RefContains(t) == t \in S \/ (t <= last - W)
QueriesAgree == \A d \in (-3) .. 70 : (last - d >= 0) => (Contains(last - d) = RefContains(last - d))

=============================================================================
