\* C14 thorough tier, second instance: 3 types, priorities {0,1,2} (1 is the default priority), length <= 2;
\* handshake interleavings for the pairs of the empty sequence only.
SPECIFICATION Spec
CONSTANTS
    NTypes = 3
    Prios = {0, 1, 2}
    MaxLen = 2
    HsLen = 0
    HsFullLen = 1
    MaxCF = 3
    MaxSF = 2
    Mutation = "none"
    Emit = TRUE
INVARIANTS
    TypeOK
    HashProperty
    AuthOnlyOnMatch
    MismatchOnlyOnMismatch
    NotBoth
    NotifiedImpliesRequested
    DecidedOutcome
    InformedOutcome
    OutcomeMatches
    EmitPairs
    EmitHs
CHECK_DEADLOCK FALSE
