\* C12 TickOrder at the real width (two 16-bit limbs): bases 0, 2^31-70, 2^32-70 x boundary offsets x boundary distances
SPECIFICATION Spec
CONSTANTS
  ImplBug_F6_Shl = FALSE
  ImplBug_F6_Range = FALSE
  OverflowChecks = TRUE
  LimbBits = 16
  BaseSet <- Base32
  XSet <- X32
  DSet <- D32
  Emit = TRUE
INVARIANTS C12_TO EmitCase
CHECK_DEADLOCK FALSE
