\* prints the order in which n equal-timestamp messages leave the heap as found (for the direct driver).
CONSTANTS
    NumChannels = 2
    MaxMsgs = 0
    Delays = {0}
    MaxClock = 2
    ImplBug_F7 = TRUE
    PartialReads = TRUE
    Gen = FALSE
    PermSizes = {1, 2, 3, 4, 5, 8, 16, 32, 48}
SPECIFICATION Spec
CHECK_DEADLOCK FALSE
INVARIANTS TypeOK
