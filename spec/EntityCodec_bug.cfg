\* C15 non-vacuity: the mechanism as found on the pinned tree (F16) must violate Total
SPECIFICATION Spec
CHECK_DEADLOCK FALSE
CONSTANTS
  ImplBug_F16 = TRUE
  Families = {"bytes"}
  IdxClasses <- IdxQuick
  GenClasses <- GenQuick
  Prefixes <- PrefixesQuick
  Suffixes <- SuffixesQuick
  FlagRaw <- FlagRawQuick
  FIdxClasses <- FIdxQuick
  GenRaw <- GenRawQuick
  Shapes <- ShapesAll
  FSuffixes <- FSuffixesQuick
  Alphabet <- AlphabetDeep
  MaxLen = 6
  Emit = FALSE
INVARIANTS
  Total
  Lossless
  RoundTrip
  EmitCase
