SPECIFICATION SpecC
CONSTANTS
    Chan = {0, 1, 2}
    Peer = {1}
    MaxOps = 9
    Impl = "Design"
INVARIANT Inv
VIEW View
CHECK_DEADLOCK FALSE
