SPECIFICATION SpecC
CONSTANTS
    Chan = {0}
    Peer = {1}
    MaxOps = 5
    Impl = "Design"
INVARIANT Inv
INVARIANT Export
CHECK_DEADLOCK FALSE
