\* C13 thorough tier, second exhaustive verification instance (no history): all kinds, both builds, 5 frames,
\* <= 1 emission, <= 4 configuration changes (e.g. singleplayer -> connecting -> connected -> disconnected -> listen server), <= 3 actions between frames.
SPECIFICATION Spec
CONSTANTS
    Kinds = {"cev", "ctr", "ctt", "phash", "sev", "sevi", "str", "stt"}
    Builds = {TRUE, FALSE}
    MaxFrames = 5
    MaxEmit = 1
    MaxOps = 4
    MaxGap = 3
    ImplBug_F13 = FALSE
    ImplBug_Direct = FALSE
    Gen = FALSE
INVARIANTS
    TypeOK
    NoHybrid
    ExactlyOnce
    NoNetWithoutConnection
    NoPanic
CHECK_DEADLOCK FALSE
