SPECIFICATION Spec
CONSTANTS
  Ent = {"e1"}
  Client = {"c1"}
  Policy = "all"
  Track = FALSE
  Timeout = 1000
  Impl <- ImplAsDesigned
  MaxOps = 3
  MaxTicks = 3
  MaxIdle = 1
  MaxCliFrames = 3
  OpComps = {"A", "P"}
  OpKinds = {"spawn", "mutate", "remove"}
  SettleRounds = 3
  Emit = FALSE
VIEW View0
INVARIANTS Inv_C01 Inv_C02 Inv_C03 Inv_C08 Inv_C11 EmitInv
PROPERTY Prop_Mono
CHECK_DEADLOCK FALSE
