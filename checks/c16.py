"""C16 - pre-spawned client entities are adopted, not duplicated (ClientEntityMap / mappings section)."""
import corelib as C
from corelib import mc_consts

PID = "C16"


def main(tier, seed, replay):
    if replay:
        return C.replay_file(PID, replay)
    k = C.CoreCheck(PID, tier, seed)
    inv = ["Inv_C16", "Inv_C03", "Inv_C01"]
    ops = ("spawn", "prespawn", "killpre", "mappre", "mutate")
    if tier == "quick":
        k.model_check("MC_Map", mc_consts(kinds=ops, ops=3, ticks=3, idle=1, pre=("p1",)), inv)
        k.must_find("MC_Map_seed", mc_consts(impl="ImplNoMap", kinds=("spawn", "prespawn", "mappre"), ops=3, ticks=2, idle=1, pre=("p1",)), ["Inv_C16"])
        tr = k.validate_profile("prespawn", 250, extra_monitors=("C03", "C01"), extra_fields=("net", "cli", "srv.cl"))
        # mappings together with relations and visibility (known findings F24, F17 are not avoided here)
        k.must_find("MC_Map_F24", mc_consts(impl="ImplF24", ents=("e1", "e2"), policy="black", comps=("A",), kinds=("spawn", "relate", "setvis", "prespawn", "mappre"), pre=("p1",), ops=7, ticks=2, idle=0, cframes=1), ["Inv_C02", "Inv_C16", "Inv_C01"])
        k.validate_profile("pre_rel", 60, extra_monitors=("C03", "C01", "C02"), extra_fields=("net", "cli", "srv.cl"), known=("F24", "F17"))
        k.replay_behaviours("EXH_Map", mc_consts(kinds=ops, ops=4, ticks=2, idle=1, cframes=0, pre=("p1",)), 0, invariants=inv, extra_monitors=("C03", "C01"), extra_fields=("net", "cli", "srv.cl"))
        k.replay_behaviours("TLC_walks_pre", mc_consts(kinds=("spawn", "despawn", "mutate", "prespawn", "killpre", "mappre"), pre=("p1", "p2"), ents=("e1", "e2"), clients=("c1", "c2"), ops=8, ticks=6, idle=3, cframes=8), 150, depth=80, extra_monitors=("C03", "C01"), extra_fields=("net", "cli", "srv.cl"))
    else:
        k.model_check("MC_Map", mc_consts(kinds=ops, ops=4, ticks=3, idle=1, pre=("p1",)), inv, timeout=3000)
        k.model_check("MC_Map2", mc_consts(clients=("c1", "c2"), kinds=("spawn", "prespawn", "killpre", "mappre"), ops=4, ticks=2, idle=1, cframes=2, pre=("p1",)), inv, timeout=3000)
        k.model_check("MC_MapE2", mc_consts(ents=("e1", "e2"), kinds=("spawn", "prespawn", "mappre", "insert"), ops=4, ticks=2, idle=1, pre=("p1", "p2")), inv, timeout=3000)
        k.must_find("MC_Map_seed", mc_consts(impl="ImplNoMap", kinds=("spawn", "prespawn", "mappre"), ops=3, ticks=2, idle=1, pre=("p1",)), ["Inv_C16"])
        tr = k.validate_profile("prespawn", 4000, extra_monitors=("C03", "C01"), extra_fields=("net", "cli", "srv.cl"))
        k.must_find("MC_Map_F24", mc_consts(impl="ImplF24", ents=("e1", "e2"), policy="black", comps=("A",), kinds=("spawn", "relate", "setvis", "prespawn", "mappre"), pre=("p1",), ops=7, ticks=2, idle=0, cframes=1), ["Inv_C02", "Inv_C16", "Inv_C01"])
        k.validate_profile("pre_rel", 1500, extra_monitors=("C03", "C01", "C02"), extra_fields=("net", "cli", "srv.cl"), known=("F24", "F17"))
        k.replay_behaviours("EXH_Map", mc_consts(kinds=ops, ops=5, ticks=2, idle=1, cframes=0, pre=("p1",)), 0, invariants=inv, extra_monitors=("C03", "C01"), extra_fields=("net", "cli", "srv.cl"), timeout=3000)
        k.replay_behaviours("EXH_Map2", mc_consts(kinds=ops, clients=("c1", "c2"), ops=4, ticks=2, idle=1, cframes=0, pre=("p1",)), 0, invariants=inv, extra_monitors=("C03", "C01"), extra_fields=("net", "cli", "srv.cl"), timeout=3000)
        k.replay_behaviours("TLC_walks_pre", mc_consts(kinds=("spawn", "despawn", "mutate", "prespawn", "killpre", "mappre"), pre=("p1", "p2"), ents=("e1", "e2"), clients=("c1", "c2"), ops=8, ticks=6, idle=3, cframes=8), 2000, depth=80, extra_monitors=("C03", "C01"), extra_fields=("net", "cli", "srv.cl"))
    k.selftest(tr)
    return k.finish(assumptions=[
        "the premise of the property is a guard of the MapPre action: the mapping is registered while the server has not yet sent the entity to that client, once per server entity and once per pre-spawned entity",
        "the client may despawn its pre-spawned entity only before it is adopted (despawning a replicated entity locally is outside the property)"])
