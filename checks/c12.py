"""C12 (pure half) - tick-confirmation queries agree with what was actually received.

Mechanisms: ConfirmHistory (mask arithmetic), ServerMutateTicks (ring of counters), RepliconTick::cmp
(wrapping compare).  Specification: spec/TickConfirm.tla (+ TickConfirmCH/MT/TO.tla bounded instances), each
mechanism written as implemented next to the reference of the property statement (a plain set of confirmed
ticks / order by wrapping distance).

What one run does
  1. TLC verifies the as-designed model against the reference over ALL confirm sequences of the stated bounds
     and ALL point / range queries over the boundary set, and prints every explored transition as a JSON case
     carrying the reference's answers.
  2. Non-vacuity: the `found` configs (ConfirmHistory as found on the pinned tree, finding F6; TickOrder at exactly
     half the range) MUST be reported violated by TLC.
  3. harness/src/bin/c12_replay.rs replays every case on the real types at bases 0, 2^31-70, 2^32-70 (the u32
     wrap lives in the base) and compares every observation; panics are observations.
  4. Binding self-test: one expected value is corrupted; the replayer must flag exactly that case.

The end-to-end half of C12 (MutateTickReceived fires once, iff all messages applied) is checked elsewhere.
"""
import json
import os
import random
import re
import time
from concurrent.futures import ThreadPoolExecutor

import checklib as L

PID = "C12"
BASES = [0, 2 ** 31 - 70, 2 ** 32 - 70]

# (module, cfg) of the as-designed instances; every explored transition becomes a replayed case.
DESIGN = {
    "quick": [
        ("TickConfirmCH", "TickConfirmCH_quick.cfg"),
        ("TickConfirmMT", "TickConfirmMT_quick.cfg"),
        ("TickConfirmMT", "TickConfirmMT_quick_deep.cfg"),
        ("TickConfirmTO", "TickConfirmTO_small.cfg"),
        ("TickConfirmTO", "TickConfirmTO_u32.cfg"),
    ],
}
DESIGN["thorough"] = DESIGN["quick"] + [
    ("TickConfirmCH", "TickConfirmCH_thorough_mid.cfg"),
    ("TickConfirmCH", "TickConfirmCH_thorough_deep.cfg"),
    ("TickConfirmMT", "TickConfirmMT_thorough_mid.cfg"),
    ("TickConfirmMT", "TickConfirmMT_thorough_k3.cfg"),
    ("TickConfirmMT", "TickConfirmMT_thorough_deep.cfg"),
    ("TickConfirmTO", "TickConfirmTO_mid.cfg"),
]
# configs TLC must report violated (the model can see this class of bug)
MUST_FAIL = {
    "quick": [
        ("TickConfirmCH", "TickConfirmCH_found_shl.cfg", "F6 set_last_tick: wrapping_shl keeps stale bits after a gap >= 64"),
        ("TickConfirmCH", "TickConfirmCH_found_range.cfg", "F6 contains_any: 1 << 64 panics for a whole-window range"),
        ("TickConfirmTO", "TickConfirmTO_half.cfg", "cmp is not an order at exactly half the range (bound of the statement is tight)"),
    ],
}
MUST_FAIL["thorough"] = MUST_FAIL["quick"] + [
    ("TickConfirmCH", "TickConfirmCH_found_range_release.cfg", "F6 contains_any: release arithmetic answers false for a whole-window range"),
]

CASE_RE = re.compile(r'^<<"CASE", "(.*)">>$')


# ----------------------------------------------------------------------------- known findings
def _ch_forward_gap(case):
    newest = case["hist"][0]
    for t in case["hist"][1:]:
        if t - newest >= 64:
            return True
        newest = max(newest, t)
    return False


def sig_f6(case, kinds):
    """F6: ConfirmHistory after a forward gap >= 64 (stale mask bits), or a range query over the whole window."""
    if case.get("m") != "CH":
        return False
    rest = {k for k in kinds if k != "contains_any:panic:whole_window" and k != "contains_any:whole_window"}
    if not rest:
        return True
    return _ch_forward_gap(case) and rest <= {"mask", "contains", "contains_any"}


SIGNATURES = {"confirm_history_gap_ge_64_or_whole_window_range": sig_f6}


def open_findings():
    res = []
    for f in L.load_known_findings():
        if PID in f.get("properties", []) and f.get("status") == "open" and f.get("signature") in SIGNATURES:
            res.append(f)
    return res


# ----------------------------------------------------------------------------- helpers
def read_cfg_constants(cfg):
    txt = open(os.path.join(L.SPEC, cfg)).read()
    consts = {}
    for line in txt.splitlines():
        m = re.match(r"^\s+(\w+)\s*(=|<-)\s*(.+?)\s*$", line)
        if m:
            consts[m.group(1)] = m.group(3)
    return consts


def extract_cases(out, fh):
    """Streams the CASE lines of one TLC run into the ndjson file; returns how many."""
    lines = []
    for line in out.splitlines():
        m = CASE_RE.match(line.strip())
        if m:
            lines.append(m.group(1).encode().decode("unicode_escape"))
    lines.sort()    # TLC's workers print in a nondeterministic order; the case file must not depend on it
    for l in lines:
        fh.write(l)
        fh.write("\n")
    return len(lines)


def run_replayer(path, timeout):
    r = L.run([L.harness_bin("c12_replay"), path, ",".join(str(b) for b in BASES)], timeout=timeout)
    try:
        return json.loads(r.stdout.strip().splitlines()[-1])
    except (IndexError, json.JSONDecodeError):
        raise L.ToolError("c12_replay printed no summary")


def load_lines(path, wanted):
    """Returns {index: case} for the wanted line indices of an ndjson file."""
    wanted = set(wanted)
    res = {}
    if not wanted:
        return res
    with open(path) as f:
        for i, line in enumerate(f):
            if i in wanted:
                res[i] = json.loads(line)
                if len(res) == len(wanted):
                    break
    return res


def corrupt(case):
    """Flips one expected value of the case (in place); returns a description."""
    if case["m"] == "TO":
        case["exp"] = {"Less": "Greater", "Greater": "Equal", "Equal": "Less"}[case["exp"]]
        return "exp"
    i = len(case["pt"]) // 2
    case["pt"][i] = 1 - case["pt"][i]
    return f"pt[{i}]"


def self_test(wd, cases_path, ranges, bad_idx, rng, timeout):
    """Corrupt one expected value in a sample of cases of each mechanism; the replayer must flag exactly that case.

    ranges: [(mechanism, first line index, one past last)] of the case file."""
    bad_idx = set(bad_idx)
    pools = {}
    for mech, a, b in ranges:
        pools.setdefault(mech, []).extend(range(a, b))
    tested = []
    for mech, pool in sorted(pools.items()):
        idxs = sorted(i for i in rng.sample(pool, min(len(pool), 60)) if i not in bad_idx)[:40]
        if not idxs:
            continue        # every sampled case of this mechanism already disagrees (reported as such)
        sample = load_lines(cases_path, idxs)
        victim = idxs[rng.randrange(len(idxs))]
        p = os.path.join(wd, f"selftest_{mech}.ndjson")
        field = None
        with open(p, "w") as f:
            for i in idxs:
                c = json.loads(json.dumps(sample[i]))
                if i == victim:
                    field = corrupt(c)
                f.write(json.dumps(c) + "\n")
        res = run_replayer(p, timeout)
        flagged = [idxs[k] for k, _ in res["mismatch_cases"]]
        if flagged != [victim]:
            raise L.ToolError(f"binding self-test failed for {mech}: corrupted {field} of case {victim}, "
                              f"replayer flagged {flagged}")
        v = sample[victim]
        tested.append({"mechanism": mech, "corrupted_case": v.get("hist", [v.get("bhi"), v.get("blo"), v.get("x"), v.get("d")]),
                       "field": field, "flagged_exactly_that_case": True})
    if not tested:
        raise L.ToolError("binding self-test: no clean case available to corrupt")
    return tested


def slim(case):
    """A case as shown in evidence samples (range table shortened)."""
    c = dict(case)
    if "rg" in c:
        c["rg"] = c["rg"][:2] + ["... %d more rows" % max(0, len(case["rg"]) - 2)]
    return c


def case_size(ck):
    h = ck[0].get("hist", [])
    return (len(h), json.dumps(h))


def evaluate(verdict, cases_path, res, tag, existing_replay=None):
    """Turns the replayer's summary into VIOLATION / KNOWN-FINDING lines. Returns number of violating cases."""
    bad = res["mismatch_cases"]
    if not bad:
        return 0
    kinds_of = {i: set(k) for i, k in bad}
    opened = open_findings()
    viol, n_viol, known = {}, {}, {}
    with open(cases_path) as f:       # one pass over the case file: classify every failing case
        for i, line in enumerate(f):
            if i not in kinds_of:
                continue
            case, kinds = json.loads(line), kinds_of[i]
            hit = next((fd for fd in opened if SIGNATURES[fd["signature"]](case, kinds)), None)
            if hit:
                k = known.setdefault(hit["id"], {"n": 0, "example": (case, kinds), "what": hit.get("what", "")})
                k["n"] += 1
                if case_size((case, kinds)) < case_size(k["example"]):
                    k["example"] = (case, kinds)
            else:
                mech = case["m"]
                n_viol[mech] = n_viol.get(mech, 0) + 1
                lst = viol.setdefault(mech, [])
                lst.append((case, kinds))
                if len(lst) > 4000:      # keep the shortest ones only
                    lst.sort(key=case_size)
                    del lst[20:]
    for fid, k in sorted(known.items()):
        c, kinds = k["example"]
        verdict.known_finding(f"{fid} {k['what']} ({k['n']} cases, e.g. hist={c.get('hist')} differs in {sorted(kinds)})")
    if viol:
        keep = []
        for mech in sorted(viol):
            viol[mech].sort(key=case_size)
            keep += viol[mech][:20]
        path = existing_replay or L.save_replay(PID, f"{tag}.json", {
            "property": PID, "bases": BASES,
            "what": "real code disagrees with the specification's reference on these cases (shortest 20 per mechanism)",
            "failing_cases": n_viol, "first_mismatching_observations": res["mismatches"],
            "kinds": [[c["m"], c.get("hist", [c.get("bhi"), c.get("blo"), c.get("x"), c.get("d")]), sorted(k)] for c, k in keep],
            "cases": [c for c, _ in keep]})
        short = "; ".join(
            f"{mech}: {n_viol[mech]} cases, shortest "
            f"{viol[mech][0][0].get('hist', [viol[mech][0][0].get(x) for x in ('bhi', 'blo', 'x', 'd')])} "
            f"differs in {sorted(viol[mech][0][1])}" for mech in sorted(viol))
        verdict.violation(path, f"real code vs reference: {short}; first mismatching observation: "
                                f"{res['mismatches'][0] if res['mismatches'] else None}")
    return sum(n_viol.values())


# ----------------------------------------------------------------------------- main
def main(tier, seed, replay):
    t0 = time.time()
    rng = random.Random(seed)
    verdict = L.Verdict(PID)
    L.build_harness()
    wd = L.workdir("c12")
    quick = tier != "thorough"
    tlc_timeout = 80 if quick else 900
    rp_timeout = 60 if quick else 600

    if replay:
        try:
            data = json.load(open(replay))
            cases = data["cases"]
        except (OSError, ValueError, KeyError) as e:
            raise L.ToolError(f"cannot read replay file {replay}: {e}")
        p = os.path.join(wd, "replay.ndjson")
        with open(p, "w") as f:
            for c in cases:
                f.write(json.dumps(c) + "\n")
        res = run_replayer(p, rp_timeout)
        n_bad = evaluate(verdict, p, res, "replayed", existing_replay=replay)
        L.log(f"[c12] replayed {res['cases']} cases ({res['runs']} runs): {n_bad} violating, "
              f"{res['mismatch_count']} mismatching observations, {res['panic_count']} panics")
        shutil_rm(wd)
        return verdict.exit_code()

    # 1. + 2. all TLC runs (a few at a time; each gets its own metadir)
    design = DESIGN[tier if tier in DESIGN else "quick"]
    mustfail = MUST_FAIL[tier if tier in MUST_FAIL else "quick"]

    def tlc(job):
        module, cfg = job[0], job[1]
        d = os.path.join(wd, cfg.replace(".cfg", ""))
        os.makedirs(d, exist_ok=True)
        return L.run_tlc(module, cfg, d, workers=4, timeout=tlc_timeout)

    with ThreadPoolExecutor(max_workers=3) as pool:
        results = list(pool.map(tlc, list(design) + [j[:2] for j in mustfail]))

    # 1. the as-designed model against the reference; export of the cases
    cases_path = os.path.join(wd, "cases.ndjson")
    per_cfg, states, generated, total_cases, ranges = [], 0, 0, 0, []
    design_violated = False
    with open(cases_path, "w") as fh:
        for (module, cfg), r in zip(design, results):
            if r["violated"]:
                design_violated = True
                tail = "\n".join(l for l in r["out"].splitlines() if not l.startswith('<<"CASE"'))[-6000:]
                path = L.save_replay(PID, f"tlc-{cfg}.txt", tail)
                verdict.violation(path, f"TLC: the as-designed model violates the reference in {cfg}")
                continue
            n = extract_cases(r["out"], fh)
            r["out"] = None
            states += r["distinct"]
            generated += r["states"]
            if n:
                ranges.append((module[-2:], total_cases, total_cases + n))
            total_cases += n
            per_cfg.append({"module": module, "cfg": cfg, "constants": read_cfg_constants(cfg),
                            "states_generated": r["states"], "distinct_states": r["distinct"],
                            "cases_exported": n, "tlc_wall_s": round(r["wall"], 1)})
            L.log(f"[c12] TLC {cfg}: {r['distinct']} distinct states, {n} cases, {r['wall']:.1f}s")

    # 2. non-vacuity of the model checking
    must_fail = []
    for (module, cfg, what), r in zip(mustfail, results[len(design):]):
        if not r["violated"]:
            raise L.ToolError(f"non-vacuity: TLC did not find the violation expected in {cfg} ({what})")
        m = re.search(r"Error: Invariant (\w+) is violated", r["out"])
        must_fail.append({"cfg": cfg, "what": what, "tlc_reports": f"Invariant {m.group(1)} is violated" if m else "violated"})
        L.log(f"[c12] TLC {cfg}: violation found, as required ({what})")

    if total_cases == 0:
        if design_violated:
            L.write_evidence(PID, tier, seed, "model_checking",
                             {"states": max(states, 1), "transitions": max(generated, 1),
                              "traces_validated_against_impl": 0, "samples": ["none: TLC refuted the design"],
                              "exhaustive": False}, time.time() - t0, violations=len(verdict.violations))
            return verdict.exit_code()
        raise L.ToolError("TLC exported no cases")

    # 3. replay on the real types
    res = run_replayer(cases_path, rp_timeout)
    if res["cases"] != total_cases:
        raise L.ToolError(f"replayer saw {res['cases']} cases, TLC exported {total_cases}")
    n_bad = evaluate(verdict, cases_path, res, f"{tier}-seed{seed}")
    L.log(f"[c12] replayed {res['cases']} cases as {res['runs']} runs at bases {BASES}: {res['observations']} observations, "
          f"{n_bad} violating cases, {res['panic_count']} panics")

    # 4. binding self-test
    tested = self_test(wd, cases_path, ranges, [i for i, _ in res["mismatch_cases"]], rng, rp_timeout)
    L.log(f"[c12] binding self-test ok: {tested}")

    # vacuity: every class of step / query / answer must have been exercised
    needed = ["ch_step_gap_ge_64", "ch_step_newer_in_window", "ch_step_older_in_window", "ch_step_older_than_window",
              "mt_step_gap_ge_64", "mt_step_newer_in_window", "mt_step_older_in_window", "mt_step_older_than_window",
              "mt_ret_T", "mt_ret_F", "mt_ret_*", "range_covers_whole_window", "to_Less", "to_Equal", "to_Greater"]
    missing = [k for k in needed if not res["classes"].get(k)]
    if missing:
        raise L.ToolError(f"vacuity: classes never exercised: {missing}")

    pick = sorted(rng.sample(range(total_cases), min(total_cases, 60)))
    smp = load_lines(cases_path, pick)
    samples, seen = [], set()
    for i in pick:
        c = smp[i]
        if c["m"] not in seen or len(samples) < 5:
            seen.add(c["m"])
            samples.append(slim(c))
        if len(samples) >= 6 and len(seen) == 3:
            break
    # end to end (tracking on): MutateTickReceived fires exactly once, when every message of the tick was applied
    import corelib
    e2e = corelib.track_e2e(PID, seed, 100 if quick else 800, verdict)
    apa = None if quick else apalache_inductive(verdict, wd)
    coverage = {
        "end_to_end_tracking": e2e,
        "apalache_inductive_invariant_unbounded_ticks": apa,
        "states": states,
        "transitions": generated,
        "traces_validated_against_impl": res["runs"],
        "samples": samples,
        "exhaustive": True,
        "cases_exported_by_tlc": total_cases,
        "observations_compared": res["observations"],
        "bases": BASES,
        "mismatching_cases": len(res["mismatch_cases"]),
        "panics_observed": res["panic_count"],
        "classes_exercised": res["classes"],
        "configs": per_cfg,
        "must_fail_configs": must_fail,
        "binding_self_test": tested,
        "rule": "TLC enumerates every confirm sequence within each config's constants (N calls, delta alphabet relative "
                "to the newest tick, 1..KMax messages per tick) and, per reached state, every point query and every "
                "range query over the boundary set QAgo plus all confirmed ticks; each explored transition is one case "
                "and is replayed on the real type at every base (un-anchored ServerMutateTicks cases at base 0 only). "
                "TickOrder: all ticks x all distances below half the range for the small counters; boundary "
                "bases/offsets/distances (up to 2^31-1) at 32 bits.",
    }
    shutil_rm(wd)
    L.write_evidence(PID, tier, seed, "model_checking", coverage, time.time() - t0,
                     violations=len(verdict.violations),
                     assumptions=[
                         "the pure mechanisms are decided by TickConfirm*; MutateTickReceived end to end is decided by trace validation of executions with tracking on against spec/Core.tla (cli.notif) and the monitor C12e2e of spec/CoreTrace.tla",
                         "tick offsets in TLC are integers; their order is RepliconTick::cmp by the TickOrder part "
                         "(valid below half the range) and by replay at bases 0, 2^31-70, 2^32-70",
                         "harness build has debug assertions and overflow checks on; release arithmetic is covered "
                         "only in the model (OverflowChecks = FALSE config)",
                         "ServerMutateTicks inputs are the legal ones: same message count for a tick, at most that many "
                         "confirmations",
                     ])
    return verdict.exit_code()


def apalache_inductive(verdict, wd):
    """Thorough tier: ConfirmHistory for arbitrary tick values - an inductive invariant checked symbolically by
    Apalache (spec/apalache/TickConfirmInd.tla): base case, inductive step, invariant => queries agree with
    the reference set; with the as-found shift (F6) the step must break.  A counterexample on the design is a
    violation of the specification's claim; a timeout or a missing tool is only noted."""
    import subprocess
    src = os.path.join(L.VERIF, "spec", "apalache", "TickConfirmInd.tla")
    runs = [("base", ["--init=Init", "--inv=IndInv", "--length=0"], 300, "NoError"),
            ("step", ["--init=IndInit", "--inv=IndInv", "--length=1"], 2400, "NoError"),
            ("queries", ["--init=IndInit", "--inv=QueriesAgree", "--length=0"], 900, "NoError"),
            ("step_as_found_F6", ["--init=IndInit", "--next=NextF6", "--inv=IndInv", "--length=1"], 1200, "Error")]
    out = {}
    for name, args, tmo, want in runs:
        t0 = time.time()
        try:
            r = subprocess.run(["apalache-mc", "check"] + args + [f"--out-dir={os.path.join(wd, 'apalache_' + name)}", src],
                               stdout=subprocess.PIPE, stderr=subprocess.STDOUT, text=True, timeout=tmo)
            m = re.search(r"The outcome is: (\w+)", r.stdout)
            got = m.group(1) if m else "unknown"
        except (subprocess.TimeoutExpired, FileNotFoundError) as e:
            got = "not finished (" + type(e).__name__ + ")"
            r = None
        out[name] = {"outcome": got, "expected": want, "wall_s": round(time.time() - t0, 1)}
        if got == "Error" and want == "NoError":
            p = L.save_replay(PID, f"apalache-{name}.log", r.stdout[-8000:])
            verdict.violation(p, f"Apalache: {name} of the inductive invariant of ConfirmHistory fails")
        if got == "NoError" and want == "Error":
            raise L.ToolError("vacuity: the as-found shift (F6) preserves the inductive invariant")
    return out


def shutil_rm(wd):
    import shutil
    shutil.rmtree(wd, ignore_errors=True)
