"""C18 - scene export contains exactly the replicated state.

TLC enumerates (rule set x world x pre-filled scene) cases from spec/SceneExport.tla, checks the property
on the as-designed export, finds the violation with ImplBug_F12 on (non-vacuity), and prints every case with
the scene the specification expects.  harness/src/bin/c18_replay.rs builds every case as a real App/World,
calls bevy_replicon::scene::replicate_into, compares the DynamicScene with the expectation as multisets,
serialises it to RON and reads it back.
"""
import json
import os
import random
import re
import shutil
import time

import checklib as L

PID = "C18"
MODULE = "SceneExport"
BIN = "c18_replay"

TIERS = {
    "quick": dict(cfg="SceneExport_quick.cfg", tlc_timeout=300, replay_timeout=300,
                  constants={"MaxEnt": 2, "RuleOpts": [0, 1, 2], "SecondComps": ["A", "B"], "SecondPre": [[]],
                             "TwoEntRuleOpts": [1]}),
    "thorough": dict(cfg="SceneExport_thorough.cfg", tlc_timeout=1000, replay_timeout=600,
                     constants={"MaxEnt": 2, "RuleOpts": [0, 1, 2], "SecondComps": ["A", "B", "D"],
                                "SecondPre": [[], ["A"]], "TwoEntRuleOpts": [0, 1]}),
}
BUG_CFG = "SceneExport_bug.cfg"

# Predicates over a case, referenced by the `signature` field of known_findings.json entries.
SIGNATURES = {
    # the as-found export of the spec (plain push, ImplBug_F12) puts a component twice in this case
    "f12": lambda case: bool(case.get("f12")),
}

EXPORTABLE = {"A", "B"}  # registered in the type registry and #[reflect(Component)]

BUILTIN_SELFTEST = [
    {"rules": [{"c": ["A"], "p": 1, "d": True}],
     "ents": [{"m": True, "c": [["A", 11], ["B", 12]], "pin": False, "pc": []}],
     "exp": [{"s": "one", "c": [["A", 11]]}], "f12": False},
    {"rules": [{"c": ["B"], "p": 1, "d": True}],
     "ents": [{"m": True, "c": [["A", 11], ["B", 12]], "pin": True, "pc": [["A", 111]]}],
     "exp": [{"s": "one", "c": [["A", 111], ["B", 12]]}], "f12": False},
    {"rules": [], "ents": [{"m": True, "c": [["A", 11]], "pin": False, "pc": []}],
     "exp": [{"s": "one", "c": []}], "f12": False},
]


def norm_list(v):
    """ToJson prints an empty sequence/function as [] or {}; both mean 'no elements'."""
    if isinstance(v, dict):
        if v:
            raise L.ToolError(f"unexpected JSON object where a list was expected: {v}")
        return []
    return v


def normalise(case, cid):
    c = {"id": cid, "rules": norm_list(case["rules"]), "ents": norm_list(case["ents"]),
         "exp": norm_list(case["exp"]), "f12": bool(case.get("f12", False))}
    for e in c["ents"]:
        e["c"] = norm_list(e["c"])
        e["pc"] = norm_list(e["pc"])
    for e in c["exp"]:
        e["c"] = norm_list(e["c"])
    if len(c["ents"]) != len(c["exp"]):
        raise L.ToolError(f"malformed case {cid}")
    return c


def classes(case):
    """Case classes, for the vacuity counts in the evidence."""
    out = set()
    if not case["ents"]:
        out.add("no_entities")
    if not case["rules"]:
        out.add("no_rules")
    if any(not r["d"] for r in case["rules"]):
        out.add("custom_priority")
    marked_arch = []
    for ent, exp in zip(case["ents"], case["exp"]):
        comps = {n for n, _ in ent["c"]}
        if not ent["m"]:
            out.add("unmarked_prefilled" if ent["pin"] else ("unmarked_with_components" if comps else "unmarked_empty"))
            continue
        marked_arch.append(frozenset(comps))
        matching = [r for r in case["rules"] if set(r["c"]) <= comps]
        selected = [n for r in matching for n in r["c"]]
        if any(selected.count(n) > 1 for n in EXPORTABLE):
            out.add("overlapping_rules_select_same_component")
        if any(n not in EXPORTABLE for n in selected):
            out.add("rule_selects_unreflected_or_unregistered")
        if comps - set(selected):
            out.add("unreplicated_component_present")
        if any(len(r["c"]) > 1 for r in case["rules"] if not set(r["c"]) <= comps and set(r["c"]) & comps):
            out.add("bundle_rule_partially_present")
        if not exp["c"]:
            out.add("marked_exports_nothing")
        if not comps:
            out.add("marked_without_components")
        if ent["pin"]:
            out.add("prefilled_marked")
            exp_d = dict((n, v) for n, v in exp["c"])
            for n, v in ent["pc"]:
                out.add("prefilled_component_kept" if exp_d.get(n) == v else "prefilled_component_updated")
    if len(marked_arch) == 2:
        out.add("two_marked_same_archetype" if marked_arch[0] == marked_arch[1] else "two_marked_different_archetypes")
    if case["f12"]:
        out.add("f12_predicted_by_as_found_model")
    return out


REQUIRED_CLASSES = [
    "no_entities", "no_rules", "custom_priority", "unmarked_prefilled", "unmarked_with_components",
    "overlapping_rules_select_same_component", "rule_selects_unreflected_or_unregistered",
    "unreplicated_component_present", "bundle_rule_partially_present", "marked_exports_nothing",
    "marked_without_components", "prefilled_marked", "prefilled_component_kept", "prefilled_component_updated",
    "two_marked_same_archetype", "two_marked_different_archetypes", "f12_predicted_by_as_found_model",
]


def run_replayer(cases, wd, name, timeout):
    path = os.path.join(wd, name + ".ndjson")
    with open(path, "w") as f:
        for c in cases:
            f.write(json.dumps(c, separators=(",", ":")) + "\n")
    r = L.run([L.harness_bin(BIN), path], timeout=timeout)
    lines = [ln for ln in r.stdout.splitlines() if ln.strip()]
    if not lines:
        raise L.ToolError("replayer printed nothing")
    try:
        s = json.loads(lines[-1])
    except json.JSONDecodeError:
        raise L.ToolError("replayer summary is not JSON")
    if s.get("cases") != len(cases):
        raise L.ToolError(f"replayer ran {s.get('cases')} of {len(cases)} cases")
    return s


def self_test(passing, wd, rng):
    """Corrupt the expectation of one case; the replayer must report exactly that case."""
    cands = [c for c in passing if any(e["s"] == "one" and e["c"] for e in c["exp"])]
    if not cands:
        raise L.ToolError("self-test: no case with a non-empty expectation")
    group = rng.sample(passing, min(6, len(passing)))
    victim = json.loads(json.dumps(rng.choice(cands)))
    group = [c for c in group if c["id"] != victim["id"]]
    exp = next(e for e in victim["exp"] if e["s"] == "one" and e["c"])
    kind = rng.choice(["value", "drop", "extra"])
    if kind == "value":
        exp["c"][0][1] += 1
    elif kind == "drop":
        exp["c"].pop()
    else:
        exp["c"].append(["B" if all(n != "B" for n, _ in exp["c"]) else "C", 7])
    group.insert(rng.randrange(len(group) + 1), victim)
    s = run_replayer(group, wd, "selftest", 120)
    if s["mismatch_ids"] != [victim["id"]] or s["panic_ids"]:
        raise L.ToolError(f"self-test of the binding failed: corrupted case {victim['id']} ({kind}), "
                          f"replayer reported {s['mismatch_ids']} / panics {s['panic_ids']}")
    return {"corruption": kind, "case": victim["id"], "reported": s["mismatch_ids"]}


def case_size(c):
    return (len(c["ents"]), len(c["rules"]), sum(len(e["c"]) + len(e["pc"]) for e in c["ents"]))


def evaluate(cases, summary, V, wd, replay_name, replay_path=None):
    """Classifies the disagreements. Returns the number of violating cases."""
    by_id = {c["id"]: c for c in cases}
    bad_ids = sorted(set(summary["mismatch_ids"]) | set(summary["panic_ids"]))
    if not bad_ids:
        return 0
    known = [f for f in L.load_known_findings()
             if PID in f.get("properties", []) and f.get("status") == "open"]
    reports = {m["id"]: m for m in summary["panics"]}
    reports.update({m["id"]: m for m in summary["mismatches"]})
    violating = []
    for cid in bad_ids:
        case = by_id[cid]
        hit = None
        for f in known:
            pred = SIGNATURES.get(f.get("signature"))
            if pred and pred(case):
                hit = f
                break
        if hit:
            V.known_finding(f"{hit.get('id')}: {hit.get('what', '')}".strip())
        else:
            violating.append(case)
    if violating:
        violating.sort(key=case_size)
        shortest = violating[0]
        # the replayer details only its first 20 disagreements: get the reports of the shortest cases
        again = run_replayer(violating[:20], wd, "shortest", 120)
        reports = {m["id"]: m for m in again["panics"]}
        reports.update({m["id"]: m for m in again["mismatches"]})
        rep = reports.get(shortest["id"])
        content = {"property": PID, "violating_cases": len(violating),
                   "shortest": shortest, "shortest_report": rep,
                   "reports": [reports[c["id"]] for c in violating if c["id"] in reports][:20],
                   "cases": violating[:200]}
        path = replay_path or L.save_replay(PID, replay_name, content)
        what = f"{len(violating)} case(s) where replicate_into disagrees with the expected scene; shortest: " \
               f"{json.dumps(shortest, separators=(',', ':'))}"
        if rep:
            what += f" -> {rep.get('what') or rep.get('panic')}"
        V.violation(path, what)
    return len(violating)


def main(tier, seed, replay):
    t0 = time.time()
    if tier not in TIERS:
        raise L.ToolError(f"unknown tier {tier}")
    T = TIERS[tier]
    rng = random.Random(seed)
    V = L.Verdict(PID)
    L.build_harness()
    wd = L.workdir("c18")

    if replay:
        data = json.load(open(replay))
        raw = data["cases"] if isinstance(data, dict) else data
        cases = [normalise(c, c.get("id", i)) for i, c in enumerate(raw)]
        st = self_test([normalise(c, 10_000_000 + i) for i, c in enumerate(BUILTIN_SELFTEST)], wd, rng)
        L.log(f"[c18] self-test ok: {st}")
        s = run_replayer(cases, wd, "replay", T["replay_timeout"])
        n = evaluate(cases, s, V, wd, "replay.json", replay_path=replay)
        L.log(f"[c18] replayed {len(cases)} cases from {replay}: {n} violating")
        shutil.rmtree(wd, ignore_errors=True)
        return V.exit_code()

    # 1. the property on the as-designed model, and the cases
    r = L.run_tlc(MODULE, T["cfg"], wd, workers=8, timeout=T["tlc_timeout"])
    if r["violated"]:
        path = L.save_replay(PID, f"tlc-design-{tier}.txt", r["out"][-20000:])
        V.violation(path, "TLC: the as-designed export violates C18 in the specification")
        L.write_evidence(PID, tier, seed, "model_checking",
                         {"states": max(r["distinct"], 1), "transitions": max(r["states"], 1),
                          "traces_validated_against_impl": 0, "samples": ["see replay file"], "exhaustive": False},
                         time.time() - t0, violations=1)
        return V.exit_code()
    m = re.search(r"Finished computing initial states: (\d+) distinct state", r["out"])
    if not m:
        raise L.ToolError("cannot find the number of initial states in the TLC output")
    n_init = int(m.group(1))
    raw = L.tlc_prints(r["out"], "CASE")
    if len(raw) != r["distinct"] - n_init or any(not isinstance(c, dict) for c in raw):
        raise L.ToolError(f"TLC printed {len(raw)} cases for {r['distinct']} states ({n_init} rule-set states)")
    raw.sort(key=lambda c: json.dumps(c, sort_keys=True))  # TLC's workers print in no fixed order
    cases = [normalise(c, i) for i, c in enumerate(raw)]
    del raw
    L.log(f"[c18] TLC as designed: {r['states']} generated, {r['distinct']} distinct, {len(cases)} cases, "
          f"{r['wall']:.1f}s")

    # 2. non-vacuity: with the deviation switched on TLC must find the violation
    rb = L.run_tlc(MODULE, BUG_CFG, wd, workers=8, timeout=300)
    if not rb["violated"]:
        raise L.ToolError("non-vacuity: TLC did not find the violation with ImplBug_F12 = TRUE")
    bug_inv = re.search(r"Invariant (\w+) is violated", rb["out"])
    L.log(f"[c18] TLC with ImplBug_F12: {bug_inv.group(1) if bug_inv else '?'} violated (as it must be)")

    # 3. vacuity: every case class occurs
    counts = {}
    for c in cases:
        for k in classes(c):
            counts[k] = counts.get(k, 0) + 1
    missing = [k for k in REQUIRED_CLASSES if not counts.get(k)]
    if missing:
        raise L.ToolError(f"case classes never generated: {missing}")

    # 4. replay on the real code
    s = run_replayer(cases, wd, "cases", T["replay_timeout"])
    L.log(f"[c18] replayed {s['cases']} cases ({s['runs']} runs, {s['apps']} apps): "
          f"{s['mismatch_count']} mismatches, {len(s['panic_ids'])} panics")

    # 5. self-test of the binding
    bad = set(s["mismatch_ids"]) | set(s["panic_ids"])
    passing = [c for c in cases if c["id"] not in bad]
    if not passing:
        raise L.ToolError("no passing case to run the self-test on")
    st = self_test(passing, wd, rng)
    L.log(f"[c18] self-test ok: {st}")

    # 6. verdict
    n_viol = evaluate(cases, s, V, wd, f"{tier}.json")
    f12_pred = {c["id"] for c in cases if c["f12"]}

    samples = [c for c in rng.sample(cases, 3)]
    f12_cases = sorted((c for c in cases if c["f12"]), key=case_size)
    if f12_cases:
        samples.append(f12_cases[0])
    coverage = {
        "states": r["distinct"],
        "transitions": r["states"],
        "traces_validated_against_impl": s["cases"],
        "samples": samples,
        "exhaustive": True,
        "constants": T["constants"],
        "rule": "one TLC state per case = (rule set over the pool {A, B, (A,B), C, (A,D)} with absent/default/custom "
                "priority per rule) x (world of <= 2 entities over components {A,B reflected+registered, C no "
                "ReflectComponent, D not in the type registry}, marked or not) x (scene before the call: entity absent, "
                "or present with a subset of stale {A,B}); TLC checks Inv_C18 (Export = Expected, no component twice, "
                "round trip) on every case and prints it with the expected scene; every case is executed on "
                "scene::replicate_into, compared as multisets, serialised to RON and read back",
        "cases": len(cases),
        "rule_set_states": n_init,
        "implementation_runs": s["runs"],
        "apps_built": s["apps"],
        "class_counts": counts,
        "cases_where_as_found_model_duplicates": len(f12_pred),
        "mismatches": s["mismatch_count"],
        "panics": len(s["panic_ids"]),
        "mismatches_equal_f12_prediction": sorted(bad) == sorted(f12_pred),
        "non_vacuity": f"{BUG_CFG}: {bug_inv.group(1) if bug_inv else 'an invariant'} violated with ImplBug_F12 = TRUE",
        "self_test": st,
        "tlc_wall_s": round(r["wall"], 1),
    }
    L.write_evidence(PID, tier, seed, "model_checking", coverage, time.time() - t0, violations=n_viol,
                     assumptions=[
                         "the component pool (u8 newtypes A..D) stands for all component types; values are distinct per entity and component",
                         "the scene before the call holds each entity at most once and each component at most once",
                         "pre-filled components are concrete values or dynamic proxies that represent their type",
                         "order of components inside a scene entity and of entities inside the scene is not part of the property (multiset comparison)",
                         "bevy_scene's RON writer/reader is the round trip meant by the statement",
                     ])
    shutil.rmtree(wd, ignore_errors=True)  # kept only after a tool error (TLC log)
    return V.exit_code()
