"""C03 - decided by the replication-core specification (see corelib.py)."""
import corelib as C
from corelib import mc_consts

PID = "C03"


REL = dict(ents=("e1", "e2"), kinds=("spawn", "relate", "unrelate", "despawn"), comps=("A",), ticks=2, idle=1, cframes=2)


def main(tier, seed, replay):
    if replay:
        return C.replay_file(PID, replay)
    k = C.CoreCheck(PID, tier, seed)
    inv, props = ["Inv_C03"], ["Prop_Mono"]
    struct = dict(kinds=("spawn", "despawn", "mark", "unmark", "insert", "remove"), ticks=2, idle=2)
    if tier == "quick":
        k.model_check("MC_Struct", mc_consts(ops=4, **struct), inv, props)
        k.must_find("MC_Struct_F9", mc_consts(impl="ImplF9", ops=3, kinds=("spawn", "remove"), ticks=2, idle=2), inv)
        k.must_find("MC_Struct_F3", mc_consts(impl="ImplF3", ops=3, kinds=("spawn", "despawn", "remove"), ticks=2, idle=2), inv)
        tr = k.validate_profile("core", 150)
        k.validate_profile("vis_black", 80)
        k.validate_profile("vis_white", 80)
        k.model_check("MC_Rel", mc_consts(ops=3, **REL), inv, props)
        k.must_find("MC_Rel_F8", mc_consts(ops=4, impl="ImplF8", **REL), inv)
        k.must_find("MC_Rel_F17", mc_consts(ops=5, impl="ImplF17", **REL), inv)
        k.validate_profile("rel", 200)
        k.validate_profile("rel_kf", 100, known=("F17",))
        k.validate_profile("rel_vis", 100, known=("F17",))
        k.validate_profile("kf_f17", 1, known=("F17",))
        k.replay_behaviours("TLC_walks", mc_consts(kinds=("spawn", "despawn", "insert", "remove", "mark", "unmark"), ents=("e1", "e2"), clients=("c1", "c2"), ops=8, ticks=6, idle=3, cframes=8), 150, depth=80)
        k.replay_behaviours("EXH_Struct", mc_consts(ops=3, **dict(struct, idle=1, cframes=0)), 0, invariants=inv)
        k.replay_behaviours("EXH_Rel", mc_consts(ops=3, **dict(REL, cframes=0)), 0, invariants=inv, known=("F17",))
        for pol in ("white", "black"):
            k.replay_behaviours(f"EXH_Vis_{pol}", mc_consts(policy=pol, kinds=("spawn", "despawn", "setvis"), ops=4, ticks=2, idle=1, cframes=0), 0, invariants=inv)
    else:
        k.model_check("MC_Struct", mc_consts(ops=5, **struct), inv, props, timeout=3000)
        k.model_check("MC_Struct2", mc_consts(ents=("e1", "e2"), ops=4, kinds=("spawn", "despawn", "insert", "remove"), ticks=2, idle=1), inv, props, timeout=3000)
        for pol in ("black", "white"):
            k.model_check(f"MC_Vis_{pol}", mc_consts(policy=pol, kinds=("spawn", "despawn", "setvis", "insert", "remove"), ops=4, ticks=3), inv, props, timeout=3000)
        k.must_find("MC_Struct_F9", mc_consts(impl="ImplF9", ops=3, kinds=("spawn", "remove"), ticks=2, idle=2), inv)
        k.must_find("MC_Struct_F3", mc_consts(impl="ImplF3", ops=3, kinds=("spawn", "despawn", "remove"), ticks=2, idle=2), inv)
        # (F2 / F14 leave a hidden entity on the client for ever: the client stays consistent with its stale update
        # tick, so the structural defect shows at quiescence)
        k.must_find("MC_Vis_F2", mc_consts(impl="ImplF2", policy="black", kinds=("spawn", "despawn", "setvis"), idle=2), inv + ["Inv_C01"])
        k.must_find("MC_Vis_F14", mc_consts(impl="ImplF14", policy="white", kinds=("spawn", "setvis"), ops=5), inv + ["Inv_C01"])
        tr = k.validate_profile("core", 3000)
        k.validate_profile("core2", 1500)
        k.validate_profile("vis_black", 1500)
        k.validate_profile("vis_white", 1500)
        k.model_check("MC_Rel", mc_consts(ops=5, **REL), inv, props, timeout=3000)
        k.model_check("MC_Rel3", mc_consts(ops=4, **dict(REL, ents=("e1", "e2", "e3"))), inv, props, timeout=3000)
        k.must_find("MC_Rel_F8", mc_consts(ops=4, impl="ImplF8", **REL), inv)
        k.must_find("MC_Rel_F17", mc_consts(ops=5, impl="ImplF17", **REL), inv)
        k.validate_profile("rel", 2500)
        k.validate_profile("rel_split", 1000)
        k.validate_profile("rel_kf", 1500, known=("F17",))
        k.validate_profile("rel_vis", 1500, known=("F17",))
        k.validate_profile("kf_f17", 1, known=("F17",))
        k.replay_behaviours("TLC_walks", mc_consts(kinds=("spawn", "despawn", "insert", "remove", "mark", "unmark"), ents=("e1", "e2"), clients=("c1", "c2"), ops=8, ticks=6, idle=3, cframes=8), 1500, depth=80)
        k.replay_behaviours("EXH_Struct", mc_consts(ops=4, **dict(struct, idle=1, cframes=0)), 0, invariants=inv, timeout=3000)
        k.replay_behaviours("EXH_Rel", mc_consts(ops=4, **dict(REL, cframes=0)), 0, invariants=inv, known=("F17",), timeout=3000)
        k.replay_behaviours("TLC_walks3", mc_consts(kinds=("spawn", "despawn", "insert", "remove", "mutate"), ents=("e1", "e2", "e3"), clients=("c1", "c2"), ops=10, ticks=8, idle=3, cframes=10), 1000, depth=100)
    k.selftest(tr)
    return k.finish(assumptions=[
        "the structure expected at the client's update tick is the recorded per-tick snapshot of the real server world restricted to what was visible to that client",
        "placeholder entities for references to unreplicated entities are allowed; relations (ChildOf) are part of the specification: relate / unrelate / hierarchy despawn are model-checked (MC_Rel) and the rel profiles are validated with full conformance"])
