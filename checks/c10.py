"""C10 - mutations of one entity or of related entities are never split across messages; size promises.

  (i)  spec/Packing.tla: the greedy split as implemented vs. what C10 promises (Legal), exhaustively by TLC over
       all chunk-size lists from a boundary alphabet; seeded variants must fail;
  (ii) binding: harness/packtrace drives a real server with evolving relation graphs (insert / replace /
       remove relations, marker toggles) and sizes around the client's maximum; every observed tick is checked
       by TLC (spec/PackTrace.tla): observed split = the model's split, Legal, lengths as computed, entities
       of one relation group in one message;
  (iii) per-entity atomicity on the client: the C02 monitor (state of an entity = snapshot of its confirmed
       tick) on traces with partial / reordered delivery of the messages of a tick, and the acceptability of
       every observed split in the core spec (each entity in exactly one message).
"""
import json
import os
import shutil
import time

import corelib as C
import checklib as L
from corelib import mc_consts

PID = "C10"


def pack_cfg(sd, name, variant, maxlen):
    with open(os.path.join(sd, name), "w") as f:
        f.write("SPECIFICATION Spec\nCONSTANTS\n  Alphabet = {0, 1, 4, 7, 8, 9, 12, 15, 16, 17, 20, 30, 33}\n"
                f"  MaxLen = {maxlen}\n  Mtu = 20\n  Headers = {{4, 5}}\n  Variant = \"{variant}\"\n"
                "INVARIANTS Inv_Legal\nCHECK_DEADLOCK FALSE\n")
    return name


def main(tier, seed, replay):
    if replay and replay.endswith(".pack.ndjson"):
        wd = L.workdir("c10-replay")
        sd, _ = C.prepare_spec(wd)
        v = L.Verdict(PID)
        r = C.run_tlc_in(sd, "PackTrace", "PackTrace.cfg", wd, workers=1, timeout=300, xss="1g", env_extra={"TRACE": replay})
        if [x for x in C.parse_prints(r["out"]) if x[0] == "PACKBAD"]:
            v.violation(replay, "replay: the recorded split is still rejected")
        shutil.rmtree(wd, ignore_errors=True)
        return v.exit_code()
    if replay:
        return C.replay_file(PID, replay)
    k = C.CoreCheck(PID, tier, seed)
    thorough = tier != "quick"
    # (i) the packing model
    cfg = pack_cfg(k.sd, "MC_Packing_impl.cfg", "impl", 6 if thorough else 5)
    r = C.run_tlc_in(k.sd, "MC_Packing", cfg, k.wd, workers=8, timeout=1800)
    k.states += r["distinct"]
    k.transitions += r["states"]
    k.mc_runs.append({"config": "MC_Packing (Legal for every chunk-size list)", "distinct": r["distinct"],
                      "states_generated": r["states"], "violated": r["violated"], "wall_s": round(r["wall"], 1)})
    if r["violated"]:
        k.v.violation(L.save_replay(PID, "packing-counterexample.txt", r["out"][-8000:]), "TLC: the split algorithm violates Legal")
    for variant in ("never_split", "always_split"):
        cfg = pack_cfg(k.sd, f"MC_Packing_{variant}.cfg", variant, 4)
        r = C.run_tlc_in(k.sd, "MC_Packing", cfg, k.wd, workers=4, timeout=300)
        k.found_runs.append({"config": f"MC_Packing variant {variant}", "found": r["violated"]})
        if not r["violated"]:
            raise L.ToolError(f"vacuity: Packing variant {variant} satisfies Legal")
    # (ii) binding to the real server
    runs = 1500 if thorough else 150
    trace = os.path.join(k.wd, "pack.ndjson")
    out = L.run([L.harness_bin("packtrace"), str(runs), str(seed), trace], timeout=1800).stdout
    summary = json.loads(out.strip().splitlines()[-1])
    r = C.run_tlc_in(k.sd, "PackTrace", "PackTrace.cfg", k.wd, workers=1, timeout=1800, xss="1g", env_extra={"TRACE": trace})
    prints = C.parse_prints(r["out"])
    bad = [d for t, d in prints if t == "PACKBAD"]
    done = [d for t, d in prints if t == "PACKDONE"]
    if not done:
        raise L.ToolError("PackTrace did not complete")
    k.traces += summary["records"]
    k.profiles["packtrace"] = {"records": summary["records"], "ticks_split_into_several_messages": summary["split_into_several"],
                               "rejected": len(bad)}
    if summary["split_into_several"] < 10:
        raise L.ToolError("vacuity: packtrace produced almost no split ticks")
    if bad:
        lines = open(trace).read().splitlines()
        rp = os.path.join(L.REPLAYS, f"C10-seed{seed}.pack.ndjson")
        os.makedirs(L.REPLAYS, exist_ok=True)
        with open(rp, "w") as f:
            for d in bad[:20]:
                f.write(lines[d["i"]] + "\n")
        k.v.violation(rp, f"{len(bad)} observed splits rejected; first: {json.dumps(bad[0])[:400]}")
    with open(trace) as f:
        k.samples.append({"kind": "observed split of one tick", "record": json.loads(f.readline())})
    # self-test of the binding: corrupt one recorded split
    lines = open(trace).read().splitlines()
    victim = next((json.loads(x) for x in lines if len(json.loads(x)["msgs"]) >= 2), None)
    if victim:
        victim["msgs"] = [sum(victim["msgs"], [])]
        victim["lens"] = [sum(victim["lens"])]
        st = os.path.join(k.wd, "pack_selftest.ndjson")
        open(st, "w").write(json.dumps(victim) + "\n")
        r2 = C.run_tlc_in(k.sd, "PackTrace", "PackTrace.cfg", k.wd, workers=1, timeout=300, xss="1g", env_extra={"TRACE": st})
        if not [x for x in C.parse_prints(r2["out"]) if x[0] == "PACKBAD"]:
            raise L.ToolError("self-test: a merged split was not rejected by PackTrace")
    # (iii) per-entity atomicity on the client and acceptability of every observed split
    atom = ("C02", "C02mono")
    tr = k.validate_profile("core2", 1500 if thorough else 100, extra_monitors=atom, extra_fields=("enabled",))
    k.validate_profile("rates", 1000 if thorough else 80, extra_monitors=atom)
    k.validate_profile("split", 1500 if thorough else 100, extra_monitors=atom, extra_fields=("enabled",))
    # relation graphs in the core spec: the mutated entities of one graph must share a message (PartOK)
    k.validate_profile("rel_split", 1500 if thorough else 100, extra_monitors=atom, extra_fields=("enabled",))
    k.selftest(tr)
    return k.finish(assumptions=[
        "chunk sizes, header sizes and message lengths are read from the wire by the harness's decoder; the relation groups are computed by the driver from the relations it created (connected components of the relations whose source is replicated)",
        "related groups are exercised through ChildOf with sync_related_entities, by the packing driver and (with hierarchy despawns and partial delivery) by the rel_split profile of the core spec",
        "the size promises are checked for messages of the Mutations channel of one client with per-client max_size between 40 and 240 bytes"])
