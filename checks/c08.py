"""C08 - decided by the replication-core specification (see corelib.py)."""
import corelib as C
from corelib import mc_consts

PID = "C08"
# "gaining visibility delivers the whole entity and losing it removes the entity": in the visibility profiles
# convergence / structure violations and deviations of the visibility bookkeeping belong to C08 as well
VM = ("C01", "C03")
VF = ("srv.cl", "net")


def vis_machine(k):
    """spec/VisMachine.tla: the visibility bookkeeping alone, complete state space for four entity names
    (histories of any length); the as-found variants must violate the invariants."""
    import checklib as L
    for cfg, must_fail in (("VisMachine_black.cfg", False), ("VisMachine_white.cfg", False),
                           ("VisMachine_F2.cfg", True), ("VisMachine_F14.cfg", True),
                           ("VisMachine_F20.cfg", True), ("VisMachine_F20b.cfg", True)):
        r = C.run_tlc_in(k.sd, "VisMachine", cfg, k.wd, workers=4, timeout=900)
        if must_fail:
            k.found_runs.append({"config": cfg, "found": r["violated"], "states_generated": r["states"]})
            if not r["violated"]:
                raise L.ToolError(f"vacuity: {cfg} satisfies the invariants of VisMachine")
        else:
            k.states += r["distinct"]
            k.transitions += r["states"]
            k.mc_runs.append({"config": cfg, "invariants": ["Query", "HeldExact", "HeldTruth", "Shape"],
                              "complete_state_space": True, "distinct": r["distinct"],
                              "states_generated": r["states"], "violated": r["violated"], "wall_s": round(r["wall"], 1)})
            if r["violated"]:
                k.v.violation(L.save_replay(PID, f"{cfg}-tlc-counterexample.txt", r["out"][-12000:]),
                              f"TLC: the visibility bookkeeping violates its invariants in {cfg}")


def main(tier, seed, replay):
    if replay:
        return C.replay_file(PID, replay)
    k = C.CoreCheck(PID, tier, seed)
    inv = ["Inv_C08", "Inv_C03", "Inv_C01"]   # data/query, gain delivers the whole entity, loss removes it
    vis = dict(kinds=("spawn", "despawn", "setvis", "mutate"), ticks=3)
    vis_machine(k)
    if tier == "quick":
        k.model_check("MC_Vis_white", mc_consts(policy="white", ops=4, **vis), inv)
        k.model_check("MC_Vis_black", mc_consts(policy="black", ops=3, **vis), inv)
        k.must_find("MC_Vis_Leak", mc_consts(impl="ImplLeak", policy="black", ops=3, **vis), ["Inv_C08"])
        k.must_find("MC_Vis_F14", mc_consts(impl="ImplF14", policy="white", kinds=("spawn", "setvis"), ops=5), inv)
        tr = k.validate_profile("vis_black", 150, extra_monitors=VM, extra_fields=VF)
        k.validate_profile("vis_white", 150, extra_monitors=VM, extra_fields=VF)
        k.validate_profile("rel_vis", 100, extra_monitors=VM, extra_fields=VF, known=("F20", "F17"))
        k.validate_profile("kf_f20", 1, known=("F20",))
        for pol in ("black", "white"):
            k.replay_behaviours(f"TLC_walks_{pol}", mc_consts(policy=pol, kinds=("spawn", "despawn", "setvis", "mutate", "insert", "remove"), ents=("e1", "e2"), clients=("c1", "c2"), ops=8, ticks=6, idle=3, cframes=8), 100, depth=80, extra_monitors=VM, extra_fields=VF)
            k.replay_behaviours(f"EXH_Vis_{pol}", mc_consts(policy=pol, kinds=("spawn", "despawn", "setvis"), ops=4, ticks=2, idle=1, cframes=0), 0, invariants=inv, extra_monitors=VM, extra_fields=VF)
    else:
        for pol in ("black", "white"):
            k.model_check(f"MC_Vis_{pol}", mc_consts(policy=pol, ops=4, **vis), inv, timeout=3000)
            k.model_check(f"MC_Vis2_{pol}", mc_consts(policy=pol, clients=("c1", "c2"), ops=3, kinds=("spawn", "despawn", "setvis"), ticks=2), inv, timeout=3000)
            k.model_check(f"MC_VisE2_{pol}", mc_consts(policy=pol, ents=("e1", "e2"), ops=4, kinds=("spawn", "despawn", "setvis"), ticks=2), inv, timeout=3000)
        k.must_find("MC_Vis_Leak", mc_consts(impl="ImplLeak", policy="black", ops=3, **vis), ["Inv_C08"])
        k.must_find("MC_Vis_F2", mc_consts(impl="ImplF2", policy="black", kinds=("spawn", "despawn", "setvis"), idle=2), inv)
        k.must_find("MC_Vis_F14", mc_consts(impl="ImplF14", policy="white", kinds=("spawn", "setvis"), ops=5), inv)
        tr = k.validate_profile("vis_black", 3000, extra_monitors=VM, extra_fields=VF)
        k.validate_profile("vis_white", 3000, extra_monitors=VM, extra_fields=VF)
        k.validate_profile("rel_vis", 1500, extra_monitors=VM, extra_fields=VF, known=("F20", "F17"))
        k.validate_profile("kf_f20", 1, known=("F20",))
        for pol in ("black", "white"):
            k.replay_behaviours(f"TLC_walks_{pol}", mc_consts(policy=pol, kinds=("spawn", "despawn", "setvis", "mutate", "insert", "remove"), ents=("e1", "e2"), clients=("c1", "c2"), ops=8, ticks=6, idle=3, cframes=8), 1500, depth=80, extra_monitors=VM, extra_fields=VF)
            k.replay_behaviours(f"EXH_Vis_{pol}", mc_consts(policy=pol, kinds=("spawn", "despawn", "setvis", "mutate"), ops=5, ticks=2, idle=1, cframes=0), 0, invariants=inv, extra_monitors=VM, extra_fields=VF, timeout=3000)
            k.replay_behaviours(f"EXH_Vis2_{pol}", mc_consts(policy=pol, clients=("c1", "c2"), kinds=("spawn", "despawn", "setvis"), ops=4, ticks=2, idle=1, cframes=0), 0, invariants=inv, extra_monitors=VM, extra_fields=VF, timeout=3000)
    k.selftest(tr)
    return k.finish(assumptions=[
        "the visible set of a tick is recomputed by the validator from the recorded ClientVisibility state; messages are decoded by the harness's own wire decoder",
        "known finding F20 (visibility entry dropped when an entity stops being replicated but stays alive) is excluded from the clean profile: see known_findings.json"])
