"""C14 - the protocol hash separates compatible from incompatible builds.

TLC (spec/ProtocolHash.tla) enumerates every valid registration sequence up to MaxLen over 9 kinds x
types x priorities and every single-step edit of it, verifies `hash equal <=> sequences compatible`
on the transcription of what the code feeds to its hasher, explores the handshake machine over all
interleavings, and prints the pairs / behaviours with the expected results. `c14_replay` builds
two REAL apps per pair, compares their `ProtocolHash` resources, and replays the handshakes by moving
messages by hand. The binary is run twice (separate processes) and the hashes of the same sequences
are compared (determinism "in every run").
"""
import collections
import concurrent.futures
import json
import os
import random
import shutil
import time

import checklib as L

PID = "C14"
MODULE = "ProtocolHash"
MUTATIONS = {  # seeded defect -> invariants of which at least one must be reported violated
    "no_priority": {"HashProperty"},
    "no_part": {"HashProperty"},
    "no_type": {"HashProperty"},
    "no_indep": {"HashProperty"},
    "unordered": {"HashProperty"},
    "auth_always": {"AuthOnlyOnMatch", "DecidedOutcome", "NotBoth", "OutcomeMatches"},
    "no_disconnect": {"NotifiedImpliesRequested", "DecidedOutcome", "OutcomeMatches"},
}
TIERS = {
    "quick": dict(cfgs=["ProtocolHash_quick.cfg", "ProtocolHash_quick3.cfg"], tlc_timeout=80, hs_sample=600, threads=8,
                  replay_timeout=60),
    "thorough": dict(cfgs=["ProtocolHash_thorough.cfg", "ProtocolHash_wide.cfg"], tlc_timeout=900,
                     hs_sample=6000, threads=8, replay_timeout=600),
}
KINDS = ["single", "bundle", "custom", "cevent", "sevent", "ctrigger", "strigger", "ievent", "itrigger",
         "once", "periodic"]
# No oracle (the statement does not mention send rates): reported in the evidence only.
FREE = [
    ("replicate vs replicate_once", [[0, 0, 0]], [[9, 0, 0]]),
    ("replicate_once vs replicate_periodic(2)", [[9, 0, 0]], [[10, 0, 2]]),
    ("replicate_periodic(2) vs replicate_periodic(3)", [[10, 0, 2]], [[10, 0, 3]]),
]


def cfg_constants(cfg):
    res = {}
    on = False
    for line in open(os.path.join(L.SPEC, cfg)):
        s = line.strip()
        if s == "CONSTANTS":
            on = True
        elif s in ("INVARIANTS", "CHECK_DEADLOCK FALSE") or s.startswith("SPECIFICATION"):
            on = False
        elif on and "=" in s:
            k, v = [x.strip() for x in s.split("=", 1)]
            res[k] = v
    return res


def violated_invariants(out):
    return [ln.split("Invariant", 1)[1].split("is violated")[0].strip()
            for ln in out.splitlines() if ln.startswith("Error: Invariant") and "is violated" in ln]


def run_mutation(m, wd):
    d = os.path.join(wd, "mut-" + m)
    os.makedirs(d, exist_ok=True)
    r = L.run_tlc(MODULE, "ProtocolHash_mut.cfg", d, workers=2, timeout=120, xmx="2g",
                  env_extra={"C14_MUTATION": m})
    return m, r


def show(seq):
    return [KINDS[k] + f"<{t}>" + (f"@{p}" if k in (2, 10) else "") for k, t, p in seq]


def run_replayer(path, wd, tag, threads, timeout):
    hashes = os.path.join(wd, f"hashes-{tag}.txt")
    r = L.run([L.harness_bin("c14_replay"), path, "--hashes-out", hashes, "--threads", str(threads)],
              timeout=timeout)
    try:
        summary = json.loads(r.stdout.strip().splitlines()[-1])
    except (IndexError, json.JSONDecodeError):
        raise L.ToolError("c14_replay printed no summary")
    table = {}
    for ln in open(hashes):
        k, h = ln.rstrip("\n").split("\t")
        table[k] = h
    return summary, table


def write_cases(path, cases):
    with open(path, "w") as f:
        for c in cases:
            f.write(json.dumps(c) + "\n")


def self_test(cases, wd, timeout):
    """Corrupt the expectation of one pair case (hash), one pair case (handshake outcome) and one handshake
    step; the replayer must report exactly those. The cases to corrupt are chosen among cases that pass
    uncorrupted on the current tree, so that a defective tree gives a VIOLATION, not a failed self-test."""
    clone = lambda x: json.loads(json.dumps(x))
    pairs = [c for c in cases if c["t"] == "pairs" and len(c["edits"]) >= 3]
    hss = [c for c in cases if c["t"] == "hs" and not c["eq"] and len(c["steps"]) >= 5]
    if not pairs or not hss:
        raise L.ToolError("self-test: no suitable cases")
    cands = []
    for i in range(12):
        p = clone(pairs[(i * len(pairs)) // 12])
        p["edits"] = p["edits"][:3]
        for e in p["edits"]:
            e.pop("hs", None)
        if i % 2:
            p["edits"][0]["hs"] = True
        cands.append(dict(p, id=900000 + len(cands), role="outcome" if i % 2 else "hash"))
    for i in range(6):
        cands.append(dict(clone(hss[(i * len(hss)) // 6]), id=900000 + len(cands), role="step"))
    path = os.path.join(wd, "selftest-base.ndjson")
    write_cases(path, cands)
    base, _ = run_replayer(path, wd, "selftest-base", 1, timeout)
    failing = set(base.get("failed_ids", []))
    ok = [c for c in cands if c["id"] not in failing]
    pick = {role: next((c for c in ok if c["role"] == role), None) for role in ("hash", "outcome", "step")}
    if None in pick.values():
        return dict(skipped="no case passes uncorrupted on this tree", baseline_failing=len(failing))
    controls = [c for c in ok if c not in pick.values()][:2]
    p, p2, h = clone(pick["hash"]), clone(pick["outcome"]), clone(pick["step"])
    p["edits"][1]["eq"] = not p["edits"][1]["eq"]
    p2["edits"][0]["out"]["auth"] = 1 - p2["edits"][0]["out"]["auth"]
    k = max(i for i, s in enumerate(h["steps"]) if s["a"] == "sf")
    h["steps"][k]["disc"] = 1 - h["steps"][k]["disc"]
    path = os.path.join(wd, "selftest.ndjson")
    write_cases(path, [p, p2, h] + controls)
    s, _ = run_replayer(path, wd, "selftest", 1, timeout)
    got = sorted((m.get("id"), m.get("what")) for m in s["mismatches"])
    want = sorted([(p["id"], "hash equality differs from the spec"),
                   (p2["id"], "handshake outcome differs from the spec"),
                   (h["id"], "handshake step differs from the spec")])
    if s["mismatch_count"] != 3 or got != want or s["panic_count"] != 0:
        raise L.ToolError(f"self-test of the binding failed: corrupted {want}, replayer reported {got}")
    step = [m for m in s["mismatches"] if m["id"] == h["id"]][0]["step"]
    if step != k:
        raise L.ToolError(f"self-test: corrupted step {k}, replayer blamed step {step}")
    return {"corrupted": 3, "reported": 3, "controls_passing": len(controls)}


def signature_matches(sig, m):
    """known_findings signature for C14: a dict of field -> value over the mismatch record
    (fields: t, what, op, expected_equal, got_equal)."""
    if not isinstance(sig, dict) or not sig:
        return False
    return all(m.get(k) == v for k, v in sig.items())


def evaluate(summary, cases, verdict, name):
    """Turns replayer mismatches / panics into VIOLATION or KNOWN-FINDING lines."""
    open_kf = [f for f in L.load_known_findings()
               if PID in f.get("properties", []) and f.get("status") == "open"]
    bad = []
    for m in summary["mismatches"]:
        kf = next((f for f in open_kf if signature_matches(f.get("signature"), m)), None)
        if kf:
            verdict.known_finding(f"{kf['id']}: {m.get('what')}")
        else:
            bad.append(m)
    if summary["mismatch_count"] > len(summary["mismatches"]) and not bad:
        # more mismatches than were listed: they cannot be attributed, so they are not excused
        bad.append({"what": "further mismatches beyond the listed ones",
                    "count": summary["mismatch_count"] - len(summary["mismatches"])})
    bad += [dict(p, what="panic in the code under test") for p in summary["panics"]]
    if bad:
        ids = set(summary.get("failed_ids", []))
        failing = [c for c in cases if c.get("id") in ids][:50]
        path = L.save_replay(PID, name, "".join(json.dumps(c) + "\n" for c in failing))
        first = bad[0]
        verdict.violation(path, f"{len(bad)} disagreement(s) with the as-designed spec; first: {json.dumps(first)[:900]}")
    return len(bad)


def main(tier, seed, replay):
    t0 = time.time()
    T = TIERS.get(tier, TIERS["quick"])
    verdict = L.Verdict(PID)
    L.build_harness()
    wd = L.workdir("c14")

    if replay:
        cases = [json.loads(ln) for ln in open(replay) if ln.strip()]
        summary, _ = run_replayer(replay, wd, "replay", 1, T["replay_timeout"])
        L.log(f"[c14] replay of {len(cases)} case line(s): {summary['cases']} cases, "
              f"{summary['mismatch_count']} mismatches, {summary['panic_count']} panics")
        evaluate(summary, cases, verdict, "replay-again.ndjson")
        return verdict.exit_code()

    # ---- 1. TLC: as-designed instance(s), exhaustive ------------------------------------------------
    states = transitions = 0
    constants = {}
    pairs_lines, hs_lines = [], []
    tlc_wall = 0.0
    for cfg in T["cfgs"]:
        r = L.run_tlc(MODULE, cfg, wd, workers=8, timeout=T["tlc_timeout"])
        tlc_wall += r["wall"]
        if r["violated"]:
            tail = "\n".join(ln for ln in r["out"].splitlines() if not ln.startswith('<<"'))[-6000:]
            path = L.save_replay(PID, f"tlc-{cfg}.txt", tail)
            verdict.violation(path, f"TLC: {violated_invariants(r['out'])} violated on the as-designed model ({cfg})")
            continue
        states += r["distinct"]
        transitions += r["states"]
        constants[cfg] = cfg_constants(cfg)
        p, h = L.tlc_prints(r["out"], "PAIRS"), L.tlc_prints(r["out"], "HS")
        if not p or not h or any(isinstance(x, str) for x in p + h):
            raise L.ToolError(f"could not extract cases from TLC output ({cfg})")
        L.log(f"[c14] TLC {cfg}: {r['distinct']} states, {len(p)} sequences, {len(h)} handshake behaviours, {r['wall']:.1f}s")
        pairs_lines += [dict(x, cfg=cfg) for x in p]
        hs_lines += [dict(x, cfg=cfg) for x in h]
    if verdict.violations:
        L.write_evidence(PID, tier, seed, "model_checking",
                         dict(states=max(states, 1), transitions=max(transitions, 1),
                              traces_validated_against_impl=0, samples=["TLC counterexample, see replay file"],
                              exhaustive=True), time.time() - t0, violations=len(verdict.violations))
        return verdict.exit_code()

    # ---- 2. TLC: seeded defects must be caught (non-vacuity of the formulas) ------------------------
    mutation_results = {}
    with concurrent.futures.ThreadPoolExecutor(max_workers=4) as ex:
        for m, r in ex.map(lambda m: run_mutation(m, wd), MUTATIONS):
            inv = violated_invariants(r["out"])
            if not r["violated"] or not (set(inv) & MUTATIONS[m]):
                raise L.ToolError(f"non-vacuity: mutation {m} was not caught by TLC (violated: {inv})")
            mutation_results[m] = inv[0]
    L.log(f"[c14] TLC caught all {len(MUTATIONS)} seeded defects: {mutation_results}")

    # ---- 3. cases ---------------------------------------------------------------------------------------
    rng = random.Random(seed)
    cases = []
    n = 0
    all_edits = []
    for ln in pairs_lines:
        c = dict(t="pairs", id=n, s1=ln["s1"], norm=ln["norm"], cfg=ln["cfg"], edits=ln["edits"])
        n += 1
        cases.append(c)
        all_edits += c["edits"]
    # real canonical handshakes for a seeded sample of the pairs, all non-trivial equal pairs first
    respelled = [e for e in all_edits if e["eq"] and e["op"] not in ("same",)]
    rng.shuffle(respelled)
    chosen = respelled[:T["hs_sample"] // 3]
    rest = [e for e in all_edits if not (e["eq"] and e["op"] != "same")]
    chosen += rng.sample(rest, min(len(rest), T["hs_sample"] - len(chosen)))
    for e in chosen:
        e["hs"] = True
    for ln in hs_lines:
        cases.append(dict(t="hs", id=n, s1=ln["s1"], s2=ln["s2"], op=ln["op"], eq=ln["eq"], canon=ln["canon"],
                          steps=ln["steps"], cfg=ln["cfg"]))
        n += 1
    free_ids = {}
    for what, a, b in FREE:
        cases.append(dict(t="free", id=n, a=a, b=b))
        free_ids[n] = what
        n += 1

    # class counts (vacuity guard: every edit class, both answers, every handshake action)
    op_counts = collections.Counter(f"{e['op']}/{'equal' if e['eq'] else 'different'}" for e in all_edits)
    act_counts = collections.Counter(s["a"] for c in cases if c["t"] == "hs" for s in c["steps"])
    hs_counts = collections.Counter(
        f"{'canonical' if c['canon'] else 'interleaved'}/{'match' if c['eq'] else 'mismatch'}"
        for c in cases if c["t"] == "hs")
    needed = ["same/equal", "swap/different", "insert/different", "delete/different", "kind/different",
              "kind/equal", "type/different", "prio/different", "indep/different"]
    missing = [k for k in needed if not op_counts.get(k)] + \
              [a for a in ("connect", "cf", "sf", "c2s", "s2c") if not act_counts.get(a)] + \
              [k for k in ("canonical/match", "canonical/mismatch", "interleaved/match", "interleaved/mismatch")
               if not hs_counts.get(k)]
    if missing:
        raise L.ToolError(f"vacuity: case classes never generated: {missing}")

    path = os.path.join(wd, "cases.ndjson")
    write_cases(path, cases)

    # ---- 4. self-test of the binding --------------------------------------------------------------------
    st = self_test(cases, wd, T["replay_timeout"])

    # ---- 5. replay on the real code, twice (separate processes) -----------------------------------------
    s1, h1 = run_replayer(path, wd, "run1", T["threads"], T["replay_timeout"])
    s2, h2 = run_replayer(path, wd, "run2", T["threads"], T["replay_timeout"])
    L.log(f"[c14] replay: {s1['cases']} cases ({s1['pair_cases']} pairs, {s1['pair_hs_cases']} of them with a real "
          f"handshake, {s1['hs_cases']} handshake behaviours / {s1['hs_steps']} steps), {s1['apps_built']} apps, "
          f"{s1['mismatch_count']} mismatches, {s1['panic_count']} panics")
    if s1["cases"] != sum(len(c["edits"]) if c["t"] == "pairs" else 1 for c in cases):
        raise L.ToolError("replayer did not run every case")

    nbad = evaluate(s1, cases, verdict, "replay.ndjson")
    if "skipped" in st and not nbad:
        raise L.ToolError(f"self-test of the binding could not run although the replay is clean: {st}")

    # determinism: the same sequences hash to the same value in another process
    nondet = sorted(k for k in set(h1) | set(h2) if h1.get(k) != h2.get(k))
    if nondet or s2["mismatch_count"] != s1["mismatch_count"]:
        seqs = [[list(map(int, r.split("."))) for r in k.split(",") if r] for k in nondet[:20]]
        p = L.save_replay(PID, "nondeterministic.ndjson",
                          "".join(json.dumps(dict(t="free", id=i, a=s, b=s)) + "\n" for i, s in enumerate(seqs)))
        verdict.violation(p, f"hash differs between two runs for {len(nondet)} sequence(s), e.g. {nondet[:3]}; "
                             f"mismatches run1={s1['mismatch_count']} run2={s2['mismatch_count']}")
        nbad += 1

    # over ALL enumerated sequences (not only single-step neighbours): hash equal <=> norm equal
    by_hash, by_norm = collections.defaultdict(set), collections.defaultdict(set)
    for c in cases:
        if c["t"] != "pairs":
            continue
        k = ",".join(f"{a}.{b}.{p}" for a, b, p in c["s1"])
        if k not in h1:
            raise L.ToolError(f"no hash reported for sequence {k}")
        nk = json.dumps(c["norm"])
        by_hash[h1[k]].add(nk)
        by_norm[nk].add(h1[k])
    collisions = {h: sorted(v) for h, v in by_hash.items() if len(v) > 1}
    splits = {k: sorted(v) for k, v in by_norm.items() if len(v) > 1}
    if collisions or splits:
        p = L.save_replay(PID, "global.json", dict(collisions=collisions, splits=splits))
        verdict.violation(p, f"over the enumerated set: {len(collisions)} hash value(s) shared by incompatible "
                             f"sequences, {len(splits)} compatible class(es) with different hashes")
        nbad += 1

    # ---- 6. evidence ---------------------------------------------------------------------------------
    pair_samples = []
    for c in rng.sample([c for c in cases if c["t"] == "pairs" and c["s1"]], 3):
        e = rng.choice(c["edits"])
        pair_samples.append(dict(server=show(c["s1"]), client=show(e["s2"]), edit=e["op"],
                                 expected_hash_equal=e["eq"], expected_outcome=e["out"]))
    hs_sample = rng.choice([c for c in cases if c["t"] == "hs" and not c["canon"] and not c["eq"]])
    coverage = dict(
        states=states, transitions=transitions,
        traces_validated_against_impl=s1["cases"],
        exhaustive=True,
        constants=constants,
        rule="TLC enumerates every valid registration sequence s1 with Len <= MaxLen over 9 kinds x NTypes x Prios "
             "(one state per sequence) and every single-step edit s2 of it (same, swap adjacent, insert, delete, "
             "change kind / type / priority, toggle independence); every (s1, s2) is one case: two real apps, "
             "ProtocolHash compared with the spec's expected_equal. Handshake: every interleaving of connect, "
             "client frame, server frame, deliveries within MaxCF/MaxSF for every pair with Len(s1) <= HsLen is "
             "checked by TLC; the behaviours printed (all interleavings for Len(s1)+Len(s2) <= HsFullLen, the "
             "canonical one otherwise) are replayed step by step, and a seeded sample of all pairs runs the "
             "canonical handshake on the real apps.",
        sequences=len([c for c in cases if c["t"] == "pairs"]),
        pairs=s1["pair_cases"],
        pairs_with_real_handshake=s1["pair_hs_cases"],
        handshake_behaviours=s1["hs_cases"],
        handshake_steps_compared=s1["hs_steps"],
        apps_built=s1["apps_built"],
        distinct_sequences_hashed=s1["distinct_sequences"],
        edit_class_counts=dict(sorted(op_counts.items())),
        handshake_class_counts=dict(sorted(hs_counts.items())),
        handshake_action_counts=dict(sorted(act_counts.items())),
        mutations_caught_by_tlc=mutation_results,
        binding_self_test=st,
        determinism=dict(processes=2, sequences_compared=len(h1), differing=len(nondet)),
        global_injectivity=dict(sequences=len(h1), distinct_hashes=len(by_hash), distinct_norms=len(by_norm),
                                collisions=len(collisions), splits=len(splits)),
        other_traffic_during_handshake=s1["other_traffic"],
        no_oracle_observations=[dict(what=free_ids[f["id"]], hashes_equal=f["equal"]) for f in s1["free"]],
        mismatches=s1["mismatch_count"], panics=s1["panic_count"],
        samples=pair_samples + [dict(server=show(hs_sample["s1"]), client=show(hs_sample["s2"]),
                                     schedule_with_expected_observables=hs_sample["steps"])],
        tlc_wall_s=round(tlc_wall, 1),
    )
    assumptions = [
        "The spec abstracts the 64-bit FNV hash as an injective function of the byte stream fed to it; "
        "collision-freeness is observed on the enumerated set (all pairs and globally over all enumerated "
        "sequences), not proved.",
        "single (replicate::<C>) and custom priority 1 (replicate_with_priority(1, RuleFns::<C>)) are the same "
        "registration (replicate IS replicate_with_priority(DEFAULT_PRIORITY)), so the oracle expects equal hashes.",
        "Sequences are valid: an independence mark follows the registration of its server event/trigger "
        "(the code panics otherwise). Send rate, channel, serialization functions and custom hasher data are "
        "outside the statement and not varied (send-rate observations are reported without a verdict).",
        "Type pool: 3 component and 3 event types of the replayer; type names are whatever any::type_name "
        "returns in this build. 'Every run' = two processes of the same binary on this machine.",
        "Handshake: no message loss, one client, ServerPlugin tick policy EveryFrame (for determinism); the "
        "transport's reaction to DisconnectRequest is outside replicon and not modelled.",
    ]
    L.write_evidence(PID, tier, seed, "model_checking", coverage, time.time() - t0,
                     violations=len(verdict.violations), assumptions=assumptions)
    if not verdict.violations:
        shutil.rmtree(wd, ignore_errors=True)
    return verdict.exit_code()
