"""C01 - every client converges to the server state under any legal network schedule."""
import corelib as C
from corelib import mc_consts


REL = dict(ents=("e1", "e2"), kinds=("spawn", "relate", "unrelate", "despawn"), comps=("A",), ticks=2, idle=1, cframes=2)


def main(tier, seed, replay):
    if replay:
        return C.replay_file("C01", replay)
    k = C.CoreCheck("C01", tier, seed)
    inv = ["Inv_C01"]
    if tier == "quick":
        k.model_check("MC_Mut", mc_consts(), inv)
        k.must_find("MC_Mut_F1", mc_consts(impl="ImplF1"), inv)
        k.must_find("MC_Mut_F9", mc_consts(impl="ImplF9"), inv)
        tr = k.validate_profile("core", 150)
        k.validate_profile("rates", 100)
        k.validate_profile("split", 60)
        k.validate_profile("every", 60)      # TickPolicy::EveryFrame: the plugin's own increment_tick drives the tick
        k.validate_profile("vis_black", 60)
        k.validate_profile("vis_white", 60)
        k.model_check("MC_Rel", mc_consts(ops=3, **REL), inv)
        k.must_find("MC_Rel_F17", mc_consts(ops=5, impl="ImplF17", **REL), inv)
        k.validate_profile("rel", 120)
        k.validate_profile("rel_kf", 100, known=("F17",))
        k.validate_profile("rel_vis", 100, known=("F17",))
        k.validate_profile("kf_f17", 1, known=("F17",))
        k.replay_behaviours("TLC_walks", mc_consts(kinds=("spawn", "despawn", "insert", "remove", "mutate", "mark", "unmark"), ents=("e1", "e2"), clients=("c1", "c2"), ops=8, ticks=6, idle=3, cframes=8), 150, depth=80)
        # small scope, exhaustively, on the real apps: every settled state of the instance, shortest behaviour each
        k.replay_behaviours("EXH_Mut", mc_consts(kinds=("spawn", "insert", "mutate", "remove"), ops=3, ticks=2, idle=1, cframes=0), 0, invariants=inv)
        k.replay_behaviours("EXH_Vis_white", mc_consts(policy="white", kinds=("spawn", "despawn", "setvis"), ops=4, ticks=2, idle=1, cframes=0), 0, invariants=inv)
        k.replay_behaviours("TLC_walks_rel", mc_consts(comps=("A",), kinds=("spawn", "despawn", "relate", "unrelate", "mutate"), ents=("e1", "e2"), clients=("c1", "c2"), ops=8, ticks=6, idle=3, cframes=8), 100, depth=80, known=("F17",))
    else:
        k.model_check("MC_Mut", mc_consts(ops=4, ticks=3, idle=2, cframes=3), inv, timeout=3000)
        k.model_check("MC_Mut2", mc_consts(ents=("e1", "e2"), ops=3, ticks=3, kinds=("spawn", "mutate", "insert")), inv, timeout=3000)
        k.model_check("MC_Struct", mc_consts(kinds=("spawn", "despawn", "mark", "unmark", "insert", "remove"), ops=4, ticks=2, idle=2), inv, timeout=3000)
        k.model_check("MC_Rate", mc_consts(comps=("A", "P"), kinds=("spawn", "mutate", "remove"), ops=4), inv, timeout=3000)
        for pol in ("black", "white"):
            k.model_check(f"MC_Vis_{pol}", mc_consts(policy=pol, kinds=("spawn", "despawn", "setvis", "mutate"), ops=4, ticks=3), inv, timeout=3000)
        for f in ("F1", "F9"):
            k.must_find(f"MC_Mut_{f}", mc_consts(impl=f"Impl{f}"), inv)
        # (a discarded-but-acknowledged message loses data only with rate-gated components)
        k.must_find("MC_Rate_F19", mc_consts(impl="ImplF19", comps=("A", "P"), kinds=("spawn", "mutate"), ops=4), inv)
        k.must_find("MC_Struct_F3", mc_consts(impl="ImplF3", kinds=("spawn", "despawn", "remove"), idle=2), inv)
        k.must_find("MC_Rate_F4", mc_consts(impl="ImplF4", comps=("A", "P"), kinds=("spawn", "mutate"), ops=4), inv)
        k.must_find("MC_Rate_F18", mc_consts(impl="ImplF18", comps=("A", "P"), kinds=("spawn", "mutate", "remove"), ops=4), inv)
        k.must_find("MC_Vis_F2", mc_consts(impl="ImplF2", policy="black", kinds=("spawn", "despawn", "setvis"), idle=2), inv)
        k.must_find("MC_Vis_F14", mc_consts(impl="ImplF14", policy="white", kinds=("spawn", "setvis"), ops=5), inv)
        tr = k.validate_profile("core", 3000)
        k.validate_profile("rates", 2000)
        k.validate_profile("split", 1500)
        k.validate_profile("timeout", 1000)
        k.validate_profile("every", 1000)
        k.validate_profile("vis_black", 1500)
        k.validate_profile("vis_white", 1500)
        k.model_check("MC_Rel", mc_consts(ops=5, **REL), inv, timeout=3000)
        k.model_check("MC_Rel3", mc_consts(ops=4, **dict(REL, ents=("e1", "e2", "e3"))), inv, timeout=3000)
        k.must_find("MC_Rel_F17", mc_consts(ops=5, impl="ImplF17", **REL), inv)
        k.validate_profile("rel", 2500)
        k.validate_profile("rel_split", 1000)
        k.validate_profile("rel_kf", 1500, known=("F17",))
        k.validate_profile("rel_vis", 1500, known=("F17",))
        k.validate_profile("kf_f17", 1, known=("F17",))
        k.replay_behaviours("TLC_walks_rel", mc_consts(ents=("e1", "e2", "e3"), clients=("c1", "c2"), comps=("A",), kinds=("spawn", "despawn", "relate", "unrelate", "mutate", "insert"), ops=8, ticks=6, idle=3, cframes=8), 300, depth=80, known=("F17",))
        k.replay_behaviours("EXH_Mut", mc_consts(kinds=("spawn", "insert", "mutate", "remove"), ops=4, ticks=2, idle=1, cframes=0), 0, invariants=inv, timeout=3000)
        k.replay_behaviours("EXH_Mut_c1", mc_consts(kinds=("spawn", "insert", "mutate", "remove"), ops=3, ticks=2, idle=1, cframes=1), 0, invariants=inv, timeout=3000)
        k.replay_behaviours("EXH_Rel", mc_consts(ops=4, **dict(REL, cframes=0)), 0, invariants=inv, timeout=3000)
        k.replay_behaviours("TLC_walks", mc_consts(ents=("e1", "e2"), clients=("c1", "c2"), kinds=("spawn", "despawn", "insert", "remove", "mutate", "mark", "unmark"), ops=8, ticks=6, idle=3, cframes=8), 400, depth=80)
    k.selftest(tr)
    return k.finish(assumptions=[
        "channels behave as their contracts say (reliable ordered / unreliable: loss, reorder, delay; no duplication, no corruption)",
        "exhaustive only within the constants of each model-checking run; larger instances are sampled by the random drivers",
        "world operations happen between frames (the harness is the only game logic)"])
