"""C11 - decided by the replication-core specification (see corelib.py)."""
import corelib as C
from corelib import mc_consts

PID = "C11"


def main(tier, seed, replay):
    if replay:
        return C.replay_file(PID, replay)
    k = C.CoreCheck(PID, tier, seed)
    inv = ["Inv_C11", "Inv_C01"]    # silent at rest; lost / late / unknown acks never cause data to be skipped
    if tier == "quick":
        k.model_check("MC_Mut", mc_consts(), inv)
        k.model_check("MC_Timeout", mc_consts(kinds=("spawn", "mutate", "timeout"), ops=2, ticks=3, idle=1, cframes=2), inv)
        k.must_find("MC_F11", mc_consts(impl="ImplF11", graphs=1, ops=1, ticks=1), ["Inv_C11"])
        tr = k.validate_profile("core", 150)
        k.validate_profile("core2", 60)
        k.validate_profile("rates", 100)
        k.validate_profile("split", 80)
        k.validate_profile("timeout", 80)
        k.validate_profile("every", 60)
        k.validate_profile("rel", 80)
        k.replay_behaviours("EXH_Mut_c1", mc_consts(kinds=("spawn", "insert", "mutate", "remove"), ops=2, ticks=2, idle=1, cframes=1), 0, invariants=inv)
        # an idle server is silent under a visibility policy too (repeated set_visibility calls must not re-send)
        k.replay_behaviours("EXH_Vis_white", mc_consts(policy="white", kinds=("spawn", "despawn", "setvis"), ops=4, ticks=2, idle=1, cframes=0), 0, invariants=inv)
    else:
        k.model_check("MC_Mut", mc_consts(ops=4, ticks=3, idle=2), inv, timeout=3000)
        k.model_check("MC_Mut2", mc_consts(ents=("e1", "e2"), ops=3, ticks=3, kinds=("spawn", "mutate", "insert")), inv, timeout=3000)
        k.model_check("MC_Timeout", mc_consts(kinds=("spawn", "mutate", "timeout"), ops=4, ticks=3, idle=2), inv, timeout=3000)
        k.model_check("MC_Track", mc_consts(track=True, ops=3), ["Inv_C01"], timeout=3000)
        k.must_find("MC_F11", mc_consts(impl="ImplF11", graphs=1, ops=1, ticks=1), ["Inv_C11"])
        tr = k.validate_profile("core", 3000)
        k.validate_profile("core2", 1500)
        k.validate_profile("rates", 2000)
        k.validate_profile("split", 1500)
        k.validate_profile("timeout", 1500)
        k.validate_profile("every", 1000)
        k.validate_profile("rel", 1500)
        k.validate_profile("rel_split", 1000)
        k.validate_profile("rel_vis", 1000, known=("F17",))
        k.validate_profile("vis_white", 1000)
        k.validate_profile("vis_black", 1000)
        for pol in ("white", "black"):
            k.replay_behaviours(f"EXH_Vis_{pol}", mc_consts(policy=pol, kinds=("spawn", "despawn", "setvis"), ops=4, ticks=2, idle=1, cframes=0), 0, invariants=inv)
        k.replay_behaviours("EXH_Mut_c1", mc_consts(kinds=("spawn", "insert", "mutate", "remove"), ops=3, ticks=2, idle=1, cframes=1), 0, invariants=inv, timeout=3000)
        k.replay_behaviours("EXH_Timeout", mc_consts(kinds=("spawn", "mutate", "timeout"), ops=3, ticks=3, idle=1, cframes=1), 0, invariants=inv, timeout=3000)
    k.selftest(tr)
    return k.finish(assumptions=[
        "'at rest' = after the settle rounds of the driver (perfect link, every acknowledgement delivered) one more tick is run and must send nothing",
        "mutate index wrap-around with more than 65535 messages in flight is outside the bounds"])
