"""C15 - Entity wire encoding is lossless and decoding is total.

spec/EntityCodec.tla (bit/byte-level grammar + the transcribed postcard / entity_serde mechanism) is
checked by TLC over three case families (round trips of boundary identifiers inside prefix/suffix
contexts; structured field/shape mutations; all strings over a boundary alphabet up to a small length),
TLC prints every case with what the property demands (`must`) and what the mechanism does (`model`),
and harness/src/bin/c15_replay.rs executes each case on the real serialize_entity / deserialize_entity.
The replayer additionally sweeps all byte strings of length <= 2 and a seeded random / mutated sample
(totality and round trip need no per-case expectation there).
"""
import collections
import json
import os
import re
import shutil
import time

import checklib as L

PID = "C15"
MODULE = "EntityCodec"
BIN = "c15_replay"

# known_findings.json signature of F16: a panic on a generation field that the spec classifies as out
# of range (model.why == "generation"), or - for sweep/random inputs that carry no spec verdict - one of
# the two panic sites of that defect.
F16_SIGNATURE = "panic-on-generation-field>=2^31-1"
F16_PANICS = ("Attempted to initialize invalid bits as an entity", "attempt to add with overflow")

TIERS = {
    "quick": dict(cfgs=["EntityCodec_quick.cfg", "EntityCodec_deep.cfg"], random=60_000, tlc_timeout=80,
                  coverage=False),
    "thorough": dict(cfgs=["EntityCodec_thorough.cfg", "EntityCodec_deep.cfg"], random=6_000_000,
                     tlc_timeout=900, coverage=True),
}


def run_replayer(wd, cases, name, extra=()):
    """cases: a list of case dicts, or the path of an ndjson file already written."""
    if isinstance(cases, str):
        path = cases
    else:
        path = os.path.join(wd, name + ".ndjson")
        with open(path, "w") as f:
            for c in cases:
                f.write(json.dumps(c, separators=(",", ":")) + "\n")
    r = L.run([L.harness_bin(BIN), "--cases", path] + list(extra), timeout=600)
    lines = [l for l in r.stdout.splitlines() if l.startswith("{")]
    if not lines:
        raise L.ToolError("replayer printed no summary")
    return json.loads(lines[-1])


def is_f16(case, mismatch):
    """Signature predicate of F16 over a failing case."""
    obs = (mismatch or {}).get("observed", {})
    if obs.get("st") != "panic":
        return False
    model = case.get("model") or {}
    if model.get("st"):
        return model.get("st") == "err" and model.get("why") == "generation"
    return any(p in obs.get("msg", "") for p in F16_PANICS)


def self_test(wd, clean, victim):
    """Corrupt the expected value of one case: the replayer must flag exactly that case."""
    if victim is None or len(clean) < 2:
        raise L.ToolError("self-test: no suitable cases")
    bad = json.loads(json.dumps(victim))
    bad["must"]["n"] -= 1
    bad2 = json.loads(json.dumps(clean[0]))
    bad2["must"]["idx"][0] ^= 1
    batch = clean[1:] + [bad, bad2]
    s = run_replayer(wd, batch, "selftest")
    want = sorted([bad["id"], bad2["id"]])
    got = sorted(s["mismatch_ids"])
    if got != want:
        raise L.ToolError(f"self-test of the binding failed: corrupted cases {want}, replayer flagged {got}")
    return {"corrupted": want, "flagged": got}


def case_from_id(mid):
    """Sweep / random failures carry their input in the id; rebuild a replayable case from it."""
    blank = {"id": mid, "pos": 1, "pre": [], "suf": [], "enc": [], "ent": {"idx": [], "gen": []},
             "must": {"st": "free"}, "model": {}}
    if isinstance(mid, str) and mid.startswith("random-rt:"):
        _, idx, gen = mid.split(":")
        return dict(blank, fam="rt", bytes=[], ent={"idx": list(int(idx, 16).to_bytes(4, "little")),
                                                    "gen": list(int(gen, 16).to_bytes(4, "little"))})
    if isinstance(mid, str) and ":" in mid:
        return dict(blank, fam="raw", bytes=list(bytes.fromhex(mid.split(":", 1)[1])))
    return {"id": mid}


def evaluate(verdict, cases_by_id, summary, extra_cases, tag, replay_path=None):
    """Turns replayer mismatches into VIOLATION / KNOWN-FINDING lines. Returns number of violations."""
    if not summary["mismatch_ids"]:
        return 0
    open_findings = [f for f in L.load_known_findings()
                     if PID in f.get("properties", []) and f.get("status") == "open"]
    f16_open = [f for f in open_findings if f.get("signature") == F16_SIGNATURE]
    shown = {json.dumps(m["id"]): m for m in summary["mismatches"]}
    panic_ids = {json.dumps(i) for i in summary["panic_ids"]}
    failing, known = [], 0
    for mid in summary["mismatch_ids"]:
        key = json.dumps(mid)
        case = cases_by_id.get(key) or extra_cases.get(key) or case_from_id(mid)
        m = shown.get(key)
        if m is None and key in panic_ids:
            m = {"observed": {"st": "panic", "msg": ""}}     # beyond the 20 detailed ones: spec verdict decides
        if f16_open and is_f16(case, m):
            known += 1
            continue
        failing.append(dict(case, _mismatch=m))
    if known:
        verdict.known_finding(f"{f16_open[0].get('id', 'F16')}: deserialize_entity panics on a generation field "
                              f">= 2^31-1 ({known} cases)")
    if failing:
        failing.sort(key=lambda c: (not isinstance(c["id"], int), len(c.get("bytes", []))))   # spec cases, shortest first
        path = replay_path or L.save_replay(PID, f"{tag}.json", failing[:200])
        first = next((c["_mismatch"] for c in failing if (c.get("_mismatch") or {}).get("kind")), {})
        verdict.violation(path, f"{len(failing)} failing cases; first: {json.dumps(first)[:600]}")
    return len(failing)


def main(tier, seed, replay):
    t0 = time.time()
    cfg = TIERS.get(tier)
    if cfg is None:
        raise L.ToolError(f"unknown tier {tier}")
    verdict = L.Verdict(PID)
    L.build_harness()
    wd = L.workdir("c15")
    rc = run(tier, seed, replay, cfg, verdict, wd, t0)      # on ToolError the workdir (TLC logs) is kept
    shutil.rmtree(wd, ignore_errors=True)
    return rc


CASE_RE = re.compile(r'^<<"CASE", "(.*)">>$')


def run(tier, seed, replay, cfg, verdict, wd, t0):
    if replay:
        cases = json.load(open(replay))
        for i, c in enumerate(cases):
            c.pop("_mismatch", None)
            c.setdefault("id", f"replay{i}")
        s = run_replayer(wd, cases, "replay")
        by_id = {json.dumps(c["id"]): c for c in cases}
        evaluate(verdict, by_id, s, {}, "replay", replay_path=replay)
        L.log(f"[c15] replayed {s['cases']} cases, {s['mismatch_count']} mismatches")
        return verdict.exit_code()

    # (ii) non-vacuity: the mechanism as found on the pinned tree must violate Total, with the shortest
    # counterexample TLC can reach over the deep alphabet.
    rb = L.run_tlc(MODULE, "EntityCodec_bug.cfg", wd, timeout=cfg["tlc_timeout"])
    if not (rb["violated"] and "Invariant Total is violated" in rb["out"]):
        raise L.ToolError("non-vacuity: TLC did not find the F16 violation with ImplBug_F16 = TRUE")
    found = re.findall(r"b \|-> <<([0-9, ]*)>>", rb["out"])
    cex = " ".join(f"{int(x):02x}" for x in found[-1].split(",")) if found and found[-1].strip() else "see TLC"

    # (i) + (iii): as-designed model, exhaustive over the configured families; every state is exported
    # as a case (streamed into one ndjson file; ids are line numbers)
    ndjson = os.path.join(wd, "cases.ndjson")
    n_cases, states, distinct, tlc_runs = 0, 0, 0, []
    cnt = collections.Counter()
    distinct_inputs = set()
    clean, victim = [], None
    wanted = [
        lambda c: c["fam"] == "rt" and len(c["pre"]) > 0 and len(c["suf"]) > 0 and len(c["enc"]) >= 7,
        lambda c: c["fam"] == "fields" and c["model"]["why"] == "generation",
        lambda c: c["fam"] == "fields" and c["cls"][2] == "pad" and c["model"]["st"] == "ok",
        lambda c: c["fam"] == "bytes" and len(c["bytes"]) == 3 and c["must"]["st"] == "exact",
        lambda c: c["bytes"] == [1, 255, 255, 255, 255, 7],
    ]
    samples = [None] * len(wanted)
    with open(ndjson, "w") as f:
        for cf in cfg["cfgs"]:
            r = L.run_tlc(MODULE, cf, wd, timeout=cfg["tlc_timeout"], coverage=cfg["coverage"])
            if r["violated"]:
                path = L.save_replay(PID, f"tlc-{cf}.txt", r["out"][-20000:])
                verdict.violation(path, f"TLC: the as-designed model violates C15 under {cf}")
                L.write_evidence(PID, tier, seed, "model_checking",
                                 {"states": max(r["distinct"], 1), "transitions": max(r["states"], 1),
                                  "traces_validated_against_impl": 0, "samples": [r["out"][-1500:]],
                                  "exhaustive": False}, time.time() - t0, violations=1)
                return verdict.exit_code()
            got = 0
            for line in r["out"].splitlines():
                m = CASE_RE.match(line.strip())
                if not m:
                    continue
                c = json.loads(m.group(1).encode().decode("unicode_escape"))
                c["id"] = n_cases
                c["cfg"] = cf
                n_cases += 1
                got += 1
                cnt["fam:" + c["fam"]] += 1
                cnt["must:" + c["must"]["st"]] += 1
                cnt["model:" + c["model"]["st"] + (":" + c["model"]["why"] if c["model"]["why"] else "")] += 1
                if c["fam"] == "fields":
                    cnt["shape:" + c["cls"][2] + "/" + c["cls"][3]] += 1
                distinct_inputs.add((bytes(c["bytes"]), c["pos"]))
                if len(clean) < 40 and c["must"]["st"] == "exact" and c["fam"] in ("fields", "bytes"):
                    clean.append(c)
                if victim is None and c["fam"] == "rt" and c["must"]["n"] >= 2:
                    victim = c
                for k, w in enumerate(wanted):
                    if samples[k] is None and w(c):
                        samples[k] = c
                f.write(json.dumps(c, separators=(",", ":")) + "\n")
            if got != r["distinct"]:
                raise L.ToolError(f"{cf}: {got} CASE lines for {r['distinct']} distinct states")
            states += r["states"]
            distinct += r["distinct"]
            run_info = {"cfg": cf, "states_generated": r["states"], "distinct": r["distinct"],
                        "wall_s": round(r["wall"], 1)}
            if cfg["coverage"]:
                # TLC -coverage: every top-level action / init disjunct with its number of evaluations
                cov = re.findall(r"^<(\w+) line (\d+), col \d+ to line \d+, col \d+ of module EntityCodec>: (\d+):(\d+)",
                                 r["out"], re.M)
                run_info["tlc_coverage"] = [f"{a}@{ln}: {x} distinct / {y} generated" for a, ln, x, y in cov]
            tlc_runs.append(run_info)
            L.log(f"[c15] TLC {cf}: {r['distinct']} states / cases in {r['wall']:.1f}s")
            del r

    # class coverage as counted on the exported cases (vacuity)
    need = ["fam:rt", "fam:fields", "fam:bytes", "must:exact", "must:free", "model:ok", "model:err:end",
            "model:err:badvarint", "model:err:generation"]
    missing = [k for k in need if cnt[k] == 0]
    if missing or cnt["model:panic"]:
        raise L.ToolError(f"case export is vacuous or inconsistent: missing {missing}, panics {cnt['model:panic']}")

    st = self_test(wd, clean, victim)

    rnd_seed = (int(seed) * 1_000_003 + 15) & 0x7FFFFFFFFFFFFFFF
    s = run_replayer(wd, ndjson, "cases", ["--sweep2", "--random", str(cfg["random"]), "--seed", str(rnd_seed)])
    if s["cases"] != n_cases:
        raise L.ToolError(f"replayer ran {s['cases']} of {n_cases} cases")
    if s["sweep2"]["strings"] != 1 + 256 + 65536:
        raise L.ToolError("two-byte sweep incomplete")
    encoder_ok = not s["encoder_divergences"]
    if not encoder_ok:
        # The spec's Serialize does not describe the real encoder on some identifier, so "lossless" verdicts
        # (which rest on the spec's idea of "the encoding of e") are not demanded by the property any more;
        # totality / cursor / round-trip verdicts use only the real encoder and decoder and stay.
        keep = [(i, k) for i, k in zip(s["mismatch_ids"], s["mismatch_cats"]) if k != "l"]
        s["mismatch_ids"] = [i for i, _ in keep]
        L.log("[c15] WARNING: spec encoder differs from serialize_entity (spec stale?); verdict from totality and "
              f"round trips through the real encoder only: {json.dumps(s['encoder_divergences'][:2])}")

    by_id = {}
    if s["mismatch_ids"]:
        want = {i for i in s["mismatch_ids"] if isinstance(i, int)}
        with open(ndjson) as f:
            for k, line in enumerate(f):
                if k in want:
                    by_id[json.dumps(k)] = json.loads(line)
    extra = {json.dumps(c["id"]): c for c in s["failing_inputs"]}
    nviol = evaluate(verdict, by_id, s, extra, tier)
    if s["divergence_count"]:
        L.log(f"[c15] note: {s['divergence_count']} cases where the code differs from the transcribed mechanism "
              f"(within what the property permits unless listed as mismatch); first: "
              f"{json.dumps(s['divergences'][:1])[:500]}")

    coverage = {
        "states": distinct,
        "transitions": states,
        "traces_validated_against_impl": s["cases"],
        "samples": [c for c in samples if c],
        "exhaustive": True,
        "constants": {"cfgs": cfg["cfgs"], "non_vacuity_cfg": "EntityCodec_bug.cfg (ImplBug_F16 = TRUE)"},
        "tlc_runs": tlc_runs,
        "non_vacuity": {"cfg": "EntityCodec_bug.cfg", "violated": "Total", "states": rb["states"],
                        "counterexample": cex},
        "class_counts": dict(sorted(cnt.items())),
        "distinct_inputs": len(distinct_inputs),
        "replayer": {k: s[k] for k in ("by_family", "by_outcome", "sweep2", "random", "divergence_count",
                                       "mismatch_count")},
        "binding_self_test": st,
        "spec_encoder_matches_code": encoder_ok,
        "rule": "one TLC state = one case: (rt) index class x generation class x prefix x suffix, "
                "(fields) raw flagged-index class x shape x raw generation-field class x shape x suffix, "
                "(bytes) every string over the alphabet up to MaxLen, plus every string over {01,07,ff} up to 6 bytes; "
                "each replayed on the real code against must (reference grammar) and model (transcribed mechanism); "
                "sweep2 / random are totality + round-trip runs without a per-case spec verdict",
    }
    L.write_evidence(PID, tier, seed, "model_checking", coverage, time.time() - t0, violations=nviol,
                     assumptions=["postcard 1.1.3 varint rules as transcribed in EntityCodec.tla (DecLoop/EncLoop)",
                                  "Bevy 0.16 identifier validity: generation in 1..=0x7FFF_FFFF, any u32 index",
                                  "harness built with overflow checks (dev profile)"])
    L.log(f"[c15] {s['cases']} spec cases + {s['sweep2']['strings']} sweep + "
          f"{cfg['random']} random replayed; mismatches={s['mismatch_count']} divergences={s['divergence_count']}")
    return verdict.exit_code()
