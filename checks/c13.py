"""C13 - singleplayer and listen-server logic sees each local event exactly once.

TLC (spec/LocalEvents.tla) explores ONE app in its four configurations (singleplayer, listen server,
dedicated-server build, client) with configuration changes between frames, Bevy's double-buffered event
storage modelled explicitly (two buffers, cursors, the swap enabled by a per-frame boolean), the per-frame
system order of the crate, and every event kind / send mode. It

  1. verifies the C13 formulas (ExactlyOnce, NoNetWithoutConnection, NoPanic) exhaustively on the as-designed
     model,
  2. must FIND a violation with each as-found switch on (ImplBug_F13, ImplBug_Direct): non-vacuity,
  3. exports behaviours with what every frame must show: exhaustively for a small instance (history kept in
     the state, one CASE per complete behaviour) and by seeded simulation for the large instance.

`c13_replay` executes every exported behaviour on a REAL app (emit, set_status / set_running, peer connect,
`App::update()` with the chosen virtual time step) and compares, after every frame, what reader systems and
observers inside the app saw and what `drain_sent` returned with the spec's expectation.
"""
import collections
import concurrent.futures
import hashlib
import json
import os
import random
import shutil
import time

import checklib as L

PID = "C13"
MODULE = "LocalEvents"
TIERS = {
    "quick": dict(verify=["LocalEvents_quick.cfg"], gen=["LocalEvents_gen_quick.cfg"], sim_n=4000,
                  tlc_timeout=80, replay_timeout=80, threads=8, check_sample=1500),
    "thorough": dict(verify=["LocalEvents_thorough.cfg", "LocalEvents_thorough_ops.cfg"],
                     gen=["LocalEvents_gen_a.cfg", "LocalEvents_gen_b.cfg", "LocalEvents_gen_c.cfg"],
                     sim_n=60000, tlc_timeout=900, replay_timeout=600, threads=8, check_sample=20000),
}
FOUND = {  # as-found switch -> invariants of which at least one must be reported violated
    "LocalEvents_found_F13.cfg": {"ExactlyOnce", "NoPanic"},
    "LocalEvents_found_F13_events.cfg": {"ExactlyOnce"},
    "LocalEvents_found_Direct.cfg": {"NoNetWithoutConnection"},
}
CLIENT_KINDS = ("cev", "ctr", "ctt", "phash")
ALL_KINDS = ("cev", "ctr", "ctt", "phash", "sev", "sevi", "str", "stt")


def cfg_constants(cfg):
    res = {}
    on = False
    for line in open(os.path.join(L.SPEC, cfg)):
        s = line.strip()
        if s == "CONSTANTS":
            on = True
        elif s == "INVARIANTS" or s.startswith("CHECK_DEADLOCK") or s.startswith("SPECIFICATION"):
            on = False
        elif on and "=" in s:
            k, v = [x.strip() for x in s.split("=", 1)]
            res[k] = v
    return res


def violated_invariants(out):
    return [ln.split("Invariant", 1)[1].split("is violated")[0].strip()
            for ln in out.splitlines() if ln.startswith("Error: Invariant") and "is violated" in ln]


def write_cases(path, cases):
    with open(path, "w") as f:
        for c in cases:
            f.write(json.dumps(c, separators=(",", ":")) + "\n")


def run_replayer(path, threads, timeout):
    r = L.run([L.harness_bin("c13_replay"), path, "--threads", str(threads)], timeout=timeout)
    try:
        return json.loads(r.stdout.strip().splitlines()[-1])
    except (IndexError, json.JSONDecodeError):
        raise L.ToolError("c13_replay printed no summary")


# ------------------------------------------------------------------------------------------------------
# What a case exercises (class counts for the evidence, signatures of the known findings)
# ------------------------------------------------------------------------------------------------------

def walk(case):
    """Yields (step, cfg) for every frame, cfg = the configuration the frame ran in."""
    running, status, peer = False, "D", False
    for s in case["steps"]:
        a = s["a"]
        if a == "status":
            status = s["s"]
        elif a == "run":
            running = s["b"]
            if not running:
                peer = False
        elif a == "peer":
            peer = s["on"]
        elif a == "frame":
            if not case["cp"]:
                cfg = "dedicated" if running else "dedicated-stopped"
            elif status == "D":
                cfg = "listen" if running else "singleplayer"
            else:
                cfg = "client-connected" if status == "Cd" else "client-connecting"
            yield s, cfg, peer


def sig_f13(case):
    """F13: a client event was sent to the remote server and the client is disconnected afterwards."""
    if case["kind"] not in CLIENT_KINDS or not case["cp"]:
        return False
    sent = False
    status = "D"
    for s in case["steps"]:
        if s["a"] == "frame":
            # phash: the hash is sent in the frame in which the client is just connected
            if status == "Cd" and (s["obs"]["c2s"] or case["kind"] == "phash" or case.get("auth") == "check"):
                sent = True
        elif s["a"] == "status":
            status = s["s"]
            if sent and status == "D":
                return True
    return False


def sig_direct(case):
    """An independent server event is emitted with Direct(other)."""
    return case["kind"] == "sevi" and any(s["a"] == "emit" and s["mode"] == "DO" for s in case["steps"])


SIGNATURES = {
    "client_event_sent_then_client_disconnected": sig_f13,
    "independent_server_event_direct_to_other": sig_direct,
}


def classes(case, c):
    c["kind=" + case["kind"]] += 1
    c["build=" + ("client-plugins" if case["cp"] else "dedicated")] += 1
    c["auth=" + case.get("auth", "check" if case["kind"] == "phash" else "none")] += 1
    ids_seen, ids_net = set(), set()
    prev_fx = False
    swaps = 0
    for s, cfg, peer in walk(case):
        c["frame-in=" + cfg] += 1
        if cfg in ("listen", "dedicated") and peer:
            c["frame-with-remote-peer"] += 1
        if prev_fx:
            swaps += 1
        prev_fx = s["fx"]
        o = s["obs"]
        if s["panic"]:
            c["expected-panic"] += 1
        ids_seen.update(o["u"], o["l"], o["t"])
        ids_net.update(o["c2s"], o["s2c"])
        if o["c2s"]:
            c["frames-sending-to-remote-server"] += 1
        if o["s2c"]:
            c["frames-sending-to-remote-peer"] += 1
        if o["u"] or o["l"] or o["t"]:
            c["frames-with-local-delivery"] += 1
    emitted = {s["id"]: s["mode"] for s in case["steps"] if s["a"] == "emit"}
    for i, m in emitted.items():
        c["mode=" + m] += 1
        if i in ids_seen and i in ids_net:
            c["event-local-and-network"] += 1  # legal for server events only
        elif i in ids_seen:
            c["event-local-only"] += 1
        elif i in ids_net:
            c["event-network-only"] += 1
        else:
            c["event-never-handled"] += 1  # expired in the buffers, discarded on connect, no recipient
    if swaps >= 2:
        c["behaviours-with-two-buffer-swaps"] += 1
    steps = [s["a"] for s in case["steps"]]
    if "status" in steps or "run" in steps:
        c["behaviours-changing-configuration"] += 1
    if sig_f13(case):
        c["f13-trigger-histories"] += 1
    if sig_direct(case):
        c["direct-to-other-independent"] += 1


NEEDED = (["kind=" + k for k in ALL_KINDS] +
          ["build=client-plugins", "build=dedicated", "auth=none", "auth=check",
           "frame-in=singleplayer", "frame-in=listen", "frame-in=dedicated", "frame-in=dedicated-stopped",
           "frame-in=client-connecting", "frame-in=client-connected", "frame-with-remote-peer",
           "frames-sending-to-remote-server", "frames-sending-to-remote-peer", "frames-with-local-delivery",
           "mode=-", "mode=B", "mode=BxS", "mode=BxO", "mode=DS", "mode=DO",
           "event-local-and-network", "event-local-only", "event-network-only", "event-never-handled",
           "behaviours-with-two-buffer-swaps", "behaviours-changing-configuration",
           "f13-trigger-histories", "direct-to-other-independent"])


# ------------------------------------------------------------------------------------------------------
# Self-test of the binding
# ------------------------------------------------------------------------------------------------------

def self_test(cases, failing, wd, timeout):
    """Corrupt the expectation of three cases that pass uncorrupted (a local delivery removed, a network
    message added, a panic demanded); the replayer must report exactly those cases, at those frames."""
    clone = lambda x: json.loads(json.dumps(x))
    ok = [c for c in cases if c["id"] not in failing]

    def frames(c):
        return [(i, s) for i, s in enumerate(c["steps"]) if s["a"] == "frame"]

    a = next((c for c in ok if any(s["obs"]["l"] or s["obs"]["t"] for _, s in frames(c))), None)
    b = next((c for c in ok if c["kind"] in ("cev", "ctr", "ctt") and c["cp"] and c is not a
              and not any(s["obs"]["c2s"] for _, s in frames(c))), None)
    p = next((c for c in ok if c is not a and c is not b and len(frames(c)) >= 2), None)
    controls = [c for c in ok if c is not a and c is not b and c is not p][:3]
    if a is None or b is None or p is None:
        return dict(skipped="no suitable case passes uncorrupted on this tree")
    a, b, p = clone(a), clone(b), clone(p)
    ia = next(i for i, s in frames(a) if s["obs"]["l"] or s["obs"]["t"])
    key = "l" if a["steps"][ia]["obs"]["l"] else "t"
    a["steps"][ia]["obs"][key] = a["steps"][ia]["obs"][key][:-1]
    ib = frames(b)[-1][0]
    b["steps"][ib]["obs"]["c2s"] = [1]
    ip = frames(p)[1][0]
    p["steps"][ip]["panic"] = True
    for k, c in enumerate((a, b, p)):
        c["id"] = 9000000 + k
    for k, c in enumerate(controls):
        controls[k] = dict(clone(c), id=9000100 + k)
    path = os.path.join(wd, "selftest.ndjson")
    write_cases(path, [a, b, p] + controls)
    s = run_replayer(path, 1, timeout)
    got = sorted((m["id"], m["step"]) for m in s["mismatches"])
    want = sorted([(a["id"], ia), (b["id"], ib), (p["id"], ip)])
    if s["mismatch_count"] != 3 or got != want or s["panic_count"] != 0:
        raise L.ToolError(f"self-test of the binding failed: corrupted {want}, replayer reported {got} "
                          f"(+{s['panic_count']} panics)")
    return dict(corrupted=3, reported=3, controls_passing=len(controls),
                kinds=["local delivery removed", "network message added", "panic demanded"])


# ------------------------------------------------------------------------------------------------------
# Verdicts
# ------------------------------------------------------------------------------------------------------

def evaluate(summary, by_id, verdict, name):
    """Every failing behaviour is either covered by an OPEN known finding of C13 (its signature - a predicate
    over the behaviour - holds) or a violation. `fixed` entries suppress nothing."""
    open_kf = [f for f in L.load_known_findings()
               if PID in f.get("properties", []) and f.get("status") == "open"]
    detail = {}
    for m in summary["mismatches"]:
        detail.setdefault(m.get("id"), m)
    for m in summary["panics"]:
        detail.setdefault(m.get("id"), dict(m, what="panic in the code under test: " + m.get("panic", "")))
    failing = list(summary.get("failed_ids", []))
    if len(failing) < len(detail) or (summary["mismatch_count"] + summary["panic_count"] > 0 and not failing):
        raise L.ToolError("replayer summary is inconsistent (failing ids missing)")
    bad, known = [], collections.Counter()
    for i in failing:
        case = by_id.get(i)
        if case is None:
            raise L.ToolError(f"replayer reported an unknown case id {i}")
        kf = next((f for f in open_kf if SIGNATURES.get(f.get("signature"), lambda c: False)(case)), None)
        if kf:
            known[kf["id"]] += 1
            if known[kf["id"]] == 1:
                what = detail.get(i, {}).get("what", "disagreement with the as-designed spec")
                verdict.known_finding(f"{kf['id']}: {what} ({case['kind']})")
        else:
            bad.append(i)
    if known:
        L.log(f"[c13] failing behaviours covered by open known findings: {dict(known)}")
    if bad:
        path = L.save_replay(PID, name, "".join(json.dumps(by_id[i]) + "\n" for i in bad[:50]))
        first = next((detail[i] for i in bad if i in detail), {"id": bad[0]})
        verdict.violation(path, f"{len(bad)} behaviour(s) disagree with the as-designed spec; first: "
                                f"{json.dumps(first)[:1200]}")
    return len(bad)


def main(tier, seed, replay):
    t0 = time.time()
    T = TIERS.get(tier, TIERS["quick"])
    verdict = L.Verdict(PID)
    L.build_harness()
    wd = L.workdir("c13")

    if replay:
        cases = [json.loads(ln) for ln in open(replay) if ln.strip()]
        summary = run_replayer(replay, 1, T["replay_timeout"])
        L.log(f"[c13] replay of {len(cases)} case(s): {summary['mismatch_count']} mismatches, "
              f"{summary['panic_count']} panics")
        evaluate(summary, {c["id"]: c for c in cases}, verdict, "replay-again.ndjson")
        return verdict.exit_code()

    # ---- 1. TLC: verification of the as-designed model, non-vacuity runs, behaviour export (in parallel) ----
    jobs = [("verify", cfg, dict(workers=6, timeout=T["tlc_timeout"])) for cfg in T["verify"]]
    jobs += [("found", cfg, dict(workers=2, timeout=T["tlc_timeout"], xmx="3g")) for cfg in FOUND]
    jobs += [("gen", cfg, dict(workers=4, timeout=T["tlc_timeout"], xmx="6g")) for cfg in T["gen"]]
    jobs.append(("sim", "LocalEvents_sim.cfg",
                 dict(workers=1, timeout=T["tlc_timeout"], xmx="3g", simulate=f"num={T['sim_n']}", depth=60,
                      seed=seed)))

    def run_job(job):
        what, cfg, kw = job
        d = os.path.join(wd, f"{what}-{cfg}")
        os.makedirs(d, exist_ok=True)
        r = L.run_tlc(MODULE, cfg, d, **kw)
        out = r.pop("out")
        r["inv"] = violated_invariants(out)
        if r["violated"]:
            r["tail"] = "\n".join(ln for ln in out.splitlines() if not ln.startswith('<<"'))[-8000:]
        elif what in ("gen", "sim"):
            r["cases"] = L.tlc_prints(out, "CASE")  # the (large) TLC output is not kept
        return what, cfg, r

    with concurrent.futures.ThreadPoolExecutor(max_workers=3 if tier == "quick" else 2) as ex:
        results = list(ex.map(run_job, jobs))

    states = transitions = 0
    constants, found_results = {}, {}
    lines = []
    tlc_wall = 0.0
    for what, cfg, r in results:
        tlc_wall += r["wall"]
        if what == "found":
            inv = r["inv"]
            if not r["violated"] or not (set(inv) & FOUND[cfg]):
                raise L.ToolError(f"non-vacuity: the as-found switch of {cfg} was not caught by TLC (violated: {inv})")
            found_results[cfg] = inv[0]
            continue
        if r["violated"]:
            path = L.save_replay(PID, f"tlc-{cfg}.txt", r["tail"])
            verdict.violation(path, f"TLC: {r['inv']} violated on the as-designed model ({cfg})")
            continue
        constants[cfg] = cfg_constants(cfg)
        if what == "verify":
            states += r["distinct"]
            transitions += r["states"]
            L.log(f"[c13] TLC {cfg}: {r['distinct']} distinct states, {r['states']} generated, {r['wall']:.1f}s")
        else:
            got = r.pop("cases")
            if not got or any(isinstance(x, str) for x in got):
                raise L.ToolError(f"could not extract behaviours from TLC output ({cfg})")
            L.log(f"[c13] TLC {cfg}: {len(got)} behaviours, {r['wall']:.1f}s")
            lines += [dict(x, src=cfg) for x in got]
    L.log(f"[c13] TLC found the seeded as-found deviations: {found_results}")
    if verdict.violations:
        L.write_evidence(PID, tier, seed, "model_checking",
                         dict(states=max(states, 1), transitions=max(transitions, 1),
                              traces_validated_against_impl=0, samples=["TLC counterexample, see replay file"],
                              exhaustive=True), time.time() - t0, violations=len(verdict.violations))
        return verdict.exit_code()

    # ---- 2. cases ---------------------------------------------------------------------------------------
    rng = random.Random(seed)
    cases, keyed = [], {}
    for ln in lines:
        key = hashlib.blake2b(json.dumps([ln["kind"], ln["cp"], ln["steps"]], sort_keys=True).encode(),
                              digest_size=16).digest()
        keyed.setdefault(key, ln)
    # TLC prints in a worker-dependent order: a canonical order keeps the seeded choices below reproducible
    for key in sorted(keyed):
        ln = keyed[key]
        cases.append(dict(id=len(cases), kind=ln["kind"], cp=ln["cp"],
                          auth="check" if ln["kind"] == "phash" else "none", steps=ln["steps"], src=ln["src"]))
    del keyed, lines
    # the client kinds also under the default ProtocolCheck (the hash trigger rides along): a seeded sample,
    # all F13 trigger histories first
    cand = [c for c in cases if c["kind"] in ("cev", "ctr", "ctt") and c["cp"]]
    trig = [c for c in cand if sig_f13(c)]
    rng.shuffle(trig)
    rest = [c for c in cand if not sig_f13(c)]
    chosen = trig[:T["check_sample"] // 2]
    chosen += rng.sample(rest, min(len(rest), T["check_sample"] - len(chosen)))
    for c in chosen:
        cases.append(dict(c, id=len(cases), auth="check"))
    by_id = {c["id"]: c for c in cases}

    counts = collections.Counter()
    for c in cases:
        classes(c, counts)
    missing = [k for k in NEEDED if not counts.get(k)]
    if missing:
        raise L.ToolError(f"vacuity: case classes never generated: {missing}")

    path = os.path.join(wd, "cases.ndjson")
    write_cases(path, cases)

    # ---- 3. replay on the real code -----------------------------------------------------------------------
    s1 = run_replayer(path, T["threads"], T["replay_timeout"])
    L.log(f"[c13] replay: {s1['cases']} behaviours, {s1['frames']} frames compared, {s1['observations']} local "
          f"deliveries, {s1['messages']} network messages, {s1['mismatch_count']} mismatches, {s1['panic_count']} panics")
    if s1["cases"] != len(cases):
        raise L.ToolError("replayer did not run every case")

    # ---- 4. self-test of the binding ---------------------------------------------------------------------
    st = self_test(cases, set(s1.get("failed_ids", [])), wd, T["replay_timeout"])

    nbad = evaluate(s1, by_id, verdict, "replay.ndjson")
    if "skipped" in st and not nbad:
        raise L.ToolError(f"self-test of the binding could not run although the replay is clean: {st}")

    # ---- 5. evidence ---------------------------------------------------------------------------------------
    def show(c):
        out = []
        for s in c["steps"]:
            if s["a"] == "emit":
                out.append(f"emit #{s['id']}" + ("" if s["mode"] == "-" else f" mode {s['mode']}"))
            elif s["a"] == "status":
                out.append(f"set_status({s['s']})")
            elif s["a"] == "run":
                out.append(f"set_running({str(s['b']).lower()})")
            elif s["a"] == "peer":
                out.append("remote peer " + ("connects" if s["on"] else "leaves"))
            else:
                o = {k: v for k, v in s["obs"].items() if v}
                out.append(f"frame(dt={'1/64s' if s['fx'] else '0'}) must show {o if o else 'nothing'}")
        return dict(kind=c["kind"], client_plugins=c["cp"], auth=c["auth"], schedule=out)

    samples = [show(c) for c in rng.sample([c for c in cases if sig_f13(c)], 2)]
    samples += [show(c) for c in rng.sample([c for c in cases if c["kind"] in ("sev", "str", "stt")
                                             and any(s["a"] == "frame" and s["obs"]["s2c"] for s in c["steps"])], 2)]
    coverage = dict(
        states=states, transitions=transitions,
        traces_validated_against_impl=s1["cases"],
        exhaustive=True,
        constants=constants,
        rule="Verification: TLC explores every behaviour of the instance in `constants` (one app; kind and build "
             "chosen initially; between frames any sequence of emissions, set_status, set_running, remote peer "
             "connect/leave within MaxEmit/MaxOps/MaxGap; every frame with or without a fixed-timestep run) and "
             "checks ExactlyOnce, NoNetWithoutConnection, NoPanic, NoHybrid, TypeOK in every state. Replay: every "
             "behaviour of the gen instance(s) (exhaustive, history in the state) plus seeded simulation runs of the "
             "sim instance; a seeded sample of the client-kind behaviours (all F13 trigger histories first) is "
             "replayed a second time on an app with the default AuthMethod::ProtocolCheck.",
        behaviours_replayed=s1["cases"],
        frames_compared=s1["frames"],
        local_deliveries_observed=s1["observations"],
        network_messages_observed=s1["messages"],
        behaviours_by_source=dict(collections.Counter(c["src"] for c in cases)),
        class_counts=dict(sorted(counts.items())),
        as_found_switches_caught_by_tlc=found_results,
        binding_self_test=st,
        mismatches=s1["mismatch_count"], panics=s1["panic_count"],
        samples=samples,
        tlc_wall_s=round(tlc_wall, 1),
    )
    assumptions = [
        "One event kind per behaviour: the kinds use disjoint Bevy resources (Events<E>, Events<FromClient<E>>, "
        "Events<ToClients<E>>, their cursors), so they cannot influence each other; the replayer registers all "
        "kinds in every app and reports any observation of a kind that was not emitted.",
        "Emissions and configuration changes happen between frames (equivalent to Last/First of a frame); the "
        "backend is the driver: set_status / set_running, ConnectedClient spawned/despawned, stopping drops the "
        "peer. The hybrid 'server running and client not Disconnected' is not a supported configuration and is "
        "never entered. Nothing is received from the network (C05 covers remote delivery).",
        "Server tick policy EveryFrame (buffered server events leave in the frame that buffered them); "
        "AuthMethod::None except for the ProtocolHash kind and the ProtocolCheck sample of the client kinds; "
        "MinimalPlugins (single-threaded executor, TimePlugin with TimeUpdateStrategy::ManualDuration of 0 or "
        "exactly 1/64 s), one warm-up frame before the behaviour starts.",
        "Reading of the statement where it leaves freedom: an event written while the client is Connecting, in "
        "the frame the connection is established (ClientSet::ResetEvents discards it) or on a dedicated-server "
        "build is only required to be handled at most once; observers of a locally re-emitted client trigger "
        "fire in PreUpdate of the next frame and are required only if the app still acts as server or "
        "singleplayer then; exact frame of delivery: reader in Last the same frame, reader in Update and "
        "observers the next frame.",
    ]
    L.write_evidence(PID, tier, seed, "model_checking", coverage, time.time() - t0,
                     violations=len(verdict.violations), assumptions=assumptions)
    if not verdict.violations:
        shutil.rmtree(wd, ignore_errors=True)
    return verdict.exit_code()
