"""C02 - decided by the replication-core specification (see corelib.py)."""
import corelib as C
from corelib import mc_consts

PID = "C02"
TITLE = "confirmed tick is truthful: entity state equals the server's at that tick"


def main(tier, seed, replay):
    if replay:
        return C.replay_file(PID, replay)
    k = C.CoreCheck(PID, tier, seed)
    inv, props = ["Inv_C02"], ["Prop_Mono"]
    if tier == "quick":
        k.model_check("MC_Mut", mc_consts(), inv, props)
        k.must_find("MC_Mut_F1", mc_consts(impl="ImplF1"), inv)
        tr = k.validate_profile("core", 150)
        k.validate_profile("core2", 60)
        k.validate_profile("rates", 100)
        k.validate_profile("split", 80)
        k.validate_profile("rel", 80)
        k.validate_profile("sess", 60)      # a confirmed tick must not come from an earlier session
        k.replay_behaviours("EXH_Rate", mc_consts(comps=("A", "P"), kinds=("spawn", "mutate", "remove"), ops=4, ticks=3, idle=0, cframes=0), 0, invariants=inv)
    else:
        k.model_check("MC_Mut", mc_consts(ops=4, ticks=3, idle=2, cframes=3), inv, props, timeout=3000)
        k.model_check("MC_Mut2", mc_consts(ents=("e1", "e2"), ops=3, ticks=3, kinds=("spawn", "mutate", "insert")), inv, props, timeout=3000)
        k.model_check("MC_Struct", mc_consts(kinds=("spawn", "despawn", "mark", "unmark", "insert", "remove"), ops=4, ticks=2, idle=2), inv, props, timeout=3000)
        k.model_check("MC_Rate", mc_consts(comps=("A", "P"), kinds=("spawn", "mutate", "remove"), ops=4), inv, props, timeout=3000)
        k.must_find("MC_Mut_F1", mc_consts(impl="ImplF1"), inv)
        tr = k.validate_profile("core", 3000)
        k.validate_profile("core2", 1500)
        k.validate_profile("rates", 2000)
        k.validate_profile("split", 1500)
        k.validate_profile("vis_black", 1000)
        k.validate_profile("rel", 1500)
        k.validate_profile("rel_split", 1000)
        k.validate_profile("sess", 1500)
        k.replay_behaviours("EXH_Rate", mc_consts(comps=("A", "P", "O"), kinds=("spawn", "mutate", "remove", "insert"), ops=4, ticks=3, idle=0, cframes=0), 0, invariants=inv, timeout=3000)
        k.replay_behaviours("EXH_Mut_c1", mc_consts(kinds=("spawn", "insert", "mutate", "remove"), ops=3, ticks=2, idle=1, cframes=1), 0, invariants=inv, timeout=3000)
    k.selftest(tr)
    return k.finish(assumptions=[
        "per-tick server snapshots are rebuilt by the validator from the recorded server states, independently of the model of the server",
        "components replicated periodically are outside the strict per-tick value check (the statement speaks of continuously replicated components)"])
