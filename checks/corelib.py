"""Shared driver for the properties decided by the replication-core specification
(spec/Core.tla, Props.tla, MC_Core.tla, CoreTrace.tla): C01, C02, C03, C08, C10, C11, (C16).

Per property the check runs
  1. TLC exhaustively on the bounded model(s) with the *designed* protocol and the property's formulas,
  2. TLC with one deviation switch on (as-found model of a repaired / open defect): it MUST find a
     counterexample - non-vacuity of model and formula,
  3. seeded random executions of the real apps (harness/simtrace), validated step by step by TLC
     against the spec (per-field conformance DIFFs) with every property monitor evaluated on every
     observed state (VIOLs),
  4. a binding self-test: one recorded field is corrupted and the validator must name it.
"""
import collections
import json
import os
import re
import shutil
import sys
import time

sys.path.insert(0, os.path.join(os.path.dirname(os.path.abspath(__file__)), "..", "bin"))
import checklib as L

# finding id -> deviation switch of Core.tla
SWITCH = {
    "F1": "ackOnReceipt", "F2": "noLostDespawnHidden", "F3": "staleRemovalOnDespawn",
    "F4": "periodicAckSwallow", "F8": "refBeforeSpawnUnmarked", "F9": "removalOverwrite",
    "F11": "emptyMutateWithGraphs", "F14": "whiteReAddForgetsLost", "F18": "periodicBumpSwallow",
    "F19": "ackDiscarded", "F21": "lateJoinerMissesEmpty", "F15": "staleBuffersOnRestart",
    "F17": "clientLinkedDespawn", "F24": "mapOrphansPlaceholder",
}
ALL_SWITCHES = ["removalOverwrite", "staleRemovalOnDespawn", "noLostDespawnHidden", "whiteReAddForgetsLost",
                "ackOnReceipt", "periodicAckSwallow", "periodicBumpSwallow", "ackDiscarded", "lateJoinerMissesEmpty", "staleBuffersOnRestart",
                "emptyMutateWithGraphs", "refBeforeSpawnUnmarked", "clientLinkedDespawn", "mapOrphansPlaceholder", "seedLeakHidden", "seedIgnoreMapping", "seedEvNoQueue", "seedEvNoExclude",
                "seedEvUnauth"]

# monitors (VIOL tags of CoreTrace) -> properties
MONITOR_PROPS = {
    "C01": ["C01"], "panic": ["C01", "C09"], "C02": ["C02"], "C02mono": ["C02"],
    "C03": ["C03"], "C03mono": ["C03"], "C08data": ["C08"], "C08query": ["C08"], "C11rest": ["C11"],
    "C11must": ["C11", "C01", "C02"],
    "C10atomic": ["C10"], "C10size": ["C10"], "C16": ["C16"], "C01parent": ["C01", "C03"],
    "C04stamp": ["C04"], "C04delivery": ["C04"],
    "C05recipients": ["C05"], "C05delivery": ["C05"], "C05complete": ["C05"], "C05server": ["C05"],
    "C05serverComplete": ["C05"], "C07unauth": ["C07"],
}

# conformance fields (DIFF kind.field) -> properties, from the properties' own anchors (DESIGN 12.2)
FIELD_PROPS = {
    "srv.cl.mutTick": ["C01", "C02", "C11"],
    "srv.cl.inflight": ["C01", "C02", "C10", "C11"],
    "srv.cl.nextIdx": ["C11"],
    "ran.SrvFrame": ["C01", "C09", "C11"],      # send_replication ran although / although not expected
    "srv.despawnBuf": ["C01", "C03"],
    "srv.removalBuf": ["C01", "C03"],
    "net.upd": ["C01", "C03", "C08"],
    "net.mut": ["C01", "C02", "C11", "C10", "C08"],
    "net.ack": ["C01", "C11"],
    "net.rxUpd": [], "net.rxMut": [], "net.srxAck": [],
    "srv.cl.vis": ["C03", "C08"],
    "srv.cl.updTick": ["C04"],
    "srv.cl.pendingMap": ["C16"],
    "srv.cl.conn": ["C09"], "srv.cl.auth": ["C07"],
    "cli.updTick": ["C03", "C04"],
    "cli.ents": ["C01", "C02", "C03", "C16"],
    "cli.buf": ["C01", "C02"],
    "cli.status": ["C09"], "cli.panicked": ["C01", "C09"],
    "srv.world": [], "srv.tick": [], "srv.frame": [], "srv.running": [], "srv.now": [],
    "ev.net.sev": ["C04", "C05", "C07"], "ev.net.cev": ["C05"], "ev.net.rxSev": [], "ev.net.srxCev": [],
    "delivered.client": ["C04", "C05"], "delivered.server": ["C05"],
    "enabled": [],
    "enabled.SrvFrame": ["C10"],
}


def prepare_spec(wd, impl_current=None):
    """Copies spec/ into the work dir and regenerates CurrentTree.tla from known_findings.json."""
    sd = os.path.join(wd, "spec")
    shutil.copytree(L.SPEC, sd, ignore=shutil.ignore_patterns("states", "*.log"))
    open_switches = set()
    for f in L.load_known_findings():
        if f.get("status") == "open" and f["id"] in SWITCH:
            open_switches.add(SWITCH[f["id"]])
    if impl_current is not None:
        open_switches = set(impl_current)
    body = ",\n      ".join(f"{s} |-> {'TRUE' if s in open_switches else 'FALSE'}" for s in ALL_SWITCHES)
    with open(os.path.join(sd, "CurrentTree.tla"), "w") as f:
        f.write("----------------------------- MODULE CurrentTree -----------------------------\n"
                "(* generated from known_findings.json: a switch is TRUE iff its finding is open *)\n"
                f"ImplCurrentTree ==\n    [ {body} ]\n"
                "=============================================================================\n")
    return sd, sorted(open_switches)


def run_tlc_in(sd, module, cfgname, wd, **kw):
    old = L.SPEC
    L.SPEC = sd
    try:
        return L.run_tlc(module, cfgname, wd, **kw)
    finally:
        L.SPEC = old


def ev_consts(ents=("e1",), clients=("c1", "c2"), policy="all", impl="ImplAsDesigned", auth="none",
              stypes=("SOrd",), ctypes=(), modes=("all", "direct"), emits=2, ticks=2, idle=0, cframes=2, ops=1,
              reconnects=0, init=("c1",), settle=2, spawn_comps='{{"A"}}'):
    return {
        "Ent": tla_set(ents), "Client": tla_set(clients), "Policy": f'"{policy}"', "Track": "FALSE",
        "Timeout": "1000", "Impl": impl, "AuthMode": f'"{auth}"', "SEmitTypes": tla_set(stypes),
        "CEmitTypes": tla_set(ctypes), "Modes": tla_set(modes), "MaxEmits": emits, "MaxTicks": ticks,
        "MaxIdle": idle, "MaxCliFrames": cframes, "MaxOps": ops, "Reconnects": reconnects,
        "InitConnected": tla_set(init), "SettleRounds": settle, "SpawnComps": spawn_comps,
    }


def write_cfg(sd, name, consts, invariants, props=(), view=True):
    lines = ["SPECIFICATION Spec", "CONSTANTS"]
    for k, v in consts.items():
        lines.append(f"  {k} {'<-' if k == 'Impl' else '='} {v}")
    if view:
        lines.append("VIEW View0")
    if invariants:
        lines.append("INVARIANTS " + " ".join(invariants))
    for p in props:
        lines.append(f"PROPERTY {p}")
    lines.append("CHECK_DEADLOCK FALSE")
    with open(os.path.join(sd, name), "w") as f:
        f.write("\n".join(lines) + "\n")
    return name


def tla_set(xs):
    return "{" + ", ".join(f'"{x}"' for x in xs) + "}"


def mc_consts(ents=("e1",), clients=("c1",), policy="all", track=False, impl="ImplAsDesigned", ops=3, ticks=3,
              idle=1, cframes=3, comps=("A", "B"), kinds=("spawn", "insert", "mutate", "remove"), settle=3,
              emit=False, graphs=0, recon=0, pre=()):
    return {
        "Ent": tla_set(ents), "Client": tla_set(clients), "Policy": f'"{policy}"',
        "Track": "TRUE" if track else "FALSE", "Timeout": "1000", "Impl": impl,
        "MaxOps": ops, "MaxTicks": ticks, "MaxIdle": idle, "MaxCliFrames": cframes,
        "OpComps": tla_set(comps), "OpKinds": tla_set(kinds), "SettleRounds": settle,
        "Emit": "TRUE" if emit else "FALSE", "Graphs": graphs, "MaxRecon": recon, "Pre": tla_set(pre),
    }


THOROUGH_BUDGET_S = int(os.environ.get("VERIF_TLC_BUDGET_S", "600"))


PRINT_RE = re.compile(r'^<<"(\w+)", "(.*)">>$')


def parse_prints(out):
    res = []
    for line in out.splitlines():
        m = PRINT_RE.match(line.strip())
        if m:
            try:
                res.append((m.group(1), json.loads(m.group(2).encode().decode("unicode_escape"))))
            except Exception:
                res.append((m.group(1), m.group(2)))
    return res


def validate_trace(sd, trace, wd, timeout=600, monitors_only=False):
    """Runs CoreTrace on one NDJSON file. Returns (diffs, viols, done)."""
    with open(os.path.join(sd, "CoreTrace.cfg"), "w") as f:
        f.write("SPECIFICATION Spec\nINVARIANT Done\nCHECK_DEADLOCK FALSE\n")
    env = {"TRACE": trace}
    if monitors_only:
        env["MONITORS_ONLY"] = "1"
    r = run_tlc_in(sd, "CoreTrace", "CoreTrace.cfg", wd, workers=1, timeout=timeout, xmx="8g", xss="1g",
                   env_extra=env)
    diffs, viols, done = [], [], None
    for tag, d in parse_prints(r["out"]):
        if tag == "DIFF":
            diffs.append(d)
        elif tag == "VIOL":
            viols.append(d)
        elif tag == "DONE":
            done = d
    if done is None:
        with open(os.path.join(wd, "coretrace.log"), "w") as f:
            f.write(r["out"])
        raise L.ToolError(f"trace validation did not complete for {trace} (log in {wd})")
    return diffs, viols, done


def simtrace(profile, runs, seed, out, timeout=600):
    r = L.run([L.harness_bin("simtrace"), profile, str(runs), str(seed), out], timeout=timeout)
    m = re.search(r"lines=(\d+) panics=(\d+)", r.stderr)
    return int(m.group(1)) if m else 0, int(m.group(2)) if m else 0


def extract_run(trace, run, out):
    """Writes the lines of one run of a trace file to `out` (a replay file)."""
    with open(trace) as f, open(out, "w") as o:
        for line in f:
            if f'"run":{run},' in line[:40] or json.loads(line)["run"] == run:
                o.write(line)


def diff_field(d):
    if d["kind"] == "enabled":
        return "enabled." + d["field"]
    return d["kind"] + "." + d["field"]


def props_of_diff(d):
    return FIELD_PROPS.get(diff_field(d), [])


def sig_f17(lines):
    """Mechanism of known finding F17, on the client's observations: in a client frame an entity dies although
    no despawn record for it is applied, while an entity above it in the client-side hierarchy (as held before
    the frame or as set by the messages applied in it) is removed by a despawn record.  That is Bevy's linked
    despawn run by the client's `despawn` of the parent."""
    prev = None
    for d in lines:
        if d["ev"] == "CliFrame" and prev is not None:
            c = d["args"]["c"]
            pe, ne = prev["post"]["cli"][c]["ents"], d["post"]["cli"][c]["ents"]
            net = prev["post"]["net"][c]
            desp, edges = set(), collections.defaultdict(set)
            for e, v in pe.items():
                if v.get("parent", "none") not in ("none", "?"):
                    edges[e].add(v["parent"])
            for m in net["rxUpd"]:
                desp |= set(m["desp"])
                for e, ch in m["chg"].items():
                    if "ChildOf" in ch:
                        edges[e].add(ch["ChildOf"])
            for m in list(net["rxMut"]) + list(prev["post"]["cli"][c]["buf"]):
                for e, ch in m["ents"].items():
                    if isinstance(ch, dict) and "ChildOf" in ch:
                        edges[e].add(ch["ChildOf"])
            for e, v in ne.items():
                if not v["alive"] and e not in desp and (e not in pe or pe[e]["alive"]):
                    seen, todo = set(), [e]
                    while todo:
                        x = todo.pop()
                        for p in edges.get(x, ()):
                            if p in desp:
                                return True
                            if p not in seen:
                                seen.add(p)
                                todo.append(p)
        prev = d
    return False


def sig_f20(lines):
    """Mechanism of known finding F20, on the server's observations: a server frame drops the visibility
    entry of an entity (a hidden one of a blacklist, any of a whitelist) although the entity is still alive -
    it only stopped being replicated."""
    prev = None
    for d in lines:
        if d["ev"] == "SrvFrame" and prev is not None:
            w = d["post"]["srv"]["world"]
            for c, cl in d["post"]["srv"]["cl"].items():
                pv, nv = prev["post"]["srv"]["cl"][c]["vis"], cl["vis"]
                if pv["kind"] != nv["kind"] or not cl["conn"]:
                    continue
                for e, code in pv["list"].items():
                    kept = not (pv["kind"] == "black" and code == 1)    # queued for removal: dropped legitimately
                    if kept and e not in nv["list"] and w.get(e, {}).get("alive"):
                        return True
        prev = d
    return False


def sig_f24(lines):
    """Mechanism of known finding F24, on the client's observations: a client frame applies a mapping for a
    server entity that the client's map already holds as a plain (not pre-spawned) entry - the placeholder
    reserved for a reference, before the frame or by an earlier message applied in the same frame."""
    prev = None
    for d in lines:
        if d["ev"] == "CliFrame" and prev is not None:
            c = d["args"]["c"]
            pe = prev["post"]["cli"][c]["ents"]
            known = {e for e, v in pe.items() if v.get("pre", "none") == "none"}
            for m in prev["post"]["net"][c]["rxUpd"]:
                for mp in m.get("maps", []):
                    if mp[0] in known:
                        return True
                for e, ch in m.get("chg", {}).items():
                    known.add(e)
                    if isinstance(ch, dict) and "ChildOf" in ch:
                        known.add(ch["ChildOf"])
        prev = d
    return False


SIGNATURES = {"F17": sig_f17, "F20": sig_f20, "F24": sig_f24}
# monitors a known finding is known to falsify (C11rest: the dead entity's mutations are never acknowledged)
KF_MONITORS = {"F17": {"C01", "C03", "C01parent", "C11rest"}, "F20": {"C08query"},
               "F24": {"C01", "C02", "C03", "C01parent", "C16"}}


def run_lines(trace, run):
    out = []
    with open(trace) as f:
        for line in f:
            d = json.loads(line)
            if d["run"] == run:
                out.append(d)
    return out


def selftest_binding(sd, trace, wd):
    """Corrupts one recorded field of a valid trace; the validator must report exactly that step."""
    lines = open(trace).read().splitlines()
    target = None
    for i, line in enumerate(lines):
        d = json.loads(line)
        if d["ev"] == "CliFrame" and any(v["ents"] for v in d["post"]["cli"].values()):
            for c, v in d["post"]["cli"].items():
                for e, ent in v["ents"].items():
                    if ent["comps"]:
                        k = sorted(ent["comps"])[0]
                        ent["comps"][k] += 7
                        target = (i, d["run"], d["i"], c)
                        break
                if target:
                    break
            if target:
                lines[i] = json.dumps(d)
                break
    if not target:
        raise L.ToolError("self-test: no client frame with components found in the trace")
    # keep only the run containing the corrupted line, to stay fast
    run = target[1]
    bad = os.path.join(wd, "selftest.ndjson")
    with open(bad, "w") as f:
        for line in lines:
            if json.loads(line)["run"] == run:
                f.write(line + "\n")
    diffs, viols, done = validate_trace(sd, bad, wd)
    hit = [d for d in diffs if d["i"] == target[2] and d["kind"] == "cli" and d["field"] == "ents"]
    if not hit:
        raise L.ToolError("self-test: a corrupted client value was not reported by the trace validator")
    return {"corrupted": {"run": run, "i": target[2], "client": target[3]}, "reported": len(hit)}


class CoreCheck:
    def __init__(self, pid, tier, seed):
        self.pid, self.tier, self.seed = pid, tier, seed
        self.t0 = time.time()
        self.wd = L.workdir(pid.lower())
        self.v = L.Verdict(pid)
        self.states = 0
        self.transitions = 0
        self.traces = 0
        self.trace_events = 0
        self.samples = []
        self.mc_runs = []
        self.found_runs = []
        self.profiles = {}
        self.notes = []
        L.build_harness()
        self.sd, self.open_switches = prepare_spec(self.wd)

    # ---- 1. exhaustive model checking of the designed protocol
    def model_check(self, name, consts, invariants, props=(), workers=8, timeout=900, module="MC_Core"):
        cfg = write_cfg(self.sd, f"{name}.cfg", consts, invariants, props, view=(module == "MC_Core"))
        # thorough instances that do not finish within their budget end by themselves (breadth first: every
        # behaviour up to the depth reached has been checked); the evidence says whether the run was complete
        budget = THOROUGH_BUDGET_S if timeout >= 1000 else None
        r = run_tlc_in(self.sd, module, cfg, self.wd, workers=workers, timeout=(budget + 600 if budget else timeout),
                       stop_after=budget)
        self.states += r["distinct"]
        self.transitions += r["states"]
        self.mc_runs.append({"config": name, "constants": {k: str(v) for k, v in consts.items()},
                             "invariants": list(invariants) + list(props), "states_generated": r["states"],
                             "distinct": r["distinct"], "violated": r["violated"], "wall_s": round(r["wall"], 1),
                             "complete": r["complete"], "states_left_on_queue": r["left"]})
        if r["violated"]:
            p = L.save_replay(self.pid, f"{name}-tlc-counterexample.txt", r["out"][-20000:])
            self.v.violation(p, f"TLC: the designed protocol violates {invariants} in {name}")
        return r

    # ---- 2. as-found model must violate
    def must_find(self, name, consts, invariants, props=(), workers=8, timeout=600, module="MC_Core"):
        cfg = write_cfg(self.sd, f"{name}.cfg", consts, invariants, props, view=(module == "MC_Core"))
        r = run_tlc_in(self.sd, module, cfg, self.wd, workers=workers, timeout=timeout)
        self.found_runs.append({"config": name, "impl": consts["Impl"], "found": r["violated"],
                                "states_generated": r["states"], "wall_s": round(r["wall"], 1)})
        if not r["violated"]:
            raise L.ToolError(f"vacuity: TLC found no counterexample with {consts['Impl']} in {name}")
        return r

    def _report(self, trace, label, prefix, items, known):
        """Turns monitor violations / conformance differences of one validated trace file into verdicts.
        A known finding excuses only the monitors it is known to falsify, in runs that show its mechanism;
        conformance differences are never excused (the open findings are part of the model)."""
        seen_runs, kf_runs = set(), set()
        open_kf = {f["id"]: f for f in L.load_known_findings() if f.get("status") == "open" and f["id"] in known}
        kf_hits = 0
        for x in items:
            if open_kf and "prop" in x:
                lines = run_lines(trace, x["run"])
                hit = next((fid for fid in open_kf if x["prop"] in KF_MONITORS[fid] and SIGNATURES[fid](lines)), None)
                if hit:
                    if (x["run"], hit) not in kf_runs:
                        kf_runs.add((x["run"], hit))
                        kf_hits += 1
                        self.v.known_finding(f"{hit}: {open_kf[hit]['what'][:160]}")
                    continue
            if x["run"] in seen_runs:
                continue
            seen_runs.add(x["run"])
            rp = os.path.join(L.REPLAYS, f"{self.pid}-{label}-seed{self.seed}-run{x['run']}.ndjson")
            os.makedirs(L.REPLAYS, exist_ok=True)
            extract_run(trace, x["run"], rp)
            what = (f"{prefix}monitor {x['prop']} false at step {x['i']} ({x['ev']})" if "prop" in x else
                    f"{prefix}conformance: {diff_field(x)} differs at step {x['i']} ({x['ev']}) client={x.get('c')}: "
                    f"pred={str(x.get('pred'))[:300]} obs={str(x.get('obs'))[:300]}")
            self.v.violation(rp, what)
        return kf_hits, open_kf

    # ---- 3. trace validation of real executions
    def validate_profile(self, profile, runs, monitors_only=False, extra_monitors=(), extra_fields=(), known=()):
        # large samples are generated and validated in chunks (the validator holds one file in memory)
        CH = 400
        tot = {"lines": 0, "panics": 0, "diffs": 0, "viols": 0, "mine": 0, "other": 0}
        kf_hits, open_kf, trace = 0, {}, None
        for ci, start in enumerate(range(0, runs, CH)):
            n = min(CH, runs - start)
            trace = os.path.join(self.wd, f"{profile}.{ci}.ndjson" if runs > CH else f"{profile}.ndjson")
            lines, panics = simtrace(profile, n, self.seed + 7919 * ci, trace, timeout=1800)
            diffs, viols, done = validate_trace(self.sd, trace, self.wd, monitors_only=monitors_only,
                                                timeout=max(600, lines // 100))
            mine_v = [x for x in viols if self.pid in MONITOR_PROPS.get(x["prop"], []) or x["prop"] in extra_monitors]
            mine_d = [] if monitors_only else [x for x in diffs if self.pid in props_of_diff(x)
                                               or diff_field(x).rsplit(".", 1)[0] in extra_fields]
            tot["lines"] += lines
            tot["panics"] += panics
            tot["diffs"] += done["diffs"]
            tot["viols"] += done["viols"]
            tot["mine"] += len(mine_v) + len(mine_d)
            tot["other"] += len(viols) - len(mine_v) + len(diffs) - len(mine_d)
            k, open_kf = self._report(trace, profile if runs <= CH else f"{profile}.{ci}", "", mine_v + mine_d, known)
            kf_hits += k
        lines, other = tot["lines"], tot["other"]
        self.traces += runs
        self.trace_events += lines
        self.profiles[profile] = {"runs": runs, "events": lines, "diffs": tot["diffs"], "viols": tot["viols"],
                                  "attributed_to_this_property": tot["mine"], "panics": tot["panics"]}
        if known and profile.startswith("kf_") and kf_hits == 0 and open_kf:
            self.notes.append(f"{profile}: the scripted history of {sorted(open_kf)} no longer violates the property "
                              f"- known_findings.json is out of date")
            L.log(f"WARNING: known finding {sorted(open_kf)} did not reproduce on profile {profile}")
        if known:
            self.profiles[profile]["runs_matching_known_findings"] = kf_hits
            self.profiles[profile]["known_findings_open"] = sorted(open_kf)
        if other:
            self.notes.append(f"{profile}: {other} diffs/violations attributed to other properties (see their checks)")
        if not self.samples:
            with open(trace) as f:
                head = [json.loads(next(f)) for _ in range(12)]
            self.samples.append({"kind": "validated trace prefix (ev, args)", "profile": profile,
                                 "steps": [[h["ev"], h["args"]] for h in head if h["ev"] != "Init"]})
        return trace

    # ---- 3a. the message buffers between replicon and a backend (spec/Buffers.tla)
    def buffers(self, walks, walk_seed=None):
        """`RepliconClient` / `RepliconServer` as a state machine of their own: TLC checks the clean-slate
        invariants on every order of the public calls, the as-found variants must violate them, and every
        behaviour of the bounded export instances (plus `walks` long random ones over both resources) is
        replayed on the real resources (harness/src/bin/c09_buffers.rs) - drained results, the content of
        all four buffers and "nothing buffered without a connection" compared after every call."""
        res = {"model": [], "as_found": [], "replayed": {}}
        deep = ("Buffers_client_deep.cfg", "Buffers_server_deep.cfg") if self.tier == "thorough" else ()
        for cfg in ("Buffers_client.cfg", "Buffers_server.cfg") + deep:
            r = L.run_tlc("Buffers", cfg, self.wd, workers=8 if deep else 4, timeout=900)
            self.states += r["distinct"]
            self.transitions += r["states"]
            res["model"].append({"config": cfg, "distinct": r["distinct"], "violated": r["violated"]})
            if r["violated"]:
                p = L.save_replay(self.pid, f"{cfg}-tlc-counterexample.txt", r["out"][-20000:])
                self.v.violation(p, f"TLC: the buffer design violates the clean-slate invariants in {cfg}")
        for cfg in ("Buffers_found_connecting.cfg", "Buffers_found_stop.cfg", "Buffers_found_purgetwo.cfg"):
            r = L.run_tlc("Buffers", cfg, self.wd, workers=2, timeout=300)
            res["as_found"].append({"config": cfg, "found": r["violated"]})
            if not r["violated"]:
                raise L.ToolError(f"vacuity: TLC found no counterexample in {cfg}")
        runs = [("Buffers_gen_c.cfg", {}), ("Buffers_gen_c1.cfg", {}), ("Buffers_gen_s.cfg", {})]
        if walks:
            runs.append(("Buffers_sim.cfg", dict(workers=1, simulate=f"num={walks}", depth=20,
                                                 seed=self.seed if walk_seed is None else walk_seed)))
        for cfg, kw in runs:
            # one worker: every exported behaviour is one complete PrintT line
            r = L.run_tlc("Buffers", cfg, self.wd, timeout=600, **({"workers": 1} | kw))
            if r["violated"]:
                p = L.save_replay(self.pid, f"{cfg}-tlc-counterexample.txt", r["out"][-20000:])
                self.v.violation(p, f"TLC: the buffer design violates the clean-slate invariants in {cfg}")
                continue
            cases = L.tlc_prints(r["out"], "BUF")
            if not cases or any(not isinstance(c, dict) for c in cases):
                raise L.ToolError(f"no behaviours exported by {cfg}")
            path = os.path.join(self.wd, cfg.replace(".cfg", ".ndjson"))
            with open(path, "w") as f:
                for c in cases:
                    f.write(json.dumps(c) + "\n")
            out = L.run([L.harness_bin("c09_buffers"), path], timeout=600)
            summ = json.loads(out.stdout.strip().splitlines()[-1])
            if summ["cases"] != len(cases):
                raise L.ToolError(f"{cfg}: {summ['cases']} of {len(cases)} behaviours replayed")
            res["replayed"][cfg] = {"behaviours": summ["cases"], "calls": summ["ops"], "mismatches": summ["mismatch_count"]}
            self.traces += summ["cases"]
            self.trace_events += summ["ops"]
            for m in summ["mismatches"][:3]:
                case = cases[m["case"]]
                p = L.save_replay(self.pid, f"buffers-{cfg[:-4]}-{m['case']}.json", {"kind": "buffers", "case": case, "mismatch": m})
                self.v.violation(p, f"buffers ({cfg}): {m['what']} at call {m.get('step')} {json.dumps(m.get('op'))}")
        # binding self-test: a behaviour with one expected result corrupted must be reported
        probe = {"ops": [{"op": "c_status", "s": "Connected"}, {"op": "c_send", "ch": 0, "n": 1},
                         {"op": "c_drain", "got": [[0, 2]]}], "cin": {"0": []}, "cout": [], "sin": {"0": []}, "sout": []}
        path = os.path.join(self.wd, "buffers-selftest.ndjson")
        with open(path, "w") as f:
            f.write(json.dumps(probe) + "\n")
        summ = json.loads(L.run([L.harness_bin("c09_buffers"), path], timeout=60).stdout.strip().splitlines()[-1])
        if summ["mismatch_count"] != 1:
            raise L.ToolError("buffers self-test: a corrupted expected result was not reported")
        res["binding_selftest"] = "corrupted expected drain result reported"
        self.profiles["buffers"] = res
        return res

    # ---- 3b. spec -> implementation: behaviours chosen by TLC are executed on the real apps
    def replay_behaviours(self, name, consts, num, depth=60, timeout=600, extra_monitors=(), extra_fields=(), known=(),
                          invariants=None):
        """Behaviours of MC_Core chosen by TLC are executed step by step on the real apps and the recorded
        trace is validated.  num > 0: random walks (simulation mode), every walk that reaches the settle phase.
        num = 0 (with `invariants`): *exhaustive* - TLC model-checks the bounded instance breadth first and
        exports, for every distinct settled state, the shortest behaviour that reaches it; all of them are
        replayed (small-scope exhaustiveness carried over to the real code)."""
        consts = dict(consts, Emit="TRUE")
        if num > 0:
            cfg = write_cfg(self.sd, f"{name}.cfg", consts, ["EmitInv"], view=False)
            r = run_tlc_in(self.sd, "MC_Core", cfg, self.wd, workers=1, timeout=timeout,
                           simulate=f"num={num}", depth=depth, seed=self.seed)
        else:
            cfg = write_cfg(self.sd, f"{name}.cfg", consts, list(invariants) + ["EmitInv"], view=True)
            budget = THOROUGH_BUDGET_S if timeout >= 1000 else None
            r = run_tlc_in(self.sd, "MC_Core", cfg, self.wd, workers=8, timeout=(budget + 600 if budget else timeout),
                           stop_after=budget)
            self.states += r["distinct"]
            self.transitions += r["states"]
            self.mc_runs.append({"config": name, "constants": {k: str(v) for k, v in consts.items()},
                                 "invariants": list(invariants), "states_generated": r["states"],
                                 "distinct": r["distinct"], "violated": r["violated"], "wall_s": round(r["wall"], 1),
                                 "complete": r["complete"], "states_left_on_queue": r["left"],
                                 "every_settled_state_replayed_on_the_real_apps": r["complete"]})
            if r["violated"]:
                p = L.save_replay(self.pid, f"{name}-tlc-counterexample.txt", r["out"][-20000:])
                self.v.violation(p, f"TLC: the designed protocol violates {list(invariants)} in {name}")
        behs = [b for tag, b in parse_prints(r["out"]) if tag == "REPLAY"]
        if not behs:
            raise L.ToolError(f"{name}: TLC produced no settled behaviour")
        unq = lambda s: [x.strip().strip('"') for x in s.strip("{}").split(",") if x.strip()]
        cfgj = {"ents": unq(consts["Ent"]), "clients": unq(consts["Client"]), "policy": consts["Policy"].strip('"'),
                "track": consts["Track"] == "TRUE", "rel": "relate" in consts["OpKinds"], "max_size": [1200] * len(unq(consts["Client"])),
                "auth": "none", "timeout_ms": int(consts["Timeout"]), "events": False}
        cfile = os.path.join(self.wd, f"{name}.cfg.json")
        json.dump(cfgj, open(cfile, "w"))
        # replayed and validated in chunks (the validator holds one file in memory)
        CH = 2500
        tot = {"runs": 0, "not_enabled": 0, "lines": 0, "diffs": 0, "viols": 0}
        mine_v, mine_d, trace = [], [], None
        for ci in range(0, len(behs), CH):
            bfile = os.path.join(self.wd, f"{name}.{ci // CH}.behaviours.ndjson")
            with open(bfile, "w") as f:
                for b in behs[ci:ci + CH]:
                    f.write(json.dumps(b) + "\n")
            trace = os.path.join(self.wd, f"{name}.{ci // CH}.replayed.ndjson")
            out = L.run([L.harness_bin("replay"), "behaviours", cfile, bfile, trace], timeout=max(timeout, 1200)).stdout
            summary = json.loads(out.strip().splitlines()[-1])
            diffs, viols, done = validate_trace(self.sd, trace, self.wd, timeout=max(timeout, 1200))
            tot["runs"] += summary["runs"]
            tot["not_enabled"] += summary["not_enabled"]
            tot["lines"] += done["lines"]
            tot["diffs"] += done["diffs"]
            tot["viols"] += done["viols"]
            cv = [x for x in viols if self.pid in MONITOR_PROPS.get(x["prop"], []) or x["prop"] in extra_monitors]
            cd = [x for x in diffs if self.pid in props_of_diff(x) or x["kind"] == "enabled"
                  or diff_field(x).rsplit(".", 1)[0] in extra_fields]
            kf_hits_c, _ = self._report(trace, f"{name}.{ci // CH}", "replayed TLC behaviour: ", cv + cd, known)
            tot["kf"] = tot.get("kf", 0) + kf_hits_c
            mine_v += cv
            mine_d += cd
        self.traces += tot["runs"]
        self.trace_events += tot["lines"]
        self.profiles[name + " (TLC behaviours replayed)"] = {
            "behaviours": tot["runs"], "events": tot["lines"], "diffs": tot["diffs"], "viols": tot["viols"],
            "not_enabled_in_real_apps": tot["not_enabled"], "attributed_to_this_property": len(mine_v) + len(mine_d)}
        kf_hits = tot.get("kf", 0)
        if known:
            self.profiles[name + " (TLC behaviours replayed)"]["runs_matching_known_findings"] = kf_hits
        self.samples.append({"kind": "TLC-generated behaviour replayed on the real apps", "steps": behs[0][:14]})
        return trace

    def selftest(self, trace):
        self.selftest_result = selftest_binding(self.sd, trace, self.wd)

    def finish(self, extra=None, assumptions=()):
        cov = {
            "states": max(self.states, 1), "transitions": max(self.transitions, 1),
            "traces_validated_against_impl": self.traces,
            "trace_events_validated": self.trace_events,
            "samples": self.samples or [{"note": "no trace sampled"}],
            "exhaustive": True,
            "model_checking_runs": self.mc_runs,
            "as_found_runs_that_must_fail": self.found_runs,
            "trace_profiles": self.profiles,
            "binding_selftest": getattr(self, "selftest_result", None),
            "impl_switches_open": self.open_switches,
            "notes": self.notes,
            "rule": "TLC explores every interleaving within the constants listed per run; traces are seeded random "
                    "executions of the real server/client apps validated step by step (per-field conformance + all "
                    "property monitors on every observed state)",
        }
        if extra:
            cov.update(extra)
        L.write_evidence(self.pid, self.tier, self.seed, "model_checking", cov, time.time() - self.t0,
                         violations=len(self.v.violations), assumptions=list(assumptions))
        shutil.rmtree(self.wd, ignore_errors=True)
        return self.v.exit_code()


def track_e2e(pid, seed, runs, verdict):
    """C12 end to end: executions with per-tick tracking on and several mutate messages per tick, validated
    by the trace validator; the notifications observed by game logic are compared with the spec's prediction
    (cli.notif) and the model-independent monitor C12e2e is evaluated on every client frame."""
    wd = L.workdir(pid.lower() + "-e2e")
    sd, _ = prepare_spec(wd)
    CH = 400        # generated and validated in chunks (the validator holds one file in memory)
    lines = notified = multi = tdiffs = tviols = attributed = 0
    for ci, start in enumerate(range(0, runs, CH)):
        n = min(CH, runs - start)
        trace = os.path.join(wd, f"track.{ci}.ndjson")
        ln, panics = simtrace("track", n, seed + 7919 * ci, trace, timeout=1800)
        diffs, viols, done = validate_trace(sd, trace, wd, timeout=max(600, ln // 100))
        lines += ln
        tdiffs += done["diffs"]
        tviols += done["viols"]
        mine_v = [x for x in viols if x["prop"] == "C12e2e"]
        mine_d = [x for x in diffs if diff_field(x) == "cli.notif"]
        attributed += len(mine_v) + len(mine_d)
        with open(trace) as f:
            for line in f:
                d = json.loads(line)
                if d["ev"] == "CliFrame":
                    notified += sum(len(v["notif"]) for v in d["post"]["cli"].values())
                if d["ev"] == "SrvFrame":
                    multi += sum(1 for m in d["obs"]["sent"] if m["ch"] == "mut" and m["m"].get("cnt", 0) > 1)
        seen = set()
        for x in mine_v + mine_d:
            if x["run"] in seen:
                continue
            seen.add(x["run"])
            rp = os.path.join(L.REPLAYS, f"{pid}-track.{ci}-seed{seed}-run{x['run']}.ndjson")
            os.makedirs(L.REPLAYS, exist_ok=True)
            extract_run(trace, x["run"], rp)
            verdict.violation(rp, f"MutateTickReceived end to end: {'monitor C12e2e' if 'prop' in x else 'notifications differ from the prediction'} "
                                  f"at step {x['i']}: pred={str(x.get('pred'))[:200]} obs={str(x.get('obs'))[:200]}")
    if notified == 0 or multi == 0:
        raise L.ToolError("vacuity: the tracking profile produced no notification or no multi-message tick")
    shutil.rmtree(wd, ignore_errors=True)
    return {"runs": runs, "events": lines, "notifications_observed": notified, "messages_of_multi_message_ticks": multi,
            "diffs": tdiffs, "viols": tviols, "attributed": attributed}


def replay_file(pid, path):
    """--replay: validates a saved trace (one run) again on the current spec; monitors + conformance."""
    wd = L.workdir(pid.lower() + "-replay")
    L.build_harness()
    sd, _ = prepare_spec(wd)
    v = L.Verdict(pid)
    if path.endswith(".json"):
        saved = json.load(open(path))
        if saved.get("kind") == "buffers":  # a behaviour of spec/Buffers.tla: run it on the real resources again
            case = os.path.join(wd, "case.ndjson")
            with open(case, "w") as f:
                f.write(json.dumps(saved["case"]) + "\n")
            summ = json.loads(L.run([L.harness_bin("c09_buffers"), case], timeout=60).stdout.strip().splitlines()[-1])
            if summ["mismatch_count"]:
                v.violation(path, f"replay: {summ['mismatches'][0]['what']}")
            shutil.rmtree(wd, ignore_errors=True)
            return v.exit_code()
    # re-execute the recorded actions on the current tree, then validate the fresh trace
    fresh = os.path.join(wd, "fresh.ndjson")
    L.run([L.harness_bin("replay"), "trace", path, fresh], timeout=300)
    diffs, viols, done = validate_trace(sd, fresh, wd)
    mine_v = [x for x in viols if pid in MONITOR_PROPS.get(x["prop"], [])]
    mine_d = [x for x in diffs if pid in props_of_diff(x)]
    if mine_v or mine_d:
        v.violation(path, f"replay: {len(mine_v)} monitor violations, {len(mine_d)} conformance differences")
    shutil.rmtree(wd, ignore_errors=True)
    return v.exit_code()
