"""C07 - decided by the event layer of the specification (spec/Events.tla, PropsE.tla, MC_Event.tla)."""
import corelib as C
from corelib import ev_consts, mc_consts

PID = "C07"
# "from the tick it becomes authorized it is sent the complete state visible to it": in the profiles with late
# authorization, structure / convergence violations and deviations of what is sent belong to C07 as well
AM = ("C01", "C03")
AF = ("net", "srv.cl")
M = "MC_Event"


def main(tier, seed, replay):
    if replay:
        return C.replay_file(PID, replay)
    k = C.CoreCheck(PID, tier, seed)
    inv = ["Inv_C07", "Inv_C03"]
    if tier == "quick":
        k.model_check("MC_Event_custom", ev_consts(auth="custom", stypes=("SOrd", "SInd"), modes=("all",), emits=2, cframes=1), inv, module=M)
        k.must_find("MC_Event_Unauth", ev_consts(impl="ImplEvUnauth", auth="custom"), ["Inv_C07"], module=M)
        k.must_find("MC_Event_F21", ev_consts(impl="ImplF21", auth="custom", stypes=(), emits=0, ops=1, ticks=2, spawn_comps="{{}}"), inv, module=M)
        tr = k.validate_profile("events_custom", 150, extra_monitors=AM, extra_fields=AF)
    else:
        k.model_check("MC_Event_custom_modes", ev_consts(auth="custom", stypes=("SOrd", "SInd"), modes=("all", "direct"), emits=2, cframes=1), inv, module=M)
        k.model_check("MC_Event_custom", ev_consts(auth="custom", stypes=("SOrd", "SInd", "SMap"), emits=2, ticks=3, idle=1, cframes=3), inv, module=M, timeout=3000)
        k.model_check("MC_Event_custom_late", ev_consts(auth="custom", stypes=("SOrd", "SInd"), emits=2, ticks=2, init=(), ops=1), inv, module=M, timeout=3000)
        k.must_find("MC_Event_Unauth", ev_consts(impl="ImplEvUnauth", auth="custom"), ["Inv_C07"], module=M)
        k.must_find("MC_Event_F21", ev_consts(impl="ImplF21", auth="custom", stypes=(), emits=0, ops=1, ticks=2, spawn_comps="{{}}"), inv, module=M)
        tr = k.validate_profile("events_custom", 3000, extra_monitors=AM, extra_fields=AF)
        k.validate_profile("events", 1000)
    k.selftest(tr)
    return k.finish(assumptions=[
        "authorization by AuthMethod::None (on connect) and AuthMethod::Custom (explicit step) is exercised here; the ProtocolCheck handshake (hash match / mismatch, notification, disconnect request) is decided by C14's model and replay",
        "every message handed to RepliconServer is attributed to its recipient and checked against the recipient's authorization at that frame"])
