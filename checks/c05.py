"""C05 - decided by the event layer of the specification (spec/Events.tla, PropsE.tla, MC_Event.tla)."""
import corelib as C
from corelib import ev_consts, mc_consts

PID = "C05"
M = "MC_Event"


def main(tier, seed, replay):
    if replay:
        return C.replay_file(PID, replay)
    k = C.CoreCheck(PID, tier, seed)
    inv = ["Inv_C05"]
    if tier == "quick":
        k.model_check("MC_Event", ev_consts(stypes=("SOrd",), ctypes=("COrd",), emits=2), inv, module=M)
        k.must_find("MC_Event_NoExclude", ev_consts(impl="ImplNoExclude", idle=1), inv, module=M)
        k.model_check("MC_Event_unreliable_c", ev_consts(stypes=(), ctypes=("CUnr",), emits=2), inv, module=M)
        tr = k.validate_profile("events", 120)
        k.validate_profile("events_custom", 60)
    else:
        k.model_check("MC_Event", ev_consts(stypes=("SOrd", "SInd"), ctypes=("COrd", "CMap"), emits=3, ticks=2, idle=1, cframes=3), inv, module=M, timeout=3000)
        k.model_check("MC_Event_modes", ev_consts(stypes=("SOrd", "SInd"), modes=("all", "direct", "except"), emits=2, ticks=2, init=()), inv, module=M, timeout=3000)
        k.model_check("MC_Event_recon", ev_consts(stypes=("SOrd",), ctypes=("COrd",), emits=2, ticks=2, reconnects=1, cframes=3), inv, module=M, timeout=3000)
        k.model_check("MC_Event_unreliable", ev_consts(stypes=("SUnr",), ctypes=("CUnr",), emits=2), inv, module=M, timeout=3000)
        k.model_check("MC_Event_unreliable3", ev_consts(stypes=("SUnr",), ctypes=(), emits=3, ticks=2, cframes=3), inv, module=M, timeout=3000)
        k.must_find("MC_Event_NoExclude", ev_consts(impl="ImplNoExclude", idle=1), inv, module=M)
        k.must_find("MC_Event_unreliable_NoExclude", ev_consts(impl="ImplNoExclude", stypes=("SUnr",), idle=1), inv, module=M)
        tr = k.validate_profile("events", 2500)
        k.validate_profile("events_custom", 1500)
    k.selftest(tr)
    return k.finish(assumptions=[
        "sequence numbers are assigned by the harness; deliveries are observed by readers/observers inside the apps",
        "ordered reliable channels for SOrd/SInd/SMap/STrig/COrd/CMap/CTrig (exactly once, in order, complete at quiescence); an unreliable channel for SUnr/CUnr (loss and reordering chosen by TLC / the driver: at most once, only to allowed recipients, never from an earlier session)",
        "an independent Direct event addressed to a client entity that disconnected in the same frame is handed to the transport for a dead id (observed; not counted as a delivery)"])
