"""C06 - No client input can crash or exhaust the server.

spec/WireShapes.tla (grammar-level model of every client -> server channel: acknowledgements, the
protocol-hash trigger, a plain event, a mapped event, a trigger with targets, a mapped trigger; the
decoders transcribed from the code; an abstract server state with the junk step "stutter or legal
receive") is checked by TLC: the safety formula JunkSafe holds on the as-designed model over all
shapes x channels x sender state x session point, and fails with each of the as-found switches
ImplBug_F5 / F10 / F16 (non-vacuity). TLC prints every junk step as a case with what the property
demands (`must`) and what the mechanism does (`model`); harness/src/bin/c06_junk.rs puts each case's
bytes into a real server App and compares (panic, largest allocation, what server-side logic
received and under which sender, the sender's state, the other client's state, and the other client's
convergence afterwards). Independently of TLC the driver sweeps ALL byte strings of length <= 2 on
every channel from both kinds of sender, replays valid messages written by the real client library
and runs a seeded sample of random / mutated / grammar-aware longer strings.
"""
import collections
import concurrent.futures
import json
import os
import re
import shutil
import subprocess
import time

import checklib as L

PID = "C06"
MODULE = "WireShapes"
BIN = "c06_junk"
BUG_CFGS = {"F5": "WireShapes_bug_F5.cfg", "F10": "WireShapes_bug_F10.cfg", "F16": "WireShapes_bug_F16.cfg"}

TIERS = {
    "quick": dict(cfg="WireShapes_quick.cfg", random=500_000, tlc_timeout=80, coverage=False, run_timeout=120),
    "thorough": dict(cfg="WireShapes_thorough.cfg", random=6_000_000, tlc_timeout=600, coverage=True, run_timeout=900),
}

# known_findings.json signatures of the C06 findings (all repaired on the current tree; an entry only
# suppresses while its status is "open")
F5_SIG = "huge_target_count_on_trigger_channel"
F10_SIG = "ack_from_unauthorized_client"
F16_SIG = "panic-on-generation-field>=2^31-1"
F16_PANICS = ("Attempted to initialize invalid bits as an entity", "attempt to add with overflow")
TRIGGER_CHANNELS = (1, 4, 5)
MAX_RESTARTS = 300      # process deaths (aborts) tolerated per run before giving up on the rest
MAX_HANGS = 4           # each costs the watchdog's 10 s
MAX_FAILING = 200       # failing inputs per run after which the rest of the run is skipped

CASE_RE = re.compile(r'^<<"CASE", "(.*)">>$')


# ------------------------------------------------------------------ running the driver

def empty_summary():
    return {"cases": 0, "mismatch_ids": [], "mismatch_kinds": [], "mismatches": [], "panics": [],
            "divergence_count": 0, "divergences": [], "failing_cases": [], "counts": {}, "max_alloc": 0,
            "max_alloc_id": None, "incidents": [], "restarts": 0}


def merge(acc, s):
    acc["cases"] += s.get("cases", 0)
    for i, k in zip(s.get("mismatch_ids", []), s.get("mismatch_kinds", [])):
        if i in acc["mismatch_ids"]:
            j = acc["mismatch_ids"].index(i)
            acc["mismatch_kinds"][j] = ",".join(sorted(set(acc["mismatch_kinds"][j].split(",")) | set(k.split(","))))
        else:
            acc["mismatch_ids"].append(i)
            acc["mismatch_kinds"].append(k)
    for key, cap in (("mismatches", 60), ("panics", 40), ("divergences", 40), ("failing_cases", 400)):
        acc[key] = (acc[key] + s.get(key, []))[:cap]
    acc["divergence_count"] += s.get("divergence_count", 0)
    for k, v in s.get("counts", {}).items():
        acc["counts"][k] = acc["counts"].get(k, 0) + v
    if s.get("max_alloc", 0) > acc["max_alloc"]:
        acc["max_alloc"], acc["max_alloc_id"] = s["max_alloc"], s.get("max_alloc_id")
    for k in ("alloc_bound", "corpus", "hash_varint_len", "sweep_total"):
        if k in s:
            acc[k] = s[k]
    if s.get("stopped_early") is not None:
        acc["stopped_early"] = s["stopped_early"]
    return acc


def read_journal(path):
    out = []
    if os.path.exists(path):
        with open(path) as f:
            for line in f:
                try:
                    out.append(json.loads(line))
                except json.JSONDecodeError:
                    pass        # a line cut short by the death of the process
    return out


def case_from_mismatch(m):
    return {"id": m["id"], "origin": "journal", "ch": m["ch"], "chn": m.get("chn"), "auth": m["auth"], "phase": "any",
            "bytes": m["bytes"], "hashAt": [0, 0], "must": {"st": "free"}, "detail": f"[{m['kind']}] {m['detail']}"}


def describe(mode, index, seed):
    """Replayable description of a generated input (sweep / random) or None."""
    what = {"sweep": "describe-sweep", "random": "describe-random"}.get(mode)
    if what is None:
        return None
    r = L.run([L.harness_bin(BIN), "--mode", what, "--seed", str(seed), "--from", str(index), "--to", str(index)], timeout=120)
    lines = [l for l in r.stdout.splitlines() if l.startswith("{")]
    return json.loads(lines[-1])["described"][0] if lines else None


def run_driver(wd, name, mode, args, total, seed=0, spec_cases=None, timeout=900):
    """Runs c06_junk over indices 0..total-1 of `mode`. A process that dies inside a frame (abort in the
    code under test) or is stopped by the watchdog (a frame that does not return: exit 3) is data: the
    range in flight is re-run one input per frame to find the input, which becomes an incident, and
    the run resumes after it."""
    acc = empty_summary()
    start, single_until, runs, hangs = 0, None, 0, 0
    while start < total:
        if acc.get("stopped_early") is not None or len(acc["mismatch_ids"]) + len(acc["incidents"]) >= MAX_FAILING:
            acc["stopped_early"] = acc.get("stopped_early", start)     # enough failing inputs: the rest is not run
            break
        if runs > MAX_RESTARTS or hangs > MAX_HANGS:
            acc["incidents"].append({"id": f"{mode}:{start}..", "kind": "not-run",
                                     "detail": f"gave up after {runs - 1} restarts ({hangs} hangs); inputs from {start} were not run"})
            break
        jpath = os.path.join(wd, f"{name}-{runs}.journal")
        if os.path.exists(jpath):
            os.remove(jpath)
        cmd = [L.harness_bin(BIN), "--mode", mode] + list(args) + ["--from", str(start), "--journal", jpath]
        if single_until is not None:
            cmd += ["--single", "--to", str(single_until)]
        runs += 1
        try:
            r = subprocess.run(cmd, stdout=subprocess.PIPE, stderr=subprocess.PIPE, text=True, timeout=timeout)
        except subprocess.TimeoutExpired:
            raise L.ToolError(f"timeout: {' '.join(cmd)}")
        if r.returncode == 0:
            lines = [l for l in r.stdout.splitlines() if l.startswith("{")]
            if not lines:
                raise L.ToolError(f"{BIN} --mode {mode} printed no summary")
            merge(acc, json.loads(lines[-1]))
            if single_until is not None:
                start, single_until = single_until + 1, None
                continue
            break
        if r.returncode == 2 or (r.returncode > 0 and r.returncode != 3):
            L.log(r.stderr[-3000:])
            raise L.ToolError(f"exit {r.returncode}: {' '.join(cmd)}")
        # death by signal (abort) or watchdog: what the dead process had found, and where it was
        acc["restarts"] += 1
        j = read_journal(jpath)
        ms = [e["m"] for e in j if e.get("t") == "mismatch"]
        ids = []
        for m in ms:
            if m["id"] not in ids:
                ids.append(m["id"])
        merge(acc, {"mismatch_ids": ids,
                    "mismatch_kinds": [",".join(sorted({m["kind"] for m in ms if m["id"] == i})) for i in ids],
                    "mismatches": ms, "failing_cases": [case_from_mismatch(next(m for m in ms if m["id"] == i)) for i in ids]})
        begins = [e for e in j if e.get("t") == "begin"]
        if not begins:
            L.log(r.stderr[-3000:])
            raise L.ToolError(f"{BIN} died (rc={r.returncode}) before the first input")
        last = begins[-1]
        a, b = int(last["from"]), int(last["to"])
        kind = "hang" if r.returncode == 3 else "abort"
        hangs += kind == "hang"
        acc["cases"] += max(0, a - int(begins[0]["from"]))       # inputs the dead process had completed
        tail = " | ".join(l for l in r.stderr.strip().splitlines()[-3:])
        if "single" in last or a == b:
            idx = a
            if "single" in last and isinstance(last["single"], str) and ":" in last["single"]:
                idx = int(last["single"].split(":")[1])
            case = spec_cases(idx) if spec_cases else describe(mode, idx, seed)
            inc = {"id": (case or {}).get("id", f"{mode}:{idx}"), "kind": kind, "index": idx, "case": case,
                   "detail": (f"a server frame did not return within 10 s" if kind == "hang"
                              else f"the process died inside a server frame (rc={r.returncode}): {tail[-400:]}")}
            acc["incidents"].append(inc)
            if idx < b:                      # rest of the batch one by one, then back to batches
                start, single_until = idx + 1, b
            else:
                start, single_until = b + 1, None
        else:
            start, single_until = a, b       # attribute: re-run the batch in flight one input per frame
    return acc


# ------------------------------------------------------------------ verdicts

def first_varint(bs):
    v = 0
    for i, b in enumerate(bs[:10]):
        v |= (b & 0x7F) << (7 * i)
        if b < 0x80:
            return v
    return None


def finding_of(case, kinds, detail):
    """Signature predicates of the C06 findings over a failing case: returns the finding's signature."""
    kinds = set(kinds.split(","))
    bs = case.get("bytes", [])
    if kinds & {"panic", "abort"} and any(p in detail for p in F16_PANICS):
        return F16_SIG
    if case.get("ch") == 0 and not case.get("auth") and len(bs) >= 2 and "panic" in kinds:
        return F10_SIG
    if case.get("ch") in TRIGGER_CHANNELS and kinds & {"panic", "alloc", "abort"}:
        n = first_varint(bs)
        if n is not None and n > len(bs):
            return F5_SIG
    return None


def evaluate(verdict, sections, spec_lookup, tag, replay_path=None):
    """Turns mismatches / incidents into VIOLATION / KNOWN-FINDING lines. Returns the number of violations."""
    open_sigs = {f.get("signature"): f for f in L.load_known_findings()
                 if PID in f.get("properties", []) and f.get("status") == "open"}
    failing, known = [], collections.Counter()
    for name, s in sections.items():
        details = collections.defaultdict(list)
        for m in s["mismatches"]:
            details[json.dumps(m["id"])].append(m)
        extra = {json.dumps(c["id"]): c for c in s["failing_cases"]}
        rows = [(i, k, None) for i, k in zip(s["mismatch_ids"], s["mismatch_kinds"])]
        rows += [(inc["id"], inc["kind"], inc) for inc in s["incidents"]]
        for mid, kinds, inc in rows:
            key = json.dumps(mid)
            case = (inc or {}).get("case") or (spec_lookup(mid) if name in ("spec", "replay") and spec_lookup else None) \
                or extra.get(key) or {"id": mid}
            ms = details.get(key, [])
            detail = " ; ".join([m["detail"] for m in ms] + ([inc["detail"]] if inc else []))
            if not detail:
                detail = (extra.get(key) or {}).get("detail", "")
            sig = finding_of(case, kinds, detail)
            if sig in open_sigs:
                known[sig] += 1
                continue
            failing.append(dict(case, _section=name, _kinds=kinds, _detail=detail[:1500],
                                _observed=(ms[0].get("observed") if ms else None)))
    for sig, n in known.items():
        verdict.known_finding(f"{open_sigs[sig].get('id', sig)}: {open_sigs[sig].get('what', sig)} ({n} cases)")
    if failing:
        failing.sort(key=lambda c: (c["_kinds"] == "not-run", len(c.get("bytes", [])), str(c.get("id"))))
        path = replay_path or L.save_replay(PID, f"{tag}.json", failing[:200])
        f0 = failing[0]
        verdict.violation(path, f"{len(failing)} failing inputs; shortest: channel {f0.get('chn', f0.get('ch'))} "
                                f"sender {'authorized' if f0.get('auth') else 'unauthorized'} bytes "
                                f"{' '.join(f'{b:02x}' for b in f0.get('bytes', []))} [{f0['_kinds']}] {f0['_detail'][:500]}")
    return len(failing)


# ------------------------------------------------------------------ binding self-test

def self_test(wd, cases, failing_ids, tree_is_failing):
    """Corrupt the expected value of one case: the driver must flag exactly that case. (Cases that fail by
    themselves on the tree under test are left out, so the self-test also works on a broken tree.)"""
    cases = [c for c in cases if c["id"] not in failing_ids]
    exact = [c for c in cases if c["must"]["st"] == "exact" and c["chn"] == "e1" and c["model"]["st"] == "deliver"]
    disc = [c for c in cases if c["model"]["st"] == "discard" and c["chn"] == "t1" and c["auth"] and c["model"]["why"] == "end"]
    clean = [c for c in cases if c["chn"] in ("ack", "hash", "e2", "t2") and c["model"]["st"] == "deliver"][:40]
    if not exact or not disc or len(clean) < 10:
        raise L.ToolError("self-test: no suitable cases")
    bad1 = json.loads(json.dumps(exact[0]))
    bad1["must"]["v"]["vals"][0][0] ^= 1                       # "a different number must be received"
    bad2 = json.loads(json.dumps(disc[0]))
    bad2["must"] = {"st": "exact", "v": {"acked": [], "targets": [], "vals": [[44, 1]]},
                    "post": dict(bad2["pre"], delivered=1)}     # "this malformed message must be delivered"
    batch = clean + [bad1, bad2]
    path = os.path.join(wd, "selftest.ndjson")
    with open(path, "w") as f:
        for c in batch:
            f.write(json.dumps(c, separators=(",", ":")) + "\n")
    s = run_driver(wd, "selftest", "spec", ["--cases", path], len(batch), timeout=120)
    want = sorted([bad1["id"], bad2["id"]])
    got = sorted(s["mismatch_ids"])
    if got != want or s["incidents"]:
        if tree_is_failing and set(want) <= set(got):
            # the tree under test fails on its own (the verdict is a VIOLATION anyway): only the corrupted
            # cases being flagged can be confirmed
            return {"corrupted": want, "flagged": got, "note": "inconclusive beyond the corrupted cases: the tree fails other cases"}
        if tree_is_failing and s["incidents"]:
            return {"corrupted": want, "flagged": got, "note": "inconclusive: the driver died on the tree under test"}
        raise L.ToolError(f"self-test of the binding failed: corrupted cases {want}, driver flagged {got}, "
                          f"incidents {len(s['incidents'])}")
    return {"corrupted": want, "flagged": got, "kinds": s["mismatch_kinds"]}


# ------------------------------------------------------------------ main

def main(tier, seed, replay):
    t0 = time.time()
    cfg = TIERS.get(tier)
    if cfg is None:
        raise L.ToolError(f"unknown tier {tier}")
    verdict = L.Verdict(PID)
    L.build_harness()
    wd = L.workdir("c06")
    rc = run(tier, seed, replay, cfg, verdict, wd, t0)      # on ToolError the workdir (TLC logs, journals) is kept
    shutil.rmtree(wd, ignore_errors=True)
    return rc


def run(tier, seed, replay, cfg, verdict, wd, t0):
    if replay:
        cases = json.load(open(replay))
        clean = []
        for i, c in enumerate(cases):
            c = {k: v for k, v in c.items() if not k.startswith("_")}
            c.setdefault("id", f"replay{i}")
            clean.append(c)
        path = os.path.join(wd, "replay.ndjson")
        with open(path, "w") as f:
            for c in clean:
                f.write(json.dumps(c, separators=(",", ":")) + "\n")
        s = run_driver(wd, "replay", "spec", ["--cases", path], len(clean), spec_cases=lambda i: clean[i], timeout=cfg["run_timeout"])
        by_id = {json.dumps(c["id"]): c for c in clean}
        evaluate(verdict, {"replay": s}, lambda mid: by_id.get(json.dumps(mid)), "replay", replay_path=replay)
        L.log(f"[c06] replayed {s['cases']} cases, {len(s['mismatch_ids'])} mismatches, {len(s['incidents'])} incidents")
        return verdict.exit_code()

    rnd_seed = (int(seed) * 1_000_003 + 6) & 0x7FFFFFFFFFFFFFFF

    def tlc(cfg_name, sub, workers, coverage=False):
        d = os.path.join(wd, sub)
        os.makedirs(d, exist_ok=True)
        return L.run_tlc(MODULE, cfg_name, d, workers=workers, timeout=cfg["tlc_timeout"], coverage=coverage)

    # TLC (as designed + the three as-found switches) and the TLC-independent driver runs side by side
    with concurrent.futures.ThreadPoolExecutor(max_workers=8) as ex:
        f_main = ex.submit(tlc, cfg["cfg"], "tlc-main", 6, cfg["coverage"])
        f_bugs = {k: ex.submit(tlc, c, f"tlc-{k}", 2) for k, c in BUG_CFGS.items()}
        f_corpus = ex.submit(run_driver, wd, "corpus", "corpus", [], 10_000, 0, None, 300)
        f_sweep = ex.submit(run_driver, wd, "sweep", "sweep", [], 1 << 62, 0, None, cfg["run_timeout"])
        f_random = ex.submit(run_driver, wd, "random", "random", ["--n", str(cfg["random"]), "--seed", str(rnd_seed)],
                             cfg["random"], rnd_seed, None, cfg["run_timeout"])
        r = f_main.result()
        bugs = {k: f.result() for k, f in f_bugs.items()}
        if not r["violated"]:
            # (iii) every junk state is a case
            cases = []
            for line in r["out"].splitlines():
                m = CASE_RE.match(line.strip())
                if m:
                    c = json.loads(m.group(1).encode().decode("unicode_escape"))
                    c["id"] = len(cases)
                    cases.append(c)
            ndjson = os.path.join(wd, "cases.ndjson")
            with open(ndjson, "w") as f:
                for c in cases:
                    f.write(json.dumps(c, separators=(",", ":")) + "\n")
            spec = run_driver(wd, "spec", "spec", ["--cases", ndjson], len(cases), spec_cases=lambda i: cases[i],
                              timeout=cfg["run_timeout"])
            if spec.get("stopped_early") is None and not any(i["kind"] == "not-run" for i in spec["incidents"]):
                st = self_test(wd, cases, set(i for i in spec["mismatch_ids"] if isinstance(i, int))
                               | set(inc.get("index") for inc in spec["incidents"]),
                               bool(spec["mismatch_ids"] or spec["incidents"]))
            else:
                st = {"skipped": "the spec run found too many failing cases and was not completed"}
        corpus, sweep, rnd = f_corpus.result(), f_sweep.result(), f_random.result()

    # (ii) non-vacuity: each deviation found on the pinned tree violates the formula
    non_vacuity = {}
    for k, rb in bugs.items():
        if not (rb["violated"] and "JunkSafe" in rb["out"]):
            raise L.ToolError(f"non-vacuity: TLC did not find a violation of JunkSafe with ImplBug_{k} = TRUE")
        found = re.findall(r"\bb \|-> <<([0-9, ]*)>>", rb["out"])
        chn = re.findall(r'\bch \|-> "(\w+)"', rb["out"])
        why = re.findall(r'why \|-> "([^"]*)"', rb["out"])
        non_vacuity[k] = {"cfg": BUG_CFGS[k], "violated": "JunkSafe", "states": rb["states"],
                          "channel": chn[-1] if chn else "?",
                          "counterexample": " ".join(f"{int(x):02x}" for x in found[-1].split(",")) if found and found[-1].strip() else "",
                          "why": why[-1] if why else ""}

    # (i) the as-designed model satisfies the formula
    if r["violated"] and "SpliceConsistent is violated" in r["out"]:
        raise L.ToolError("WireShapes: a shape carries the model world's hash without telling the replayer (hashAt)")
    if r["violated"]:
        path = L.save_replay(PID, f"tlc-{cfg['cfg']}.txt", r["out"][-20000:])
        verdict.violation(path, f"TLC: the as-designed model violates JunkSafe under {cfg['cfg']}")
        L.write_evidence(PID, tier, seed, "model_checking",
                         {"states": max(r["distinct"], 1), "transitions": max(r["states"], 1),
                          "traces_validated_against_impl": 0, "samples": [r["out"][-1500:]], "exhaustive": False},
                         time.time() - t0, violations=1)
        return verdict.exit_code()
    n_junk_states = r["distinct"] - 4          # 2 initial states + their 2 successors by Tick carry no case
    if len(cases) != n_junk_states:
        raise L.ToolError(f"{cfg['cfg']}: {len(cases)} CASE lines for {n_junk_states} junk states")

    # completeness of the runs
    if not spec["incidents"] and spec.get("stopped_early") is None and spec["cases"] != len(cases):
        raise L.ToolError(f"driver ran {spec['cases']} of {len(cases)} spec cases")
    sweep_total = next((s["sweep_total"] for s in (sweep, corpus, spec, rnd) if s.get("sweep_total")), None)
    if sweep_total != (1 + 256 + 65536) * 6 * 2 and not any(s["incidents"] for s in (sweep, corpus, spec, rnd)):
        raise L.ToolError("sweep does not cover all strings of length <= 2 x 6 channels x 2 senders")
    if not sweep["incidents"] and sweep.get("stopped_early") is None and sweep["cases"] != sweep_total:
        raise L.ToolError(f"sweep incomplete: {sweep['cases']} of {sweep_total}")
    if not rnd["incidents"] and rnd.get("stopped_early") is None and rnd["cases"] != cfg["random"]:
        raise L.ToolError(f"random run incomplete: {rnd['cases']} of {cfg['random']}")

    # class coverage as counted on the exported cases and on what really happened (vacuity)
    cnt = collections.Counter()
    samples_wanted = [
        lambda c: c["chn"] == "t1" and "count=2^64-1" in c["tags"],
        lambda c: c["chn"] == "hash" and "hash-match" in c["tags"] and not c["auth"],
        lambda c: c["chn"] == "ack" and not c["auth"] and len(c["bytes"]) == 2,
        lambda c: "target-gen=2^31-1" in c["tags"] and c["chn"] == "t2",
        lambda c: c["chn"] == "e2" and "len=n+1" in c["tags"],
        lambda c: c["chn"] == "ack" and c["auth"] and c["phase"] == "post" and "ack-mixed" in c["tags"],
    ]
    samples = [None] * len(samples_wanted)
    for c in cases:
        cnt["ch:" + c["chn"]] += 1
        cnt["sender:" + ("authorized" if c["auth"] else "unauthorized")] += 1
        cnt["phase:" + c["phase"]] += 1
        cnt["must:" + c["must"]["st"]] += 1
        cnt["model:" + c["model"]["st"] + (":" + c["model"]["why"] if c["model"]["st"] == "discard" else "")] += 1
        for t in c["tags"]:
            cnt["shape:" + t] += 1
        for k, w in enumerate(samples_wanted):
            if samples[k] is None and w(c):
                samples[k] = c
    need = ["must:exact", "must:free", "model:deliver", "model:discard:end", "model:discard:badvarint",
            "model:discard:generation", "model:discard:entitybits", "model:discard:unauthorized", "phase:pre", "phase:post",
            "sender:authorized", "sender:unauthorized", "shape:wellformed", "shape:empty", "shape:trunc", "shape:trailing",
            "shape:count=2^64-1", "shape:count=2^40", "shape:count=2^32", "shape:count=2^16", "shape:count=n+1",
            "shape:len=2^64-1", "shape:len=n+1", "shape:target-gen=2^31-1", "shape:target-gen=2^32-1",
            "shape:target-flagged=2^64-1", "shape:count-varint-pad", "shape:ack-odd", "shape:ack-unknown", "shape:ack-known",
            "shape:hash-match"] + ["ch:" + c for c in ("ack", "hash", "e1", "e2", "t1", "t2")]
    missing = [k for k in need if cnt[k] == 0] + [k for k in cnt if k.startswith("model:panic")]
    eff_need = ["effect:known-index-acknowledged", "effect:authorised-by-hash", "effect:disconnect-requested",
                "spec:deliver", "spec:discard", "good-client-checks", "arranged:pre", "arranged:post"]
    if not spec["mismatch_ids"] and not spec["incidents"] and spec.get("stopped_early") is None:
        missing += [k for k in eff_need if spec["counts"].get(k, 0) == 0]
    if missing:
        raise L.ToolError(f"case export is vacuous or inconsistent: {missing}")

    # a malformed message must not affect valid messages queued behind it in the same frame ("keeps serving
    # every client correctly"): junk from an attacker followed by a valid message of the well-behaved client
    ri = L.run([L.harness_bin(BIN), "--mode", "interfere"], timeout=600)
    interfere = json.loads(ri.stdout.strip().splitlines()[-1])
    if interfere["cases"] < 1000 and not interfere["failure_count"]:
        raise L.ToolError("interference pass ran too few cases")
    if interfere["failure_count"]:
        rp = L.save_replay(PID, f"{tier}-interfere.json", interfere["failures"][:50])
        verdict.violation(rp, f"{interfere['failure_count']} valid messages queued behind junk in the same frame were lost or changed; "
                              f"first: {json.dumps(interfere['failures'][0])[:300]}")

    sections = {"spec": spec, "corpus": corpus, "sweep": sweep, "random": rnd}
    nviol = evaluate(verdict, sections, lambda mid: cases[mid] if isinstance(mid, int) and 0 <= mid < len(cases) else None, tier)
    nviol += interfere["failure_count"]
    ndiv = spec["divergence_count"]
    if ndiv:
        L.log(f"[c06] note: {ndiv} cases where the code differs from the transcribed mechanism within what the property "
              f"permits (spec stale?); first: {json.dumps(spec['divergences'][:1])[:600]}")

    run_info = {"cfg": cfg["cfg"], "states_generated": r["states"], "distinct": r["distinct"], "wall_s": round(r["wall"], 1)}
    if cfg["coverage"]:
        cov = re.findall(r"^<(\w+) line (\d+), col \d+ to line \d+, col \d+ of module WireShapes>: (\d+):(\d+)", r["out"], re.M)
        run_info["tlc_coverage"] = [f"{a}@{ln}: {x} distinct / {y} generated" for a, ln, x, y in cov]
    max_alloc = max(s["max_alloc"] for s in sections.values())
    coverage = {
        "states": r["distinct"],
        "transitions": r["states"],
        "traces_validated_against_impl": spec["cases"],
        "samples": [c for c in samples if c],
        "exhaustive": True,
        "constants": {"cfg": cfg["cfg"], "non_vacuity_cfgs": BUG_CFGS,
                      "channels": ["ack", "hash (ProtocolHash trigger)", "e1 {a: u32}", "e2 {e: Entity, v: Vec<u8>} mapped",
                                   "t1 {x: u16} trigger with targets", "t2 {e: Entity} mapped trigger"],
                      "sender_states": ["authorized", "connected-unauthorized"], "session_points": ["pre (before the first tick)", "post"]},
        "tlc_runs": [run_info],
        "non_vacuity": non_vacuity,
        "class_counts": dict(sorted(cnt.items())),
        "driver": {k: {"inputs": s["cases"], "mismatches": len(s["mismatch_ids"]), "incidents": len(s["incidents"]),
                       "restarts": s["restarts"], "max_single_allocation_bytes": s["max_alloc"],
                       "max_single_allocation_at": s["max_alloc_id"], "counts": dict(sorted(s["counts"].items()))}
                   for k, s in sections.items()},
        "same_frame_interference_cases": interfere["cases"],
        "sweep_inputs": sweep["cases"],
        "random_inputs": rnd["cases"],
        "corpus_cases": corpus["cases"],
        "allocation": {"bound": "largest single request in the junk frame <= K * (len + C)", "K": 64, "C": 65536,
                       "observed_max_bytes": max_alloc, "observed_max_single_message_bytes": max(spec["max_alloc"], corpus["max_alloc"]),
                       "refused_above_bytes": 1 << 30},
        "divergences_from_transcribed_mechanism": ndiv,
        "binding_self_test": st,
        "rule": "one TLC junk state = one case: channel x shape (well-formed messages; truncation at every byte; trailing bytes; "
                "count / length fields replaced by {0, 1, n, n+1, 2^16, 2^32, 2^40, 2^64-1} and over-long / over-range varints; "
                "target index / generation boundary classes; out-of-range payloads; empty; odd-length and unknown-index "
                "acknowledgements) x sender state x session point; each replayed alone in one frame of a real server App against "
                "must (reference: discard or legal receive; exact value for well-formed bytes) and model (transcribed mechanism); "
                "sweep = all strings of length <= 2 x 6 channels x 2 senders, random = seeded random / mutated-valid / grammar-aware "
                "/ long strings, both 256 messages per frame with per-input attribution on any problem, asserting no panic / "
                "abort / hang, bounded allocation, nothing received under another sender, other client untouched and converging",
    }
    L.write_evidence(PID, tier, seed, "model_checking", coverage, time.time() - t0, violations=nviol,
                     assumptions=["postcard 1.1.3 / serde 1.0 decoding rules as transcribed in WireShapes.tla "
                                  "(varint limits, SeqAccess::size_hint, fixint u16)",
                                  "Bevy 0.16 identifier validity: generation in 1..=0x7FFF_FFFF",
                                  "harness built with overflow checks and debug assertions (dev profile)",
                                  "a frame that does not return within 10 s of wall clock is a hang; a process death inside a "
                                  "frame is an abort of the code under test",
                                  "byte strings beyond length 2 are sampled, not enumerated"])
    L.log(f"[c06] TLC {cfg['cfg']}: {r['distinct']} states; {spec['cases']} spec cases + {corpus['cases']} corpus + "
          f"{sweep['cases']} sweep + {rnd['cases']} random inputs on the real server; mismatches="
          f"{sum(len(s['mismatch_ids']) + len(s['incidents']) for s in sections.values())} divergences={ndiv} "
          f"max single allocation={max_alloc} B")
    return verdict.exit_code()
