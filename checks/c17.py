"""C17 - the example transport preserves per-channel order and delivers exactly once.

spec/LinkQueue.tla holds the reference (per-channel FIFO, `sent`) next to the receive path as implemented
(tcp.rs framing on a byte stream; LinkConditioner = std BinaryHeap transcribed with the crate's `Ord`).

1. TLC, exhaustive:  LinkQueue_design  (intended design: key (timestamp, arrival seq)) must satisfy
   PerChannelFifo / ExactlyOnce / NothingHeld ...;  LinkQueue_found (ImplBug_F7: key = timestamp only) must
   violate PerChannelFifo (non-vacuity); LinkQueue_latency / _jitter: the design keeps the conditioner's
   contract.
2. TLC, behaviour export (LinkQueue_gen): every complete send / sender-frame / receiver-frame schedule
   with the per-channel deliveries the design model produces (and, from a second run, those the as-found
   heap produces) as JSON.
3. harness/src/bin/c17_replay.rs replays every schedule in both directions over real loopback sockets
   between a real server app and a real client app and compares the per-channel deliveries.
4. Direct driver (independent of the TLC schedules): N in {1,2,3,4,5,8,16,32,48} messages piled up between
   two receiver frames, 3 channels, sizes 0..1200, raw sends and events, both directions.
"""
import json
import os
import random
import re
import time

import checklib as L

PID = "C17"
DIRS = ["s2c", "c2s"]
PERM_SIZES = [1, 2, 3, 4, 5, 8, 16, 32, 48]

# model payload length -> real sizes (bytes). 255/256/257: the low/high byte of the u16 length prefix.
SIZE_POOL = {0: [0], 1: [1, 2, 3, 5, 16, 64], 2: [255, 256, 257, 300, 511, 512], 3: [768, 1000, 1024, 1199, 1200]}


# ---------------------------------------------------------------------------------------------
# known-finding signatures: predicates over a case
def max_k(case):
    """Largest number of messages one receiver frame of the schedule finds on the stream."""
    flushed = pending = best = 0
    for st in case["steps"]:
        if st["op"] == "send":
            pending += 1
        elif st["op"] == "sframe":
            flushed += pending
            pending = 0
        elif st["op"] == "rframe":
            best = max(best, flushed)
            flushed = 0
    return best


SIGNATURES = {
    # F7: the heap is keyed by the timestamp only; 4 or more messages read in one frame leave it permuted
    "ge4_messages_in_one_receiver_frame": lambda case, kind: kind == "order" and max_k(case) >= 4,
}


# ---------------------------------------------------------------------------------------------
def cfg_variant(wd, base, name, subst):
    """A copy of spec/<base> with `CONSTANT = value` lines replaced."""
    s = open(os.path.join(L.SPEC, base)).read()
    for k, v in subst.items():
        s, n = re.subn(rf"^(\s*{k} = ).*$", rf"\g<1>{v}", s, flags=re.M)
        if n != 1:
            raise L.ToolError(f"cannot set {k} in {base}")
    p = os.path.join(wd, name)
    with open(p, "w") as f:
        f.write(s)
    return p


def tlc_cases(design_cases, found_cases, seed, first_id):
    """TLC behaviours -> replayer cases. `recvd` of the design run is the expectation, `recvd` of the
    as-found run (same schedule) the informational alternative."""
    def key(c):
        return json.dumps(c["steps"], sort_keys=True)
    alt = {key(c): c["recvd"] for c in found_cases}
    out = []
    for i, c in enumerate(sorted(design_cases, key=lambda c: (len(c["steps"]), key(c)))):
        rng = random.Random(f"{seed}/{i}")
        sizes = {}

        def size_of(tag, ln):
            if (tag, ln) not in sizes:
                sizes[(tag, ln)] = rng.choice(SIZE_POOL[ln])
            return sizes[(tag, ln)]

        def d(p):
            tag = p[0] if p else 0
            return {"tag": tag, "size": size_of(tag, len(p))}
        steps = []
        for st in c["steps"]:
            if st["op"] == "send":
                steps.append({"op": "send", "ch": st["ch"], **d(st["payload"])})
            elif st["op"] == "rframe":
                steps.append({"op": "rframe", "k": st["k"]})
            else:
                steps.append({"op": "sframe"})
        if c["recvd"] != c["sent"]:
            raise L.ToolError("design export: a quiescent state with recvd # sent slipped through")
        case = {"id": first_id + i, "src": "tlc", "via": "raw", "dirs": DIRS, "steps": steps,
                "expect": [[d(p) for p in ch] for ch in c["recvd"]]}
        a = alt.get(key(c))
        if a is None:
            raise L.ToolError("as-found export lacks a schedule of the design export")
        case["alt"] = [[d(p) for p in ch] for ch in a]
        out.append(case)
    return out


def as_found(steps, via, perms, nch):
    """What the heap keyed by the timestamp only would deliver (informational `alt`)."""
    pending, wire, out = [], [], [[] for _ in range(nch)]
    for st in steps:
        if st["op"] == "send":
            pending.append(st)
        elif st["op"] == "sframe":
            # events leave the sender grouped by event type (= channel), raw sends in call order
            wire += sorted(pending, key=lambda s: s["ch"]) if via == "event" else pending
            pending = []
        elif st["op"] == "rframe":
            order = perms.get(len(wire))
            if wire and order is None:
                return None
            for i in (order or []):
                out[wire[i]["ch"]].append({"tag": wire[i]["tag"], "size": wire[i]["size"]})
            wire = []
    return out


def direct_cases(seed, per_n, perms, first_id):
    """N messages piled up between two receiver frames; channels, sizes, flush pattern and API vary."""
    rng = random.Random(f"{seed}/direct")
    edge = [0, 1, 2, 3, 4, 255, 256, 257, 1199, 1200]
    out = []
    for n in PERM_SIZES:
        for v in range(per_n):
            pattern = ["once", "each", "two", "bursts"][v % 4] if n > 1 else "once"
            via = "raw" if (v // 4) % 2 == 0 else "event"
            nch = 3 if v % 3 != 2 else rng.choice([1, 2])
            sends = []
            for t in range(n):
                size = rng.choice(edge) if rng.random() < 0.3 else rng.randint(0, 1200)
                if v % 5 == 4:
                    size = 1200
                sends.append({"op": "send", "ch": rng.randrange(nch), "tag": t + 1, "size": size})
            steps = []
            if pattern == "once":
                steps = sends + [{"op": "sframe"}, {"op": "rframe", "k": n}]
            elif pattern == "each":
                for s in sends:
                    steps += [s, {"op": "sframe"}]
                steps.append({"op": "rframe", "k": n})
            elif pattern == "two":
                cut = rng.randrange(1, n)
                steps = sends[:cut] + [{"op": "sframe"}] + sends[cut:] + [{"op": "sframe"}, {"op": "rframe", "k": n}]
            else:  # two piles, each between two receiver frames; pile sizes from PERM_SIZES
                cut = max(s for s in PERM_SIZES if s < n)
                steps = sends[:cut] + [{"op": "sframe"}, {"op": "rframe", "k": cut}]
                rest = sends[cut:]
                steps += rest + [{"op": "sframe"}, {"op": "rframe", "k": len(rest)}]
            expect = [[{"tag": s["tag"], "size": s["size"]} for s in sends if s["ch"] == c] for c in range(3)]
            case = {"id": first_id + len(out), "src": "direct", "n": n, "pattern": pattern, "via": via,
                    "dirs": DIRS, "steps": steps, "expect": expect}
            alt = as_found(steps, via, perms, 3)
            if alt is not None:
                case["alt"] = alt
            out.append(case)
    return out


def run_replayer(wd, name, cases, timeout):
    p = os.path.join(wd, name)
    with open(p, "w") as f:
        for c in cases:
            f.write(json.dumps({k: c[k] for k in ("id", "via", "dirs", "steps", "expect", "alt") if k in c}) + "\n")
    r = L.run([L.harness_bin("c17_replay"), p], timeout=timeout)
    try:
        return json.loads(r.stdout.strip().splitlines()[-1])
    except (json.JSONDecodeError, IndexError):
        raise L.ToolError("c17_replay printed no summary")


def judge(verdict, cases, summary, label):
    """Classifies the replayer's mismatches; returns the number of violations."""
    by_id = {c["id"]: c for c in cases}
    open_kf = [f for f in L.load_known_findings() if PID in f.get("properties", []) and f.get("status") == "open"]
    bad, known = [], {}
    for cid, d, kind in summary["mismatch_ids"]:
        case = by_id[cid]
        hit = None
        for f in open_kf:
            pred = SIGNATURES.get(f.get("signature"))
            if pred and pred(case, kind):
                hit = f
                break
        if hit:
            known.setdefault(hit["id"], []).append((cid, d))
        else:
            bad.append((cid, d, kind))
    for fid, lst in known.items():
        f = next(f for f in open_kf if f["id"] == fid)
        verdict.known_finding(f"{fid}: {f.get('what', '')} ({len(lst)} runs in {label})")
    if bad:
        ids = []
        for cid, _, _ in bad:
            if cid not in ids:
                ids.append(cid)
        ids.sort(key=lambda i: (len(by_id[i]["steps"]), i))
        content = [dict(by_id[i]) for i in ids[:50]]
        path = L.save_replay(PID, f"{label}.json", content)
        first = next((m for m in summary["mismatches"] if m["id"] == ids[0]), None)
        pan = next((p for p in summary["panics"] if p["id"] == ids[0]), None)
        if first and first.get("kind") == "stall":
            what = f"case {first['id']} {first['dir']}: {first['detail']}"
        elif first:
            what = (f"case {first['id']} {first['dir']} channel {first['ch']}: expected {first['expected']} got {first['got']} "
                    f"({first['kind']}; the as-found heap model predicts exactly this: {first.get('matches_as_found_model')})")
        elif pan:
            what = f"case {pan['id']} {pan['dir']}: the receiving app panicked: {pan['panic']}"
        else:
            what = f"case {ids[0]}"
        verdict.violation(path, f"{len(bad)} run(s) in {label} disagree with the specification; shortest: {what}")
    return len(bad)


def self_test(wd, cases, summary, timeout):
    """Corrupts the expectation of one case; the replayer must report exactly that case."""
    failed = {cid for cid, _, _ in summary["mismatch_ids"]}
    good = [c for c in cases if c["id"] not in failed]
    pool = [c for c in good if any(len(ch) >= 2 and ch[0] != ch[1] for ch in c["expect"])]
    if len(pool) < 1 or len(good) < 3:
        raise L.ToolError("self-test: no passing case with two messages on a channel to corrupt")
    victim = json.loads(json.dumps(pool[len(pool) // 2]))
    ch = next(i for i, m in enumerate(victim["expect"]) if len(m) >= 2 and m[0] != m[1])
    victim["expect"][ch][0], victim["expect"][ch][1] = victim["expect"][ch][1], victim["expect"][ch][0]
    victim.pop("alt", None)
    others = [c for c in good if c["id"] != victim["id"]]
    trio = [others[0], victim, others[-1]]
    s = run_replayer(wd, "selftest.ndjson", trio, timeout)
    want = sorted([victim["id"], d, "order"] for d in victim["dirs"])
    if sorted(s["mismatch_ids"]) != want:
        raise L.ToolError(f"self-test of the binding failed: corrupted case {victim['id']} -> replayer reported {s['mismatch_ids']}")
    return {"corrupted_case": victim["id"], "swapped_channel": ch, "reported": s["mismatch_ids"]}


def main(tier, seed, replay):
    t0 = time.time()
    L.build_harness()
    wd = L.workdir("c17")
    verdict = L.Verdict(PID)
    thorough = tier == "thorough"

    if replay:
        txt = open(replay).read()
        try:
            cases = json.loads(txt)
        except json.JSONDecodeError:
            cases = [json.loads(l) for l in txt.splitlines() if l.strip()]
        s = run_replayer(wd, "replay.ndjson", cases, 600)
        judge(verdict, cases, s, "replay")
        for m in s["mismatches"]:
            L.log(json.dumps(m))
        L.log(f"[c17] replayed {s['runs']} runs of {s['cases']} cases, {s['mismatch_count']} mismatches")
        return verdict.exit_code()

    # ---- 1. exhaustive model checking ---------------------------------------------------------
    tlc_runs = {}
    states = transitions = 0
    design_variants = [("LinkQueue_design.cfg", {})]
    if thorough:
        design_variants = [("LinkQueue_design.cfg", {"MaxMsgs": 8}),
                           ("LinkQueue_design.cfg", {"MaxMsgs": 7, "NumChannels": 3})]
    for i, (base, sub) in enumerate(design_variants):
        cfg = cfg_variant(wd, base, f"design{i}.cfg", sub) if sub else base
        r = L.run_tlc("LinkQueue", cfg, wd, timeout=900, coverage=thorough and i == 0)
        consts = {"NumChannels": 2, "MaxMsgs": 6, "Delays": "{0}", "PartialReads": True, "ImplBug_F7": False, **sub}
        tlc_runs[f"design{i}"] = {"constants": consts, "states_generated": r["states"], "distinct": r["distinct"],
                                  "violated": r["violated"], "wall_s": round(r["wall"], 1)}
        states += r["distinct"]
        transitions += r["states"]
        if thorough and i == 0:
            cov = {}
            for m in re.finditer(r"^<(\w+) line [^>]*of module LinkQueue[^>]*>: (\d+):(\d+)", r["out"], re.M):
                name = "ReceiverFrame(Next)" if m.group(1) == "Next" else m.group(1)
                cov[name] = {"distinct": int(m.group(2)), "generated": int(m.group(3))}
            tlc_runs["design0"]["action_coverage"] = cov
            if not all(cov.get(a, {}).get("generated", 0) > 0 for a in ("Send", "SenderFrame", "ReceiverFrame(Next)")):
                raise L.ToolError(f"TLC coverage: an action was never taken: {cov}")
        if r["violated"]:
            with open(os.path.join(wd, "design-counterexample.txt"), "w") as f:
                f.write(r["out"])
            path = L.save_replay(PID, "design-counterexample.txt", r["out"][-20000:])
            verdict.violation(path, "TLC: the as-designed queue violates C17")

    r = L.run_tlc("LinkQueue", "LinkQueue_found.cfg", wd, timeout=300)
    found_inv = re.search(r"Invariant (\w+) is violated", r["out"])
    tlc_runs["found"] = {"constants": {"NumChannels": 2, "MaxMsgs": 6, "ImplBug_F7": True}, "states_generated": r["states"],
                         "violated": r["violated"], "invariant": found_inv.group(1) if found_inv else None}
    if not r["violated"] or not found_inv or found_inv.group(1) != "PerChannelFifo":
        raise L.ToolError("non-vacuity: TLC did not find PerChannelFifo violated with ImplBug_F7 = TRUE")

    for name in ("latency", "jitter"):
        r = L.run_tlc("LinkQueue", f"LinkQueue_{name}.cfg", wd, timeout=300)
        tlc_runs[name] = {"states_generated": r["states"], "distinct": r["distinct"], "violated": r["violated"]}
        states += r["distinct"]
        transitions += r["states"]
        if r["violated"]:
            path = L.save_replay(PID, f"{name}-counterexample.txt", r["out"][-20000:])
            verdict.violation(path, f"TLC: the as-designed queue violates its conditioner contract ({name})")

    # ---- 2. behaviour export --------------------------------------------------------------------
    mm = 6 if thorough else 5
    exports = {}
    for label, bug in (("design", "FALSE"), ("found", "TRUE")):
        cfg = cfg_variant(wd, "LinkQueue_gen.cfg", f"gen-{label}.cfg", {"MaxMsgs": mm, "MaxClock": mm, "ImplBug_F7": bug})
        r = L.run_tlc("LinkQueue", cfg, wd, timeout=900)
        if r["violated"]:
            raise L.ToolError(f"behaviour export ({label}) stopped on a violation")
        exports[label] = L.tlc_prints(r["out"], "CASE")
        tlc_runs[f"gen-{label}"] = {"constants": {"NumChannels": 2, "MaxMsgs": mm, "PartialReads": False, "Gen": True,
                                                  "ImplBug_F7": bug == "TRUE"},
                                    "states_generated": r["states"], "cases": len(exports[label])}
        if label == "design":
            states += r["distinct"]
            transitions += r["states"]
    if not exports["design"] or len(exports["design"]) != len(exports["found"]):
        raise L.ToolError("behaviour export: no cases, or the two exports differ in size")
    r = L.run_tlc("LinkQueue", "LinkQueue_perm.cfg", wd, timeout=120)
    perms = {p["n"]: p["order"] for p in L.tlc_prints(r["out"], "PERM")}
    if sorted(perms) != PERM_SIZES:
        raise L.ToolError("PERM export incomplete")

    cases = tlc_cases(exports["design"], exports["found"], seed, 0)
    n_tlc = len(cases)
    cases += direct_cases(seed, 48 if thorough else 12, perms, n_tlc)

    # ---- 3./4. replay on the real backend over loopback sockets --------------------------------
    rt = 1000 if thorough else 120
    summary = run_replayer(wd, "cases.ndjson", cases, rt)
    aborted = summary.get("aborted_after_panics")
    if summary["runs"] != 2 * len(cases) and not aborted:
        raise L.ToolError("replayer did not run every case in both directions")
    for p in summary["panics"][:5]:
        L.log(f"  panic: {p}")
    violations = judge(verdict, cases, summary, "replay")
    st = self_test(wd, cases, summary, 120) if not aborted else {"skipped": "replay aborted after 40 panics"}
    # bursts to several clients at once (the send path serves all clients in one frame)
    rb = L.run([L.harness_bin("c17_replay"), "--burst"], timeout=600)
    burst = json.loads(rb.stdout.strip().splitlines()[-1])
    if burst["burst_mismatches"]:
        path = L.save_replay(PID, "burst.json", burst["burst_mismatches"])
        verdict.violation(path, f"burst of broadcast messages to several clients: {json.dumps(burst['burst_mismatches'][0])[:300]}")
        violations += len(burst["burst_mismatches"])
    if aborted and not summary["mismatch_ids"]:
        raise L.ToolError("replay aborted without a mismatch")

    # ---- evidence -------------------------------------------------------------------------------
    ops = {"send": 0, "sframe": 0, "rframe": 0}
    k_hist, by_src, by_n, by_via, by_pattern = {}, {}, {}, {}, {}
    for c in cases:
        by_src[c["src"]] = by_src.get(c["src"], 0) + 1
        by_via[c["via"]] = by_via.get(c["via"], 0) + 1
        if c["src"] == "direct":
            by_n[str(c["n"])] = by_n.get(str(c["n"]), 0) + 1
            by_pattern[c["pattern"]] = by_pattern.get(c["pattern"], 0) + 1
        for s in c["steps"]:
            ops[s["op"]] += 1
            if s["op"] == "rframe":
                k_hist[str(s["k"])] = k_hist.get(str(s["k"]), 0) + 1
    alt_differs = sum(1 for c in cases if c.get("alt") is not None and c["alt"] != c["expect"])
    samples = [cases[0], cases[n_tlc // 2], cases[n_tlc - 1], cases[n_tlc], cases[-1]]
    samples = [{k: v for k, v in c.items() if k != "alt"} if len(c["steps"]) <= 12 else
               {**{k: v for k, v in c.items() if k not in ("alt", "steps", "expect")},
                "steps_head": c["steps"][:6], "n_steps": len(c["steps"])} for c in samples]
    coverage = {
        "states": states, "transitions": transitions,
        "traces_validated_against_impl": summary["runs"],
        "samples": samples,
        "exhaustive": True,
        "constants": {k: v.get("constants") for k, v in tlc_runs.items() if v.get("constants")},
        "tlc_runs": tlc_runs,
        "rule": "TLC enumerates every interleaving of Send(ch), SenderFrame and ReceiverFrame(k, dt) within the constants "
                "(design configs: partial reads, clock may stall); the export config enumerates every complete schedule "
                "(receiver frames read all that was flushed) once; each schedule is replayed in both directions over one "
                "real loopback TCP connection; the direct driver adds piles of N messages between two receiver frames",
        "cases_by_source": by_src, "direct_cases_by_n": by_n, "direct_cases_by_flush_pattern": by_pattern,
        "cases_by_api": by_via, "runs_by_direction": summary["runs_by_dir"],
        "ops_in_cases": ops, "receiver_frames_by_scheduled_k": k_hist,
        "cases_where_as_found_model_differs": alt_differs,
        "runs_where_real_code_followed_as_found_model": summary["alt_matched"],
        "receiver_frames": summary["rframes"], "receiver_frames_reading_exactly_the_scheduled_k": summary["rframes_as_scheduled"],
        "receiver_frames_with_ge4_messages": summary["frames_ge4"], "max_messages_in_one_receiver_frame": summary["max_in_frame"],
        "messages_delivered": summary["msgs_delivered"], "bytes_delivered": summary["bytes_delivered"],
        "max_message_size": summary["max_size"], "runs_needing_extra_polls": summary["runs_needing_poll"],
        "mismatching_runs": summary["mismatch_count"], "panics": len(summary["panics"]),
        "non_vacuity": {"as_found_config_violates": tlc_runs["found"]["invariant"], "binding_self_test": st},
    }
    if not verdict.violations and (summary["frames_ge4"] == 0 or summary["max_in_frame"] < 48):
        raise L.ToolError("vacuity: no receiver frame saw a pile of messages (sockets slower than the schedule?)")
    L.write_evidence(PID, tier, seed, "model_checking", coverage, time.time() - t0, violations=len(verdict.violations),
                     assumptions=[
                         "Rust's std BinaryHeap push/pop as transcribed from alloc 1.95 (checked against the real code: the as-found "
                         "model predicted the exact permutations observed before the fix)",
                         "loopback TCP delivers each write of <= 1203 bytes whole; partial availability of a frame body is not modelled",
                         "a socket deadline miss (8 s) is a tool error, not a violation: a message that never arrives is reported as exit 2",
                         "LinkConditioner is private: it is exercised only through the backend's systems over sockets",
                     ])
    L.log(f"[c17] TLC states={states}; {summary['runs']} runs ({n_tlc} TLC schedules + {len(cases) - n_tlc} direct cases, x2 directions), "
          f"{summary['mismatch_count']} mismatches, max {summary['max_in_frame']} messages in one frame")
    return verdict.exit_code()
