"""C09 - disconnects, reconnects and server restarts start from a clean slate.

Decided by the session part of the specification: Disconnect / Stop are enabled in every state of the
bounded models (crash-point enumeration by TLC), followed by a reconnect after at least one frame; the
structure, value and convergence monitors are restarted for the new session, every event delivery must
belong to the recipient's current session, and the per-client server state must be the initial one."""
import corelib as C
from corelib import ev_consts, mc_consts

PID = "C09"
# in the session profiles a dirty new session shows up as any of these monitors / fields
SESS_MON = ("C01", "C02", "C02mono", "C03", "C03mono", "C04delivery", "C05delivery", "C05recipients", "C05complete", "C05server", "C05serverComplete", "panic")
SESS_FIELDS = ("cli", "srv.cl", "ev.net", "delivered")


def main(tier, seed, replay):
    if replay:
        return C.replay_file(PID, replay)
    k = C.CoreCheck(PID, tier, seed)
    inv = ["Inv_C01", "Inv_C02", "Inv_C03"]
    if tier == "quick":
        k.model_check("MC_Sess", mc_consts(kinds=("spawn", "mutate", "disconnect"), ops=2, ticks=3, recon=1, cframes=4), inv)
        k.model_check("MC_Stop", mc_consts(kinds=("spawn", "remove", "despawn", "stop"), ops=3, ticks=2, recon=1, cframes=3, idle=2), inv)
        k.must_find("MC_Stop_F15", mc_consts(impl="ImplF15", kinds=("spawn", "remove", "despawn", "stop"), ops=3, ticks=2, recon=1, cframes=3, idle=2), inv)
        tr = k.validate_profile("sess", 120, extra_monitors=SESS_MON, extra_fields=SESS_FIELDS)
        k.validate_profile("events", 80, extra_monitors=SESS_MON, extra_fields=SESS_FIELDS)
        k.replay_behaviours("TLC_walks_sess", mc_consts(kinds=("spawn", "despawn", "mutate", "insert", "remove", "disconnect", "stop"), ents=("e1", "e2"), clients=("c1", "c2"), recon=3, ops=8, ticks=8, idle=3, cframes=10), 150, depth=100, extra_monitors=SESS_MON, extra_fields=SESS_FIELDS)
        k.replay_behaviours("EXH_Sess", mc_consts(kinds=("spawn", "remove", "despawn", "stop", "disconnect"), ops=2, ticks=2, idle=1, recon=1, cframes=0), 0, invariants=inv, extra_monitors=SESS_MON, extra_fields=SESS_FIELDS)
        k.buffers(300)
    else:
        k.model_check("MC_Sess", mc_consts(kinds=("spawn", "mutate", "insert", "disconnect"), ops=3, ticks=3, recon=1, cframes=4, idle=1), inv, timeout=3000)
        k.model_check("MC_Sess2", mc_consts(kinds=("spawn", "mutate", "disconnect"), ops=2, ticks=3, recon=2, cframes=5), inv, timeout=3000)
        k.model_check("MC_Stop", mc_consts(kinds=("spawn", "remove", "despawn", "mutate", "stop"), ops=3, ticks=3, recon=1, cframes=4, idle=2), inv, timeout=3000)
        k.model_check("MC_Event_recon", ev_consts(stypes=("SOrd",), ctypes=("COrd",), emits=2, ticks=2, reconnects=1, cframes=3), ["NoViolation", "Inv_C03"], module="MC_Event", timeout=3000)
        k.must_find("MC_Stop_F15", mc_consts(impl="ImplF15", kinds=("spawn", "remove", "despawn", "stop"), ops=3, ticks=2, recon=1, cframes=3, idle=2), inv)
        tr = k.validate_profile("sess", 3000, extra_monitors=SESS_MON, extra_fields=SESS_FIELDS)
        k.validate_profile("events", 2000, extra_monitors=SESS_MON, extra_fields=SESS_FIELDS)
        k.replay_behaviours("TLC_walks_sess", mc_consts(kinds=("spawn", "despawn", "mutate", "insert", "remove", "disconnect", "stop"), ents=("e1", "e2"), clients=("c1", "c2"), recon=3, ops=8, ticks=8, idle=3, cframes=10), 2000, depth=100, extra_monitors=SESS_MON, extra_fields=SESS_FIELDS)
        k.replay_behaviours("EXH_Sess", mc_consts(kinds=("spawn", "remove", "despawn", "stop", "disconnect"), ops=3, ticks=2, idle=2, recon=1, cframes=1), 0, invariants=inv, extra_monitors=SESS_MON, extra_fields=SESS_FIELDS, timeout=3000)
        k.buffers(20000)
    k.selftest(tr)
    return k.finish(assumptions=[
        "a lost connection is both ends dropping at once with everything in flight lost; the game despawns the replicated entities of the ended session (the harness does); the client runs at least one frame before it reconnects; a restarted server runs one frame before it accepts clients; the running flag changes at most once per server frame (replicon detects a stop by comparing with the previous frame)",
        "message buffers (spec/Buffers.tla): the public calls of RepliconClient / RepliconServer arrive in any order; a backend writes connection statistics (stats_mut) only while the client is connected; 3 channels, 2 client entities, payloads distinguishable by a running number",
        "panics of either app are observed under catch_unwind and reported by the panic monitor (attributed to C01 and C09)"])
