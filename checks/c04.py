"""C04 - decided by the event layer of the specification (spec/Events.tla, PropsE.tla, MC_Event.tla)."""
import corelib as C
from corelib import ev_consts, mc_consts

PID = "C04"
M = "MC_Event"


def main(tier, seed, replay):
    if replay:
        return C.replay_file(PID, replay)
    k = C.CoreCheck(PID, tier, seed)
    inv = ["Inv_C04", "Inv_C03"]
    if tier == "quick":
        k.model_check("MC_Event", ev_consts(stypes=("SOrd", "SMap"), emits=2), inv, module=M)
        k.must_find("MC_Event_NoQueue", ev_consts(impl="ImplNoQueue"), ["Inv_C04"], module=M)
        k.model_check("MC_Event_mapped_trigger", ev_consts(stypes=("SMTrig",), emits=2), inv, module=M)
        tr = k.validate_profile("events", 120)
        k.validate_profile("events_custom", 60)
    else:
        k.model_check("MC_Event", ev_consts(stypes=("SOrd", "SMap", "STrig"), emits=2, ticks=3, idle=1, cframes=3), inv, module=M, timeout=3000)
        k.model_check("MC_Event_late", ev_consts(stypes=("SOrd", "SMap"), emits=2, ticks=2, idle=1, init=()), inv, module=M, timeout=3000)
        k.model_check("MC_Event_modes", ev_consts(stypes=("SOrd",), modes=("all", "direct", "except"), emits=3, ticks=2), inv, module=M, timeout=3000)
        k.model_check("MC_Event_unreliable", ev_consts(stypes=("SUnr",), emits=2, ticks=2, cframes=3), inv, module=M, timeout=3000)
        k.model_check("MC_Event_mapped_trigger", ev_consts(stypes=("SMTrig", "SMap"), ents=("e1", "e2"), emits=2, ticks=2, ops=2, cframes=2), inv, module=M, timeout=3000)
        k.must_find("MC_Event_unreliable_NoQueue", ev_consts(impl="ImplNoQueue", stypes=("SUnr",)), ["Inv_C04"], module=M)
        k.must_find("MC_Event_NoQueue", ev_consts(impl="ImplNoQueue"), ["Inv_C04"], module=M)
        tr = k.validate_profile("events", 2500)
        k.validate_profile("events_custom", 1500)
    k.selftest(tr)
    return k.finish(assumptions=[
        "deliveries are observed by reader systems / observers inside the client apps together with ServerUpdateTick and the entity map at that moment",
        "event kinds: plain, independent, mapped (entity in the payload), trigger with a target, mapped trigger (target and a payload entity, the latter always slot e1), unreliable",
        "each event type travels on its own channel (ordered reliable ones, and an unreliable one with loss and reordering for SUnr / CUnr); the update channel and every event channel are delayed independently"])
